"""C01 - deploying the patch makes the diff empty (explicit-state search over the real diff/patch pipeline).

For every rulebook R of the grammar (mc/rbgen.py) and vendor: nodes = device states, edges = "choose a desired
config new in U(R); (diff, patch) = annet.api._diff_and_patch(dev, state, new, None, None, False, rb=R); execute the
command paths of the vendor formatter's cmd_paths one by one on the reference device".  Initial nodes: all of U(R);
the search runs until the reachable set is closed, so chains of any length are covered.
"""
from __future__ import annotations

from mc import env, rbgen
from mc.ref import device as refdev
from mc.ref import rb as refrb

PID = "C01"
ENGINE = "E2 explicit-state BFS (closure of reachable device states) over the real _diff_and_patch + reference device"
RULE = ("state = device config (canonical: unordered levels sorted, %ordered groups in order); transition = (state, desired "
        "config) through the real _diff_and_patch and cmd_paths, executed on the reference device; every state of the "
        "rulebook's config universe U(R) is an initial state and every desired config in U(R) an event; distinct by "
        "canonical state; a transition is non-trivial when the patch contains at least one command")
ASSUMPTIONS = [
    "the reference device of mc/ref/device.py is what 'a device that holds one line per rulebook rule and key' means "
    "(removal by rule+key, replace in place for the same key, append for new rows, %rewrite children dropped on block entry)",
    "%rewrite is exercised on child rules only (a block is 'overwritten as a whole'; there is no enclosing block at top level)",
    "expected state: desired config, plus rows of 'permanent' rules that were present (their non-permanent children removed), "
    "and for 'ignore_changes'/'permanent' keys present on both sides with different text the old text",
    "sibling rules of generated rulebooks have distinct first words except in the dedicated specific-before-general families",
]
BUDGET = {"quick": 150, "thorough": 1200}

BLOCK_VENDORS = {"huawei": ("undo", ("quit",)), "cisco": ("no", ("exit",)), "arista": ("no", ("exit",))}
FLAT_VENDORS = {"juniper": ("delete", ())}


def vendors(tier):
    return ["huawei", "cisco"] if tier == "quick" else ["huawei", "cisco", "arista", "juniper"]


def bound_text(tier):
    return ("rulebook families %s; vendors %s; config universe per rulebook complete (<= %d configs, keys/values reduced "
            "to stay under the cap); reachable set closed" % ([f for f, _ in rbgen.families(tier)], vendors(tier),
                                                            rbgen.knobs(tier)["cap"]))


_V_OFF = [None]


def setup():
    env.setup()
    from checks import c16_frontends as c16
    try:
        c16.setup()
    except env.NotDecided as e:
        # part V borrows the per-rule universes of C16, which are built with a private matcher of annet; without it part V
        # is not decided - the state search of this check does not depend on it
        _V_OFF[0] = str(e)


def blocks(tier, seed):
    out = [{"part": "V", "label": lb} for lb in V_LABELS]
    for fi, (name, rbs) in enumerate(rbgen.families(tier)):
        for v in vendors(tier):
            # split big families so that blocks stay small
            step = 6 if tier == "quick" else 3
            for off in range(0, len(rbs), step):
                out.append({"family": fi, "name": name, "vendor": v, "from": off, "to": min(len(rbs), off + step)})
    return out


# ---------------------------------------------------------------------------------------------------
_compiled = {}


def compile_rb(rules, vendor):
    from annet.rulebook.patching import compile_patching_text
    from annet.annlib.rbparser.ordering import compile_ordering_text
    from annet.rulebook.deploying import compile_deploying_text
    text = refrb.text(rules)
    return {"patching": compile_patching_text(text, vendor),
            "ordering": compile_ordering_text("", vendor),
            "deploying": compile_deploying_text("", vendor)}, text


def pick_universe(top, cap):
    for (nk, nv, ck) in ((2, 2, 2), (2, 2, 1), (2, 1, 1), (1, 2, 1), (1, 1, 1)):
        u = refrb.universe(top, nkeys=nk, nvalues=nv, cap=cap, child_nkeys=ck)
        if len(u) <= cap:
            return u, (nk, nv, ck)
    return None, None


def step(dev, fmt, vendor, rbk, top, state, new):
    """one transition on the real code; -> (result_state | None, ncmds, error, diff)"""
    from annet import api
    diff, patch = env.diff_and_patch(dev, env.to_odict(state), env.to_odict(new), None, None, False, rb=rbk)
    if vendor in FLAT_VENDORS:
        prefix, exits = FLAT_VENDORS[vendor]
        paths = refdev.patch_paths(patch)
    else:
        prefix, exits = BLOCK_VENDORS[vendor]
        paths = list(fmt.cmd_paths(patch).keys())
    try:
        res = refdev.run(state, top, paths, prefix, exits)
    except refdev.DeviceError as e:
        return None, len(paths), str(e), diff, paths
    return res, len(paths), None, diff, paths


def compact(rules):
    return refrb.text(rules).replace("\n", " / ").replace("    ", ">")


def judge(dev, fmt, vendor, rbk, top, rules, state, new, report, memo=None):
    """runs one transition and all its checks; -> canonical result state or None"""
    case = {"rb": [r.to_json() for r in rules], "vendor": vendor, "state": state, "new": new}
    base = {"rb": compact(rules), "vendor": vendor}
    try:
        res, ncmds, err, diff, paths = step(dev, fmt, vendor, rbk, top, state, new)
    except Exception as e:  # noqa
        from mc import core
        if core.raised_in_harness(e):
            raise
        report(dict(base, kind="exception", exc=type(e).__name__), case, repr(e)[:500])
        return None, 0
    if err is not None:
        report(dict(base, kind="device-rejects-patch"), case, err + " | cmds=%r" % (paths,))
        return None, ncmds
    exp = refdev.expected(top, state, new)
    cres, cexp = refrb.canon_state(top, res), refrb.canon_state(top, exp)
    cnew = refrb.canon_state(top, new)
    # the device holding exactly the desired configuration is convergence whatever the reference allows to be kept (a
    # removed-and-re-created %ordered block gets the new text of an ignore_changes child: the old one went with the block)
    if cres != cexp and cres != cnew:
        report(dict(base, kind="not-converged"), case,
               "after deploying: device=%r expected=%r cmds=%r" % (res, exp, paths))
        return None, ncmds
    if refrb.canon_state(top, state) == cnew:
        from annet import patching
        if diff or ncmds:
            report(dict(base, kind="diff-of-equal-configs-not-empty"), case, "diff=%r cmds=%r" % (diff, paths))
    # second round from the concrete device state
    if res != new:
        mk = None
        if memo is not None:
            mk = (repr(res), repr(new))
            if mk in memo:
                return (cres, res), ncmds
            memo.add(mk)
        try:
            res2, ncmds2, err2, diff2, paths2 = step(dev, fmt, vendor, rbk, top, res, new)
        except Exception as e:  # noqa
            report(dict(base, kind="exception-second-round", exc=type(e).__name__), case, repr(e)[:500])
            return (cres, res), ncmds
        if cres == cnew:
            # converged: nothing may be left to do
            if ncmds2:
                report(dict(base, kind="second-patch-not-empty"), case,
                       "device after first patch=%r desired=%r second cmds=%r" % (res, new, paths2))
            elif diff2:
                report(dict(base, kind="second-diff-not-empty"), case, "device=%r desired=%r diff=%r" % (res, new, diff2))
        else:
            # rows kept on purpose by permanent / ignore_changes: the desired config is unreachable by design; what must
            # still hold is that deploying again does not move the device
            if err2 is not None or refrb.canon_state(top, res2) != cres:
                report(dict(base, kind="second-patch-moves-device"), case,
                       "device after first patch=%r desired=%r second cmds=%r -> %r" % (res, new, paths2, res2))
    return (cres, res), ncmds


def explore_rulebook(rules, vendor, tier, ctx, report):
    rbk, text = compile_rb(rules, vendor)
    top = refrb.top_level(rules)
    cap = rbgen.knobs(tier)["cap"]
    U, kn = pick_universe(top, cap)
    if U is None:
        ctx.extra["rulebooks_skipped_over_cap"] += 1
        return
    dev = env.device(vendor)
    fmt = env.formatter(vendor)
    seen = {}
    work = []
    memo = set()      # second rounds already judged for this (concrete device state, desired config)
    for c in U:
        k = refrb.canon_state(top, c)
        if k not in seen:
            seen[k] = c
            work.append(c)
    n_init = len(work)
    i = 0
    ntrans = 0
    while i < len(work):
        state = work[i]
        i += 1
        if ctx.expired():
            ctx.notes.append("budget hit inside rulebook %r" % compact(rules))
            break
        for new in U:
            out, ncmds = judge(dev, fmt, vendor, rbk, top, rules, state, new, report, memo)
            ntrans += 1
            ctx.evals += 1
            if ncmds:
                ctx.nontrivial += 1
            ctx.outcomes["cmds=%s" % (ncmds if ncmds < 4 else "4+")] += 1
            if out is not None:
                k, concrete = out
                if k not in seen:
                    if len(seen) > 6 * n_init + 50:
                        ctx.notes.append("reachable set of %r grew beyond 6x the universe; stopped adding" % compact(rules))
                        continue
                    seen[k] = concrete
                    work.append(concrete)
    ctx.states += len(seen)
    ctx.transitions += ntrans
    ctx.extra["rulebooks"] += 1
    ctx.extra["states_outside_universe"] += len(seen) - n_init
    if len(ctx.samples) < 2:
        ctx.sample({"rulebook": text, "vendor": vendor, "universe": len(U), "keys/values/childkeys": kn,
                    "reachable_states": len(seen), "transitions": ntrans,
                    "example_config": U[len(U) // 2]})


# ---------------------------------------------------------------------------------------------------
# part V: shipped rulebooks, vendor logic functions - every removed row gets a command
#
# What a vendor logic function emits for a change is device knowledge the reference device does not have.  For the logic
# functions named below one necessary condition of convergence can still be stated without it: their commands are the row
# itself (added / overwritten in place) or a negation made of the row's own words, possibly cut short ('undo peer X' for
# 'peer X as-number 1'; 'undo peer X bfd min-tx-interval' for 'peer X bfd min-tx-interval 500 ...').  So every row the diff
# reports REMOVED must be accounted for by some command of the patch at its place:
#   * the negation word followed by words that are a subsequence of the row's words, beginning with the row's first word, or
#   * a command (not a negation) with the row's first two words (the line is overwritten by another value), or
#   * such a negation of an enclosing block.
# A removed row with no such command is a removal the device never hears of.  (The list holds the logic functions of
# block-structured vendors for which this reading is the documented one - see their docstrings - and for which the
# unchanged tree satisfies it on every case of the universes below; transforming logics - aruba ap-env, VLAN range lists,
# 'permanent' rows, rows that are themselves negations - are outside it.)
V_LOGICS = {
    "huawei.bgp.peer", "huawei.bgp.undo_commit", "huawei.aaa.domain", "huawei.misc.classifier", "huawei.misc.netstream_undo",
    "huawei.misc.port_split", "huawei.misc.rp_node", "huawei.misc.snmpagent_sysinfo_version", "huawei.misc.static",
    "huawei.misc.stelnet", "huawei.misc.vty_acl_undo", "%multiline",
    "b4com.iface.description", "b4com.iface.lldp", "b4com.iface.mtu", "b4com.iface.sflow",
    "cisco.misc.banner_login", "cisco.misc.no_ipv6_nd_suppress_ra", "cisco.misc.ssh_key", "cisco.misc.no_ntp_distribute",
}
V_LABELS = ["huawei", "cisco", "nexus", "b4com"]
# row tails of the universes: two of them share their first word (two lines of one key that differ only further right)
V_TAILS = ("", "10 11", "10 12 13", "20 21")
V_NEG = {"huawei": "undo", "b4com": "no", "cisco": "no", "nexus": "no"}


def _subseq(small, big):
    it = iter(big)
    return all(x in it for x in small)


def removed_rows(diff, Op, path=()):
    out = []
    for ent in diff:
        op, row, ch = ent[0], ent[1], ent[2]
        if op == Op.REMOVED:
            out.append((path, row))
        else:
            out += removed_rows(ch, Op, path + (row,))
    return out


def accounted(path, row, cmds, neg):
    rw = row.split()
    for p in cmds:
        # a negation at the row's place, or of an enclosing block
        for k in range(min(len(p), len(path) + 1)):
            if tuple(p[:k]) != tuple(path[:k]):
                break
            target = rw if k == len(path) else path[k].split()
            w = p[k].split()
            if len(w) > 1 and w[0] == neg and w[1] == target[0] and _subseq(w[1:], target):
                return True
        if len(p) == len(path) + 1 and tuple(p[:-1]) == tuple(path):
            w = p[-1].split()
            if w and w[0] != neg and w[0] == rw[0] and (len(rw) < 2 or len(w) < 2 or w[1] == rw[1]):
                return True
    return False


def judge_v(label, hw, fmt, u, old, new, report):
    from annet.annlib.types import Op
    from checks import c16_frontends as c16
    case = {"part": "V", "label": label, "old": old, "new": new, "rule": u["rule"], "logic": u["logic"]}
    try:
        diff, patch = c16.device_side(hw, env.to_odict(old), env.to_odict(new), False)
    except Exception as e:  # noqa   (a logic refusing a configuration is an outcome here; C16 compares the two front ends on it)
        from mc import core
        if core.raised_in_harness(e):
            raise
        return "raises", 0
    cmds = [tuple(p) for p in fmt.cmd_paths(patch).keys()]
    n = 0
    for path, row in (removed_rows(diff, Op) if u["logic"] in V_LOGICS else ()):
        n += 1
        if not accounted(path, row, cmds, V_NEG[hw.vendor]):
            report({"kind": "removed-row-without-command", "logic": u["logic"], "rule": u["rule"]}, case,
                   "the diff reports %r removed at %r, no command of the patch refers to it: %r" % (row, list(path), [list(p) for p in cmds]))
            return "unaccounted", n
    # a row the new configuration holds must not be written first and negated afterwards at the same place (the removal of
    # one rule and key precedes its re-creation): a negation whose words are a prefix of the row's words takes the row away
    neg = V_NEG[hw.vendor]
    for j, pj in enumerate(cmds):
        wj = pj[-1].split()
        if len(wj) < 2 or wj[0] != neg:
            continue
        if _holds(old, pj[:-1] + (" ".join(wj[1:]),)):
            continue        # the negation of a complete row of the old configuration, another row than the one written (no claim)
        for pi in cmds[:j]:
            wi = pi[-1].split()
            if len(pi) == len(pj) and pi[:-1] == pj[:-1] and wi[0] != neg and wi[:len(wj) - 1] == wj[1:] and _holds(new, pi):
                report({"kind": "row-written-then-negated", "logic": u["logic"], "rule": u["rule"]}, case,
                       "at %r the patch writes %r and negates it afterwards with %r; the new configuration holds the row: %r"
                       % (list(pi[:-1]), pi[-1], pj[-1], [list(p) for p in cmds]))
                return "written-then-negated", n
    return ("removals" if n else "no-removal"), n


def _holds(forest, path):
    node = forest
    for row in path:
        nxt = next((ch for r, ch in node if r == row), None)
        if nxt is None:
            return False
        node = nxt
    return True


def run_v(block, ctx):
    from checks import c16_frontends as c16
    if _V_OFF[0] is not None:
        ctx.capped = True
        ctx.notes.append("part V not decided - %s" % _V_OFF[0])
        return
    label = block["label"]
    hw = c16.hw_of(label)
    fmt = c16.formatter_of(hw)
    nmax = 3 if ctx.tier == "quick" else 4
    for idx, _cr in enumerate(c16.custom_rules(label)):
        u = c16.universe(label, idx, V_TAILS)
        if u is None:
            continue
        ctx.extra["V_rules"] += 1
        for old, new, _n, _shape in c16.forest_cases(u, nmax):
            if ctx.expired():
                return
            lab, n = judge_v(label, hw, fmt, u, old, new, ctx.violation)
            ctx.evals += 1
            ctx.states += 1
            ctx.transitions += 1
            if n:
                ctx.nontrivial += 1
            ctx.outcomes["V:" + lab] += 1
    ctx.sample({"part": "V", "label": label, "logics": sorted(V_LOGICS)[:6]})


def run_block(block, ctx):
    if block.get("part") == "V":
        return run_v(block, ctx)
    fams = rbgen.families(ctx.tier)
    name, rbs = fams[block["family"]]
    for rules in rbs[block["from"]:block["to"]]:
        if ctx.capped:
            return
        explore_rulebook(rules, block["vendor"], ctx.tier, ctx, ctx.violation)


def replay(case):
    if case.get("part") == "V":
        from checks import c16_frontends as c16
        hw = c16.hw_of(case["label"])
        out = []
        judge_v(case["label"], hw, c16.formatter_of(hw), {"rule": case["rule"], "logic": case["logic"]}, case["old"], case["new"],
                lambda sig, c, d: out.append((sig, d)))
        return out
    rules = [refrb.Rule.from_json(d) for d in case["rb"]]
    vendor = case["vendor"]
    rbk, _ = compile_rb(rules, vendor)
    top = refrb.top_level(rules)
    out = []
    judge(env.device(vendor), env.formatter(vendor), vendor, rbk, top, rules, case["state"], case["new"],
          lambda sig, c, d: out.append((sig, d)))
    return out
