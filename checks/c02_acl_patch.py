"""C02 - a patch never touches configuration outside the generators' ACL.

For every ACL of the grammar (single generator, and pairs merged exactly as RunGeneratorResult.acl_text() tags and
concatenates them), a fixed default-logic rulebook that knows every row of the alphabet, and all pairs (old,new) of
forests over the ACL's row alphabet:  (diff, patch) = annet.api._diff_and_patch(dev, old, new, acl, None, False, rb=R)
 (a) every command path of cmd_paths(patch) is covered by the ACL level by level, directly or in negated form
     (block-exit words excepted);
 (b) executing the patch on the reference device from `old`: every row of `old` the ACL does not cover, whose
     ancestors all survive, is still there with an identical subtree;
 (c) every covered row of `old` whose governing rule is cant_delete for all generators, and whose ancestors survive,
     is still there.
Part E (end to end, mc/e2e.py): `annet patch` and the deploy job on every corpus sample's device configuration with
 (1) only a generator written for another vendor, (2) a generator that yields nothing and declares no ACL, (3) one
 generator owning a single command family (ACL '<head> ~' + '~ %global' below it) and yielding the sample's new rows
 of that family: nothing outside the family - in (1) and (2) nothing at all - may appear in the patch or be queued.
All pairs of one ACL run on ONE compiled ACL object (as the lru_cached compile_acl_text hands it out in production); a
violation that a freshly compiled object does not show is reported with the earlier pair that makes it appear (history).
"""
from __future__ import annotations

import re

from mc import env, aclgen, enum as mcenum
from mc.ref import acl as refacl
from mc.ref import device as refdev
from mc.ref import rb as refrb
from mc.ref.rb import Rule

PID = "C02"
ENGINE = "E1 bounded-exhaustive enumeration of (ACL, old, new) through the real _diff_and_patch; reference ACL cover + reference device"
RULE = ("a case is (ACL text or merged pair, old forest, new forest) over the ACL's row alphabet (rule instances at any "
        "level + foreign rows), vendor huawei/cisco; distinct by construction; non-trivial = the patch has a command and old "
        "contains a row the ACL does not cover or a cant_delete row that new lacks")
ASSUMPTIONS = [
    "reference ACL cover relation and its unambiguous domain (mc/ref/acl.py)",
    "reference device (mc/ref/device.py) for clauses (b) and (c)",
    "the rulebook is a fixed default-logic rulebook that knows every row of the alphabet (the property restricts (a) to "
    "logics that emit the row or its negation)",
]
BUDGET = {"quick": 150, "thorough": 1500}

VENDORS = {"huawei": ("undo", ("quit",)), "cisco": ("no", ("exit",))}


HEADS = ["a", "b", "c", "d", "interface", "x"]


def rulebook(depth=3, prefix=None):
    """default-logic rulebook knowing every row of the alphabet at every level; keys capture the whole row, so the
    removal command of a row is exactly its negation (the property's clause (a) is about such rulebooks).  With
    `prefix`, rows written in negated form ('undo a 1', as a generator may yield them) are known too."""
    if depth == 0:
        return []
    out = []
    for w in HEADS:
        out.append(Rule(w + " ~", rulebook(depth - 1, prefix)))
        out.append(Rule(w, rulebook(depth - 1, prefix)))
    if prefix:
        out.append(Rule(prefix + " ~"))
    return out


def bound_text(tier):
    return ("%d ACL texts (+ merged pairs of a core subset); all pairs (old <= 3 nodes, new <= %d nodes), depth <= 3 over "
            "4 alphabet rows; vendors %s" % (len(aclgen.acls(tier)), 2 if tier == "quick" else 3,
                                             list(VENDORS) if tier == "thorough" else ["huawei"]))


def setup():
    env.setup()
    env.install_harness_deploy_driver()


def blocks(tier, seed):
    A = aclgen.acls(tier)
    idx = list(range(len(A)))
    if tier == "quick":
        idx = [i for i in idx if i % 2 == 0 or A[i][0].startswith(("B-", "iface", "top", "depth", "catch", "two", "overlap-specific"))]
    out = []
    for v in (["huawei"] if tier == "quick" else list(VENDORS)):
        for i in idx:
            out.append({"kind": "single", "i": i, "vendor": v})
        core = [i for i, (n, _) in enumerate(A) if n.startswith(("B-", "iface", "top", "two", "catchall-global"))]
        for i in core[::2] if (tier == "quick" or v != "huawei") else core:
            out.append({"kind": "pair", "i": i, "j": core[(core.index(i) + 3) % len(core)], "vendor": v})
        for i in range(len(aclgen.merge_pairs())):
            out.append({"kind": "mpair", "i": i, "vendor": v})
    for i in range(8):
        out.append({"kind": "e2e", "i": i, "of": 8})
    return out


_rb_cache = {}


def compiled_rb(vendor):
    if vendor not in _rb_cache:
        from checks.c01_converge import compile_rb
        rules = rulebook(prefix=VENDORS[vendor][0])
        _rb_cache[vendor] = (compile_rb(rules, vendor)[0], refrb.top_level(rules))
    return _rb_cache[vendor]


def acl_shape(text):
    """flags used by the ACL (signature material: coarse, so that one root cause gives few signatures)"""
    return ",".join(sorted(set(re.findall(r"%(global|cant_delete=\d|generator_names)", text)))) or "plain"


def covered_path(level, path, prefix):
    """-> (covered: bool, governing rule of the last row, negated?)"""
    rule = None
    for i, row in enumerate(path):
        g = refacl.govern(level, row, prefix)
        if g is None:
            return False, None, False
        rule, is_rev, level = g
        if is_rev and i < len(path) - 1:
            return False, rule, True
    return True, rule, is_rev


def find_path(cfg, path):
    node = cfg
    sub = None
    for row in path:
        sub = next((ch for r, ch in node if r == row), None)
        if sub is None:
            return None
        node = sub
    return sub


_PASS_ALL = {}


def pass_all_filter(vendor):
    if vendor not in _PASS_ALL:
        from annet.annlib.rbparser.acl import compile_acl_text
        _PASS_ALL[vendor] = compile_acl_text("~ %global\n", vendor)
    return _PASS_ALL[vendor]


def judge(vendor, acl_level, acl_compiled, acl_text, old, new, report):
    from annet import api
    prefix, exits = VENDORS[vendor]
    rbk, top = compiled_rb(vendor)
    case = {"vendor": vendor, "acl_text": acl_text, "old": old, "new": new}
    try:
        diff, patch = env.diff_and_patch(env.device(vendor), env.to_odict(old), env.to_odict(new), acl_compiled, None, False, rb=rbk)
    except Exception as e:  # noqa
        from mc import core
        if core.raised_in_harness(e):
            raise
        report({"kind": "exception", "exc": type(e).__name__, "acl_shape": acl_shape(acl_text)}, case, repr(e)[:300])
        return 0, False
    paths = list(env.formatter(vendor).cmd_paths(patch).keys())
    # the same run with a filter ACL (--filter-acl) that lets every line through: the generators' ACL still decides what is
    # owned and what may be deleted, so nothing may change
    if old != new:
        try:
            _d2, patch2 = env.diff_and_patch(env.device(vendor), env.to_odict(old), env.to_odict(new), acl_compiled,
                                              pass_all_filter(vendor), False, rb=rbk)
            paths2 = list(env.formatter(vendor).cmd_paths(patch2).keys())
        except Exception as e:  # noqa
            paths2 = "%s: %s" % (type(e).__name__, e)
        if paths2 != paths:
            report({"kind": "pass-all-filter-acl-changes-patch", "acl_shape": acl_shape(acl_text)}, case,
                   "without a filter ACL: %r; with the filter ACL '~ %%global': %r" % (paths, paths2))
    # (a)
    for p in paths:
        if p[-1] in exits:
            continue
        ok, rule, rev = covered_path(acl_level, p, prefix)
        if not ok:
            report({"kind": "command-outside-acl", "acl_shape": acl_shape(acl_text)}, case, "command path %r is not covered; patch=%r" % (p, paths))
            break
    # (b), (c)
    try:
        res = refdev.run(old, top, paths, prefix, exits)
    except refdev.DeviceError as e:
        report({"kind": "device-rejects-patch", "acl_shape": acl_shape(acl_text)}, case, "%s | patch=%r" % (e, paths))
        return len(paths), False
    interesting = False

    def walk(cfg, path, level):
        nonlocal interesting
        for row, ch in cfg:
            p = path + (row,)
            now = find_path(res, p)
            g = refacl.govern(level, row, prefix) if level is not None else None
            if g is None:
                interesting = True
                # uncovered row (or below an uncovered row): must be untouched
                if now is None or now != ch:
                    report({"kind": "uncovered-row-touched", "acl_shape": acl_shape(acl_text)}, case,
                           "row %r of old is not covered by the ACL but after the patch it is %r (was %r); patch=%r" % (p, now, ch, paths))
                continue       # subtree compared as a whole
            rule, is_rev, sub = g
            if now is None:
                if (not is_rev) and all(rule.cds):
                    report({"kind": "cant_delete-row-removed", "acl": acl_text, "rule": rule.pattern}, case,
                           "row %r is cant_delete but the patch removes it; patch=%r" % (p, paths))
                continue       # removed covered block: children go with it
            if (not is_rev) and all(rule.cds) and find_path(new, p) is None:
                interesting = True
            walk(ch, p, sub)
    walk(old, (), acl_level)
    return len(paths), interesting


E2E_BLOCK_VENDORS = ("huawei", "huawei ce", "cisco", "arista", "nexus", "asr", "b4com", "aruba")


def e2e_cases(sample):
    """[(label, generator specs, owned head word or None)]"""
    import re as _re
    out = [("other-vendor-generator", [{"forest": sample["new"], "supports": False}], None),
           ("no-acl-no-output", [{"forest": [], "acl": None}], None)]
    heads = []
    for row, _ in sample["new"] + sample["old"]:
        h = row.split()[0]
        if _re.fullmatch(r"[A-Za-z][A-Za-z0-9_-]*", h) and h not in heads and h not in ("no", "undo"):
            heads.append(h)
    for h in heads[:2]:
        mine = [[r, c] for r, c in sample["new"] if r.split()[0] == h]
        out.append(("one-family:" + h, [{"forest": mine, "acl": "\n        %s ~\n            ~ %%global\n        %s\n            ~ %%global\n    " % (h, h)}], h))
    return out


def check_e2e(sample, report):
    from mc import e2e
    n = 0
    prefix = {"huawei": "undo", "huawei ce": "undo"}.get(sample["vendor_key"], "no")
    for label, gens, head, clear in [(l_, g_, h_, c_) for l_, g_, h_ in e2e_cases(sample) for c_ in ((False, True) if h_ else (False,))]:
        case = {"part": "E", "sample": sample["name"], "case": label + ("+clear" if clear else "")}
        with e2e.Session(sample["model"], sample["old"], gens) as ss:
            if not ss.representable:
                continue
            try:
                shown = ss.patch(False, clear=clear)       # --clear: the generators' whole domain is to be removed
                job = ss.deploy_job(False, False, clear=clear)
            except Exception as e:  # noqa   (vendor logic may refuse a partial configuration; an outcome, judged elsewhere)
                continue
        n += 1
        rows = []
        for _label, text, _ in shown:
            rows += [ln for ln in text.split("\n") if ln and not ln.startswith(" ")]
        sent = [c for c in list(job.cmd_lines)[2:-1]] if job.cmd_lines else []
        if head is None:
            if rows or sent:
                report({"kind": "e2e-patch-without-ownership", "case": label}, case,
                       "the generators own nothing, yet annet patch prints %r and the deploy job lists %r" % (rows[:6], sent[:6]))
            continue
        # a removal is '<negation word> <row>' or, for some vendor logics, another verb in front of the row ('default ip ...')
        bad = [r for r in rows if r.split()[0] != head and not (len(r.split()) > 1 and r.split()[1] == head)
               and r not in ("commit", "quit", "exit")]
        if bad:
            report({"kind": "e2e-command-outside-owned-family", "case": "one-family"}, case,
                   "the generator owns '%s ~' only; top-level patch rows outside it: %r (all: %r)" % (head, bad[:6], rows[:12]))
    return n


def run_e2e(block, ctx):
    from mc import corpus
    S = [s_ for s_ in corpus.samples() if s_["vendor_key"] in E2E_BLOCK_VENDORS]
    for si in range(block["i"], len(S), block["of"]):
        if ctx.expired():
            return
        n = check_e2e(S[si], ctx.violation)
        ctx.evals += 2 * n
        ctx.states += n
        ctx.nontrivial += n
        ctx.outcomes["E:cases=%d" % n] += 1
        ctx.extra["e2e_runs"] += n


def run_block(block, ctx):
    if block.get("kind") == "e2e":
        return run_e2e(block, ctx)
    from annet.annlib.rbparser.acl import compile_acl_text
    A = aclgen.acls(ctx.tier)
    vendor = block["vendor"]
    prefix = VENDORS[vendor][0]
    if block["kind"] == "single":
        rules = A[block["i"]][1]()
        text = refacl.text(rules)
        level = refacl.top(refacl.merge([("g", rules)]))
        rows = aclgen.row_alphabet(rules)[:4]
    else:
        if block["kind"] == "mpair":
            _, fa, fb, _neg = aclgen.merge_pairs()[block["i"]]
            ra, rb_ = fa(), fb()
        else:
            ra, rb_ = A[block["i"]][1](), A[block["j"]][1]()
        text = aclgen.combined_text([("ga", refacl.text(ra)), ("gb", refacl.text(rb_))])
        level = refacl.top(refacl.merge([("ga", ra), ("gb", rb_)]))
        rows = []
        for r in aclgen.row_alphabet(ra)[:3] + aclgen.row_alphabet(rb_)[:3]:
            if r not in rows:
                rows.append(r)
        rows = rows[:4]
    if "x" not in rows:
        rows[-1] = "x"
    compiled = compile_acl_text(text, vendor)
    done = []            # the (old, new) pairs already run on this compiled ACL object, in order
    minimised = set()

    def report(sig, case, detail=""):
        """a violation seen on the long-lived compiled ACL: if a freshly compiled one does not show it, the pairs run
        before are part of the case (history) - the shortest one-pair history that reproduces it is looked for"""
        key = repr(sorted(sig.items()))
        if key in minimised:
            return ctx.violation(sig, dict(case, history_not_minimised=True), detail)
        minimised.add(key)

        def shows(history):
            compile_acl_text.cache_clear()
            fresh = compile_acl_text(text, vendor)
            for h_old, h_new in history:
                judge(vendor, level, fresh, text, h_old, h_new, lambda *a, **k: None)
            got = []
            judge(vendor, level, fresh, text, case["old"], case["new"], lambda s_, c_, d_="": got.append(s_))
            return sig in got
        if shows([]):
            return ctx.violation(sig, case, detail)
        for h in done[:4000]:
            if shows([h]):
                return ctx.violation(dict(sig, after_history=True), dict(case, history=[list(h)]),
                                     "after %r on the same compiled ACL: %s" % (h, detail))
        ctx.violation(dict(sig, after_history=True), dict(case, history=[list(h) for h in done[-200:]], history_not_minimised=True), detail)
    fs = [f for f in mcenum.forests(rows, 3, 3)]
    # thorough: the full 3x3-node product for huawei, (3,2) for the second vendor
    fs_new = fs if (ctx.tier == "thorough" and vendor == "huawei") else [f for f in mcenum.forests(rows, 2, 3)]
    # generator output may hold rows in negated form ('undo a 1'): the ACL drops them from `new` where every rule covering
    # them is cant_delete, otherwise they become removal commands.  Old configs stay free of them.
    base_rows = list(dict.fromkeys(r for r in rows if r != "x"))[:2]
    neg_rows = [x for r in base_rows for x in (r, prefix + " " + r)]
    neg_new = [f for f in mcenum.forests(neg_rows, 2, 2) if any(r.startswith(prefix + " ") for r, _ in f) or any(r.startswith(prefix + " ") for _, ch in f for r, _ in ch)]
    neg_old = [f for f in mcenum.forests(base_rows + ["x"], 2, 2)]
    for old in neg_old:
        for new in neg_new:
            if ctx.expired():
                return
            n, interesting = judge(vendor, level, compiled, text, old, new, report)
            done.append((old, new))
            ctx.evals += 1
            ctx.states += 1
            ctx.nontrivial += int(bool(n))
            ctx.outcomes["negated-rows-in-new:cmds=%s" % (n if n < 3 else "3+")] += 1
    for old in fs:
        if ctx.expired():
            return
        for new in fs_new:
            n, interesting = judge(vendor, level, compiled, text, old, new, report)
            done.append((old, new))
            ctx.evals += 1
            ctx.states += 1
            if n and interesting:
                ctx.nontrivial += 1
            ctx.outcomes["cmds=%s%s" % (n if n < 3 else "3+", "/has-unowned-or-protected-rows" if interesting else "")] += 1
    if len(ctx.samples) < 1:
        ctx.sample({"acl": text, "rows": rows, "pairs": len(fs) * len(fs_new), "vendor": vendor})


def replay(case):
    if case.get("part") == "E":
        from mc import corpus
        out = []
        check_e2e(next(x for x in corpus.samples() if x["name"] == case["sample"]), lambda sig, c, d="": out.append((sig, d)))
        return [(sg, d) for sg, d in out]
    from annet.annlib.rbparser.acl import compile_acl_text
    # rebuild the reference level from the text: parse our own rendering
    level = level_from_text(case["acl_text"])
    out = []
    compile_acl_text.cache_clear()
    compiled = compile_acl_text(case["acl_text"], case["vendor"])
    for h_old, h_new in case.get("history", []):
        judge(case["vendor"], level, compiled, case["acl_text"], h_old, h_new, lambda *a, **k: None)
    hist = bool(case.get("history"))
    judge(case["vendor"], level, compiled, case["acl_text"], case["old"], case["new"],
          lambda sig, c, d="": out.append((dict(sig, after_history=True) if hist else sig, d)))
    return out


def level_from_text(text):
    """parse the ACL text rendered by mc/ref/acl.text (+ optional %generator_names tags) back into reference rules"""
    import re
    per_gen = {}
    stack = {}
    for ln in text.split("\n"):
        if not ln.strip():
            continue
        ind = (len(ln) - len(ln.lstrip())) // 4
        body = ln.strip()
        m = re.search(r"\s%generator_names=(\S+)", body)
        gen = m.group(1) if m else "g"
        body = re.sub(r"\s+%generator_names=\S+", "", body)
        glob = " %global" in body
        cd = None
        m2 = re.search(r"%cant_delete=(\d)", body)
        if m2:
            cd = m2.group(1) == "1"
        pat = re.sub(r"\s+%\S+", "", body).strip()
        r = refacl.ARule(pat, [], glob, cd)
        if ind == 0:
            per_gen.setdefault(gen, []).append(r)
        else:
            stack[(gen, ind - 1)].children.append(r)
        stack[(gen, ind)] = r
    return refacl.top(refacl.merge(list(per_gen.items())))
