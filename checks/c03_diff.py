"""C03 - the diff is a faithful, lossless description of old versus new.

Same (rulebook, old, new) spaces as C01 (standard diff logics: default / ordered / rewrite).  For every pair the
real make_diff / strip_unchanged / formatter.diff / gen_pre_as_diff(make_pre(.)) are compared with a path-wise
reference computed from the two configs and the rulebook structure; the `annet file-diff` view (the pre returned by
annet.api._read_old_new_diff_patch, rendered by gen_pre_as_diff) must read back to the same entries.

Part M (several devices): annet.diff.gen_sort_diff for every three consecutive corpus samples of a vendor as three
devices, with and without collapsing, its results collected into a list before any text is read (as annet.cli does):
the text under a device's label reads back to that device's own diff, and no device is lost.

Part E (end to end): for every sample of the shipped corpus, the production worker of `annet diff` (annet.diff.worker, run
through mc/e2e.py exactly as annet.api.diff hands it to the pool) with the shipped rulebooks: every row the generators
produce and the device lacks is reported as added, every device row the generators do not produce as removed (rows the
rulebook knows), nothing that both sides hold is reported added or removed unless `annet patch`'s diff of the same
run says so too, and the two commands agree on what is added and removed - with and without --acl-safe.
"""
from __future__ import annotations

from mc import env, rbgen
from mc.ref import rb as refrb
from checks.c01_converge import compile_rb, pick_universe, compact

PID = "C03"
ENGINE = "E1 bounded-exhaustive enumeration of (rulebook, old, new) against a path-wise reference diff"
RULE = ("a case is (rulebook of the grammar, vendor, old config, new config) with old,new ranging over the complete "
        "config universe of the rulebook; distinct by construction; non-trivial = old != new and the diff has entries of "
        "at least two different ops or a nested change")
ASSUMPTIONS = [
    "rule selection reference of mc/ref/rb.py (first matching sibling in file order, locals before globals)",
    "old-side projection of %ordered groups is compared as a multiset plus relative order of the rows not marked moved "
    "(a moved row's old position is by definition not in the diff); the new-side projection is compared as an ordered tree",
    "MOVED reference for %ordered groups: the rows not marked moved must be exactly the longest prefix of the new sequence "
    "that is also, in order, what is left of the old sequence after deleting removed rows (minimal set for an appending device)",
]
BUDGET = {"quick": 150, "thorough": 1500}

OPS = None


def vendors(tier):
    return ["huawei", "juniper"] if tier == "quick" else ["huawei", "cisco", "juniper", "nokia"]


def bound_text(tier):
    return ("rulebook families %s; vendors %s; all ordered pairs (old,new) of the complete config universe per rulebook "
            "(<= %d configs); rendering round trip through %s formatter(s); E: 192 corpus samples x {--acl-safe} through "
            "annet.diff.worker end to end"
            % ([f for f, _ in all_families(tier)], vendors(tier), knobs(tier)["cap"],
               "3" if tier == "quick" else "all 14"))


def knobs(tier):
    return {"cap": 44 if tier == "quick" else 200}


def extra_families():
    from mc.ref.rb import Rule
    return [("X1-rewrite-nesting", [
        [Rule("a *", [Rule("c *", [Rule("e ~", rewrite=True)])], rewrite=True)],
        [Rule("a *", [Rule("c *", [Rule("e ~", rewrite=True)], ordered=True)], rewrite=True)],
        [Rule("a *", [Rule("c ~", rewrite=True, glob=True)], rewrite=True)],
        [Rule("a *", [Rule("c *", [Rule("e *", rewrite=True), Rule("d")])], rewrite=True), Rule("b")],
    ]), ("X2-ignore-case-next-to-case-sensitive-rules", [
        # an %ignore_case rule next to ordinary rules whose rows hold upper-case letters (huawei.rul: 'ipv6 nd ra ...' next
        # to 'description ~'): only the rows of the flagged rule are folded
        [Rule("B *"), Rule("d *", icase=True)],
        [Rule("a *", [Rule("C ~"), Rule("d *", icase=True)]), Rule("B")],
        [Rule("a *", [Rule("d", icase=True), Rule("E *", ordered=True, nkeys=2)])],
        [Rule("A *", [Rule("d *", icase=True), Rule("C *", rewrite=True)])],
        [Rule("G *", glob=True), Rule("a *", [Rule("d *", icase=True)])],
    ])]


def all_families(tier):
    return rbgen.families(tier) + extra_families()


def setup():
    env.setup()
    env.install_harness_deploy_driver()


def blocks(tier, seed):
    out = [{"part": "E", "i": i, "of": 8} for i in range(8)] + [{"part": "M", "i": i, "of": 4} for i in range(4)]
    for fi, (name, rbs) in enumerate(all_families(tier)):
        for v in vendors(tier):
            step = 6 if tier == "quick" else 3
            for off in range(0, len(rbs), step):
                out.append({"family": fi, "name": name, "vendor": v, "from": off, "to": min(len(rbs), off + step)})
    return out


# ---------------------------------------------------------------------------------------------------
def known(level, cfg):
    out = []
    for row, ch in cfg:
        g = refrb.govern(level, row)
        if g is not None:
            # rows of an %ignore_case rule are compared (and reported) without regard to letter case: the diff speaks
            # about the lower-cased row; every other row must appear in the diff letter for letter
            out.append((row.lower() if g[0].icase else row, ch, g))
    return out


def restrict(level, cfg):
    """cfg|R: only rows the rulebook knows, recursively"""
    return [[row, restrict(g[2], ch)] for (row, ch, g) in known(level, cfg)]


def check_level(level, old, new, diff, path, probs, Op, under_moved=False, in_rewrite=False):
    ko, kn = known(level, old), known(level, new)
    orows = {r: (ch, g) for r, ch, g in ko}
    nrows = {r: (ch, g) for r, ch, g in kn}
    seen = {}
    for ent in diff:
        op, row, children = ent[0], ent[1], ent[2]
        if row in seen:
            probs.append(("duplicate-entry", path + (row,), "row appears twice at one level"))
        seen[row] = ent
        if row not in orows and row not in nrows:
            probs.append(("entry-for-absent-row", path + (row,), "op=%s" % op))
    # a %rewrite group whose subtrees are all equal disappears from the diff as a whole
    rewrite_rows_old = [(r, ch) for r, ch, g in ko if g[0].rewrite]
    rewrite_rows_new = [(r, ch) for r, ch, g in kn if g[0].rewrite]
    # (only the OUTERMOST %rewrite group may vanish: inside a rewritten block everything is re-emitted with the block)
    # (and not below a MOVED block: that block is removed and written anew, so its body has to be in the diff)
    rewrite_group_equal = (not in_rewrite) and (not under_moved) and (
        restrict_rows(level, rewrite_rows_old) == restrict_rows(level, rewrite_rows_new))
    for row in list(orows) + [r for r in nrows if r not in orows]:
        in_o, in_n = row in orows, row in nrows
        ent = seen.get(row)
        g = (orows.get(row) or nrows.get(row))[1]
        rule, key, sub = g
        if ent is None:
            if in_o and in_n and rule.rewrite and rewrite_group_equal:
                continue
            probs.append(("missing-entry", path + (row,), "in_old=%s in_new=%s rule=%s" % (in_o, in_n, rule.line())))
            continue
        op, children = ent[0], ent[2]
        och = orows[row][0] if in_o else []
        nch = nrows[row][0] if in_n else []
        if in_o and not in_n:
            if op != Op.REMOVED:
                probs.append(("wrong-op", path + (row,), "only in old but op=%s" % op))
        elif in_n and not in_o:
            if op != Op.ADDED:
                probs.append(("wrong-op", path + (row,), "only in new but op=%s" % op))
        else:
            if op not in (Op.AFFECTED, Op.UNCHANGED, Op.MOVED):
                probs.append(("wrong-op", path + (row,), "in both but op=%s" % op))
            if op == Op.UNCHANGED and restrict(sub, och) != restrict(sub, nch):
                probs.append(("unchanged-but-differs", path + (row,), "old=%r new=%r" % (och, nch)))
        check_level(sub, och, nch, children, path + (row,), probs, Op, under_moved or op == Op.MOVED,
                    in_rewrite or rule.rewrite)
    # projections
    not_removed = [e[1] for e in diff if e[0] != Op.REMOVED]
    not_added = [e[1] for e in diff if e[0] != Op.ADDED]
    # new side: ordered inside %ordered groups
    grp_new = [r for r, ch, g in kn if g[0].ordered]
    grp_diff_new = [r for r in not_removed if r in nrows and nrows[r][1][0].ordered]
    if grp_new != grp_diff_new:
        probs.append(("projection-new-order", path, "ordered rows of new=%r, diff without removed=%r" % (grp_new, grp_diff_new)))
    hidden = set()
    if rewrite_group_equal:
        hidden = {r for r, _ in rewrite_rows_new}
    if sorted(r for r in nrows if r not in hidden) != sorted(r for r in not_removed if r not in hidden):
        probs.append(("projection-new", path, "new|R=%r, diff without removed=%r" % (sorted(nrows), sorted(not_removed))))
    if sorted(r for r in orows if r not in hidden) != sorted(r for r in not_added if r not in hidden):
        probs.append(("projection-old", path, "old|R=%r, diff without added=%r" % (sorted(orows), sorted(not_added))))
    # MOVED reference for the %ordered group of this level
    grp_old = [r for r, ch, g in ko if g[0].ordered]
    # (below a moved block everything is re-created with the block, so children inherit the mark)
    if (grp_old or grp_new) and not under_moved:
        left = [r for r in grp_old if r in nrows]          # what is left of old after deleting removed rows
        k = 0
        while k < len(grp_new) and k < len(left) and grp_new[k] == left[k]:
            k += 1
        stable = set(grp_new[:k])
        for r in grp_new:
            if r in orows and r in seen:
                moved = seen[r][0] == Op.MOVED
                if moved and r in stable:
                    probs.append(("moved-but-order-unchanged", path + (r,), "old=%r new=%r" % (grp_old, grp_new)))
                if (not moved) and r not in stable:
                    probs.append(("order-changed-but-not-moved", path + (r,), "old=%r new=%r op=%s" % (grp_old, grp_new, seen[r][0])))


def rule_at(top, path):
    """the line of the rule governing the last row of path (signature material)"""
    level = top
    line = "<top>"
    for row in path:
        g = refrb.govern(level, row)
        if g is None:
            return "<unknown row>"
        line = g[0].line()
        level = g[2]
    return line


def restrict_rows(level, rows):
    return [[r, restrict(refrb.govern(level, r)[2], ch)] for r, ch in rows]


# ---- readers of the signed text formats ------------------------------------------------------------
SIGN = {"-": "removed", "+": "added", ">": "moved", " ": "affected"}


def read_signed_indent(lines, indent, begin=""):
    """lines '<sign> <indent*level><row>' -> nested [(opname,row,children)]; `begin` is the vendor's block-begin mark
    that the view appends to rows that have children (RouterOS: '/')"""
    root = []
    stack = [(-1, root)]
    levels = []
    for ln in lines:
        rest = ln[2:]
        lvl = 0
        while indent and rest.startswith(indent):
            rest = rest[len(indent):]
            lvl += 1
        levels.append(lvl)
    for i, ln in enumerate(lines):
        sign, rest = ln[0], ln[2:]
        lvl = levels[i]
        rest = rest[len(indent) * lvl:]
        if begin and rest.endswith(begin) and i + 1 < len(lines) and levels[i + 1] > lvl:
            rest = rest[:-len(begin)]
        node = (SIGN[sign], rest, [])
        while stack[-1][0] >= lvl:
            stack.pop()
        stack[-1][1].append(node)
        stack.append((lvl, node[2]))
    return root


def read_signed_brace(lines, indent, begin=" {", end="}", stmt=";"):
    root = []
    stack = [root]
    for ln in lines:
        sign, rest = ln[0], ln[2:]
        rest = rest.strip()
        if rest == end:
            stack.pop()
            continue
        if begin and rest.endswith(begin):
            node = (SIGN[sign], rest[:-len(begin)], [])
            stack[-1].append(node)
            stack.append(node[2])
        else:
            if stmt and rest.endswith(stmt):
                rest = rest[:-len(stmt)]
            stack[-1].append((SIGN[sign], rest, []))
    return root


def read_pre_diff(lines, indent):
    """gen_pre_as_diff lines '<sign><indent*level> <row>\\n'"""
    root = []
    stack = [(-1, root)]
    for ln in lines:
        ln = ln.rstrip("\n")
        sign, rest = ln[0], ln[1:]
        lvl = 0
        while rest.startswith(indent):
            rest = rest[len(indent):]
            lvl += 1
        rest = rest[1:]
        node = (SIGN[sign], rest, [])
        while stack[-1][0] >= lvl:
            stack.pop()
        stack[-1][1].append(node)
        stack.append((lvl, node[2]))
    return root


def plain(diff):
    return [(str(e[0].value) if hasattr(e[0], "value") else str(e[0]), e[1], plain(e[2])) for e in diff]


def multiset(tree):
    return sorted((op, row, multiset(ch)) for op, row, ch in tree)


RENDER_QUICK = ["huawei", "juniper", "cisco"]


def judge(vendor, rbk, top, rules, old, new, tier, report, stats=None):
    from annet import patching
    from annet.annlib.types import Op
    from annet.annlib.diff import gen_pre_as_diff
    case = {"rb": [r.to_json() for r in rules], "vendor": vendor, "old": old, "new": new}
    base = {"rb": compact(rules), "vendor": vendor}
    try:
        diff = patching.make_diff(env.to_odict(old), env.to_odict(new), rbk, [])
    except Exception as e:  # noqa
        report(dict(base, kind="exception", exc=type(e).__name__), case, repr(e)[:400])
        return None
    probs = []
    check_level(top, old, new, diff, (), probs, Op)
    for (kind, path, detail) in probs[:3]:
        report({"kind": kind, "vendor": vendor, "rule": rule_at(top, path)}, case,
               "rulebook %s at %r: %s | diff=%r" % (compact(rules), path, detail, plain(diff)))
    stripped = patching.strip_unchanged(diff)
    if old == new and stripped:
        report(dict(base, kind="self-diff-not-empty"), case, "diff=%r" % (plain(stripped),))
    # rendering round trip
    want = plain(stripped)
    opname = {str(Op.REMOVED.value) if hasattr(Op.REMOVED, "value") else str(Op.REMOVED): "removed"}
    names = {}
    for o, n in ((Op.REMOVED, "removed"), (Op.ADDED, "added"), (Op.MOVED, "moved"), (Op.AFFECTED, "affected")):
        names[str(o.value) if hasattr(o, "value") else str(o)] = n

    def norm(t):
        return [(names.get(op, op), row, norm(ch)) for op, row, ch in t]
    want = norm(want)
    for v in (RENDER_QUICK if tier == "quick" else env.ALL_VENDORS):
        fmt = env.formatter(v)
        try:
            lines = fmt.diff(stripped)
        except Exception as e:  # noqa
            report(dict(base, kind="render-exception", formatter=v, exc=type(e).__name__), case, repr(e)[:300])
            continue
        if getattr(fmt, "_block_end", ""):
            got = read_signed_brace(lines, fmt._indent, fmt._block_begin, fmt._block_end, fmt._statement_end)
        else:
            got = read_signed_indent(lines, fmt._indent, getattr(fmt, "_block_begin", ""))
        if got != want:
            report(dict(base, kind="render-roundtrip", formatter=v), case, "lines=%r read=%r diff=%r" % (lines, got, want))
        if stats is not None:
            stats["renders"] += 1
    try:
        pre = patching.make_pre(stripped)
        lines = list(gen_pre_as_diff(pre, False, "  ", True))
        got = read_pre_diff(lines, "  ")
        if multiset(got) != multiset(want):
            report(dict(base, kind="pre-diff-roundtrip"), case, "lines=%r read=%r diff=%r" % (lines, got, want))
    except Exception as e:  # noqa
        report(dict(base, kind="pre-diff-exception", exc=type(e).__name__), case, repr(e)[:300])
    # the `annet file-diff` view: the pre that annet.api._read_old_new_diff_patch hands to gen_pre_as_diff (the function
    # also builds a patch on the way; what it prints must still be the diff)
    try:
        from annet import api
        with env.rulebook_override(lambda _hw, _real: rbk):
            _rb, _d, fpre, _pt = env.call_private(api, "_read_old_new_diff_patch", env.to_odict(old), env.to_odict(new), env.hw(vendor), False)
        lines = list(gen_pre_as_diff(fpre, False, "  ", True))
        got = read_pre_diff(lines, "  ")
        if multiset(got) != multiset(want):
            report(dict(base, kind="file-diff-view-roundtrip"), case, "lines=%r read=%r diff=%r" % (lines, got, want))
        if stats is not None:
            stats["file_diff_views"] += 1
    except Exception as e:  # noqa   (a logic that refuses the pair is judged by C01/C16; here only the view matters)
        if stats is not None:
            stats["file_diff_view_exceptions"] += 1
    return stripped


def op_kinds(diff, acc, depth=0):
    for e in diff:
        acc.add(str(e[0]))
        if e[2]:
            acc.add("nested")
            op_kinds(e[2], acc, depth + 1)
    return acc


def run_e2e(block, ctx):
    from mc import corpus
    S = corpus.samples()
    for si in range(block["i"], len(S), block["of"]):
        for acl_safe in (0, 1):
            if ctx.expired():
                return
            label, n = check_e2e(S[si], acl_safe, ctx.violation)
            ctx.evals += 3
            ctx.states += 1
            if n > 1:
                ctx.nontrivial += 1
            ctx.outcomes["E:%s" % label] += 1
            ctx.extra["e2e_runs"] += 1


def run_block(block, ctx):
    if block.get("part") == "E":
        return run_e2e(block, ctx)
    if block.get("part") == "M":
        return run_multi(block, ctx)
    fams = all_families(ctx.tier)
    name, rbs = fams[block["family"]]
    vendor = block["vendor"]
    for rules in rbs[block["from"]:block["to"]]:
        rbk, text = compile_rb(rules, vendor)
        top = refrb.top_level(rules)
        U, kn = pick_universe(top, knobs(ctx.tier)["cap"])
        if U is None:
            ctx.extra["rulebooks_skipped_over_cap"] += 1
            continue
        ctx.extra["rulebooks"] += 1
        for old in U:
            if ctx.expired():
                return
            for new in U:
                stripped = judge(vendor, rbk, top, rules, old, new, ctx.tier, ctx.violation, ctx.extra)
                ctx.evals += 1
                ctx.states += 1
                if stripped is None:
                    ctx.outcomes["exception"] += 1
                    continue
                kinds = op_kinds(stripped, set())
                if len(kinds) >= 2:
                    ctx.nontrivial += 1
                ctx.outcomes["+".join(sorted(k.split(".")[-1] for k in kinds)) or "empty"] += 1
        if len(ctx.samples) < 2:
            ctx.sample({"rulebook": text, "vendor": vendor, "universe": len(U), "pairs": len(U) ** 2,
                        "example_old": U[len(U) // 3], "example_new": U[-1]})


def check_e2e(sample, acl_safe, report):
    from annet import patching, rulebook
    from mc import e2e
    from checks.c09_cmdstream import split_new
    case = {"part": "E", "sample": sample["name"], "acl_safe": acl_safe}
    unsafe, safe = split_new(sample["new"])
    with e2e.Session(sample["model"], sample["old"], [(unsafe, False), (safe, True)]) as ss:
        if not ss.representable:
            return "device-text-not-representable", 0
        try:
            d = ss.diff(acl_safe)
        except Exception as e:  # noqa
            report({"kind": "e2e-diff-worker-raises", "exc": type(e).__name__}, case, repr(e)[:300])
            return "raises", 0
        try:
            pd = ss.patch_diff(acl_safe)
        except Exception as e:  # noqa   (vendor logic of the patch side may refuse a half configuration: an outcome)
            pd = None
        hw = ss.dev.hw
        from annet import implicit
        from annet.annlib.lib import merge_dicts
        irules = implicit.compile_rules(ss.dev)
    if d is None or not isinstance(d, list):
        report({"kind": "e2e-diff-worker-result", "type": type(d).__name__}, case, repr(d)[:200])
        return "shape", 0
    got = e2e.flatten_diff(d)
    new_forest = safe if acl_safe else e2e.union_forest(unsafe, safe)
    # both sides are completed with the vendor's implicit defaults before they are compared (C17 judges the completion)
    o_tree, n_tree = env.to_odict(sample["old"]), env.to_odict(new_forest)
    o_tree = merge_dicts(o_tree, implicit.config(o_tree, irules))
    n_tree = merge_dicts(n_tree, implicit.config(n_tree, irules))
    O, N = e2e.paths_of(o_tree), e2e.paths_of(n_tree)
    # rows the shipped rulebook knows (others are dropped from both sides by design): those of the unstripped diff
    full = e2e.flatten_diff(patching.make_diff(o_tree, n_tree, rulebook.get_rulebook(hw), []))
    n = 0
    for p in sorted(N - O):
        if p in full and full[p] == "added" and got.get(p) != "added":
            report({"kind": "e2e-diff-misses-added-row", "acl_safe": acl_safe}, case, "row %r is new, annet diff says %r" % (p, got.get(p)))
            break
    for p in sorted(O - N):
        if p in full and full[p] == "removed" and got.get(p) != "removed":
            report({"kind": "e2e-diff-misses-removed-row", "acl_safe": acl_safe}, case, "row %r is gone, annet diff says %r" % (p, got.get(p)))
            break
    for p, op in sorted(got.items()):
        n += op in ("added", "removed")
        if op in ("added", "removed") and p in O and p in N and full.get(p) not in ("added", "removed"):
            report({"kind": "e2e-diff-invents-change", "op": op, "acl_safe": acl_safe}, case,
                   "row %r is on the device and generated, annet diff says %s" % (p, op))
            break
        if op == "added" and p in O and p not in N or op == "removed" and p in N and p not in O:
            report({"kind": "e2e-diff-wrong-direction", "acl_safe": acl_safe}, case, "row %r: %s" % (p, op))
            break
    if pd is not None and len(pd) == 1 and pd[0][0] is not None:
        other = e2e.flatten_diff(patching.strip_unchanged(pd[0][0]))
        a = {p: o for p, o in got.items() if o in ("added", "removed")}
        b = {p: o for p, o in other.items() if o in ("added", "removed")}
        if a != b:
            only = sorted(set(a.items()) ^ set(b.items()))[:4]
            report({"kind": "e2e-diff-and-patch-disagree", "acl_safe": acl_safe}, case,
                   "annet diff and annet patch's diff differ on added/removed rows: %r" % (only,))
    return "ok", n


def check_multi(vendor_key, group, no_collapse, report):
    """part M: annet.diff.gen_sort_diff over several devices, collected first and read afterwards (as annet.cli does):
    every device's text must read back to that device's own diff"""
    from annet import cli_args, patching, rulebook
    from annet import diff as ann_diff
    from annet.annlib.netdev.views.hardware import HardwareView
    from mc import e2e
    case = {"part": "M", "vendor_key": vendor_key, "samples": [s_["name"] for s_ in group], "no_collapse": no_collapse}
    diffs, own = {}, {}
    for i, s_ in enumerate(group):
        hw = HardwareView(s_["model"], None)
        d = e2e._Device()
        d.hw, d.hostname, d.fqdn, d.id, d.breed = hw, "h%d" % i, "h%d.example" % i, None, hw.vendor
        try:
            df = patching.strip_unchanged(patching.make_diff(env.to_odict(s_["old"]), env.to_odict(s_["new"]), rulebook.get_rulebook(hw), []))
        except Exception:  # noqa
            continue
        if df:
            diffs[d] = df
            own["h%d.cfg" % i] = df
    if len(diffs) < 2:
        return 0
    args = cli_args.ShowDiffOptions(query=e2e._harness_query(), indent="  ", no_color=True, show_rules=False, no_collapse=bool(no_collapse))
    try:
        out = list(ann_diff.gen_sort_diff(diffs, args))
        texts = [(name, t if isinstance(t, str) else "".join(t)) for name, t, _ in out]
    except Exception as e:  # noqa
        report({"kind": "multi-device-view-raises", "exc": type(e).__name__}, case, repr(e)[:300])
        return 0
    names = {"removed": "removed", "added": "added", "moved": "moved", "affected": "affected"}

    def norm(t):
        return [(names.get(str(getattr(op, "value", op)), str(getattr(op, "value", op))), row, norm(ch)) for op, row, ch in t]
    seen = set()
    for name, text in texts:
        got = read_pre_diff([ln + "\n" for ln in text.split("\n") if ln], "  ")
        for one in name.split(", "):
            seen.add(one)
            want = norm(plain(own.get(one, [])))
            if multiset(got) != multiset(want):
                report({"kind": "multi-device-view-shows-another-diff", "no_collapse": bool(no_collapse)}, case,
                       "label %s: shown %r, that device's diff is %r" % (one, got, want))
                return len(diffs)
    if seen != set(own):
        report({"kind": "multi-device-view-loses-a-device"}, case, "labels %r, devices %r" % (sorted(seen), sorted(own)))
    return len(diffs)


# devices whose diffs hold the same signed lines at DIFFERENT nesting (the views group devices with equal diffs: equal means
# equal entries, signs and nesting) - two shapes per vendor plus a true duplicate of the first
def synth_multi():
    out = {}
    for vk, model, blk, a, b in (("huawei", "Huawei", "interface 100GE1/0/1", "mpls", "mpls ldp"),
                                 ("cisco", "Cisco Catalyst", "interface GigabitEthernet0/1", "shutdown", "ip routing")):
        old = [[blk, []]]
        out[vk] = [
            {"name": "synth-multi/%s/nested" % vk, "vendor_key": vk, "model": model, "old": old, "new": [[blk, [[a, []], [b, []]]]]},
            {"name": "synth-multi/%s/split" % vk, "vendor_key": vk, "model": model, "old": old, "new": [[blk, [[a, []]]], [b, []]]},
            {"name": "synth-multi/%s/nested-again" % vk, "vendor_key": vk, "model": model, "old": old, "new": [[blk, [[a, []], [b, []]]]]},
        ]
    return out


def run_multi(block, ctx):
    from mc import corpus
    if block["i"] == 0:
        for vk, group in sorted(synth_multi().items()):
            for order in (group, [group[1], group[0], group[2]]):
                for nc in (0, 1):
                    n = check_multi(vk, order, nc, ctx.violation)
                    ctx.evals += 1
                    ctx.states += 1
                    ctx.nontrivial += int(n >= 2)
                    ctx.outcomes["M:synthetic devices=%d" % n] += 1
    by = {}
    for s_ in corpus.samples():
        by.setdefault(s_["vendor_key"], []).append(s_)
    for vk, lst in sorted(by.items()):
        for i in range(block["i"], max(0, len(lst) - 2), block["of"]):
            for nc in (0, 1):
                if ctx.expired():
                    return
                n = check_multi(vk, lst[i:i + 3], nc, ctx.violation)
                ctx.evals += 1
                ctx.states += 1
                ctx.nontrivial += int(n >= 2)
                ctx.outcomes["M:devices=%d" % n] += 1


def replay(case):
    if case.get("part") == "M":
        from mc import corpus
        out = []
        S = {s_["name"]: s_ for s_ in corpus.samples()}
        S.update({s_["name"]: s_ for g in synth_multi().values() for s_ in g})
        check_multi(case["vendor_key"], [S[n] for n in case["samples"]], case["no_collapse"], lambda sig, c, d="": out.append((sig, d)))
        return out
    if case.get("part") == "E":
        from mc import corpus
        out = []
        check_e2e(next(x for x in corpus.samples() if x["name"] == case["sample"]), case["acl_safe"],
                  lambda sig, c, d="": out.append((sig, d)))
        return out
    rules = [refrb.Rule.from_json(d) for d in case["rb"]]
    rbk, _ = compile_rb(rules, case["vendor"])
    out = []
    judge(case["vendor"], rbk, refrb.top_level(rules), rules, case["old"], case["new"], "thorough",
          lambda sig, c, d: out.append((sig, d)))
    return out
