"""C04 - vendor text and config trees round-trip for every registered vendor (bounded-exhaustive, E1).

For each of the 14 registered vendors every ordered forest with pairwise distinct sibling rows, <= N nodes,
depth <= 5 over the vendor's row alphabet (mc/ref/vendortext.py: ALPHABET) that lies in the vendor's well-formed
domain is executed on the real formatter obtained from the registry:

  1 tree       parse_to_tree(fmt.join(t), fmt.split) == t            (same rows, nesting, order)
  1b syntax    fmt.join(t) is, character for character, the plain rendering of t in the vendor's syntax (rows
               indented by the formatter's unit; Junos/Ribbon/Nokia: `row {` .. `}`, `;` after a Junos leaf,
               annotations as `/* text */`), as tests/annet/test_formatter.py::test_jun_join / test_cisco_join
               expect of their fixtures. Not evaluated for RouterOS. (A join that drops a `;` or shifts deep
               levels by one unit still round-trips through annet's own tolerant split; this stage is what sees it.)
  2 fixed      with s = fmt.join(t):  fmt.join(parse_to_tree(s, fmt.split)) == s
  3 gen        stages 1 and 1b through annet.gen.format_config_blocks(t, hw, "  ") (what `annet gen` writes),
               parsed with the default formatter's split as annet.gen / annet.api / annet.diff do; for forests of <= 4
               nodes also with the indent units TAB, four blanks and one blank (tree equality only)
  4 device     the forest printed in the device's own style by an independent printer (mc/ref/vendortext.py:
               '#'/'!' separators, block terminators, old-IOS flat address-family, braces, SECRET-DATA comments,
               Nokia configure{} wrapper, RouterOS /path headers - each taken from the project's own fixtures)
               parses to t. With stages 1-2 this makes the parsed device config a fixed point of join/parse.
               Evaluated independently of stages 1-3, so the split side stays covered where join is broken.

Part H (history): the stages above are repeated for every ORDERED PAIR of vendors (v1, v2) in a process that has used
no formatter before (a fresh interpreter that imported annet, forked once per pair): v1's formatter parses and joins
all its forests <= 2 nodes, then v2 runs stages 1-4 on all its forests <= 3 nodes. Formatter classes share base classes
(Junos/Ribbon/Nokia, the block-exit family), so state kept on a class or module by the first vendor used in a process
would otherwise stay invisible: within one block of the main part only one vendor is ever used.

Per case at most two failures are reported: stage 4, and the first failing one of stages 1-3.

Well-formed domains. A forest is excluded only by one of these syntactic rules, fixed before anything was run
(the rules and the alphabets live in mc/ref/vendortext.py: DOMAIN_RULE / in_domain):

  all vendors  rows are non-empty, have no leading/trailing blank and do not begin with '!' or '#' (the comment
               leaders of parse_to_tree); vendors whose split collapses runs of blanks (everything except pc and
               optixtrans) get rows whose words are separated by single blanks.
  cisco        a row beginning with `address-family` has children and its last child is `exit-address-family`, as
               IOS prints the block; `exit-address-family` occurs nowhere else and has no children.
  huawei, h3c  no row begins with end-list / endif / end-filter (device block terminators, not rows).
  iosxr        no row ends with end-set / endif / end-policy (same reason).
  juniper, ribbon   rows contain none of `{ } ; #`; an annotation row `/* {"row":..,"comment":..} */` names its
               next sibling (quotes stripped from each word; the empty row when it is the last statement of its
               block), is not at top level and has no children.
  nokia        rows contain none of `{ } ; #`; `configure` is not a top-level row (there it is the wrapper that
               NokiaFormatter.split removes by design).
  routeros     a row has children iff it is a section word; every top-level row is a section; leaf rows are
               `add ...` / `set ...` commands. Sections may hold both rows and sub-sections (as `/user` and
               `/user group` in the fixture). The listing sections `file` and `user ssh-keys`, which split rewrites
               into commands by design, are not used.
  nexus, arista, aruba, b4com, pc, optixtrans   every forest over the alphabet.
"""
from __future__ import annotations

import os
import traceback

from mc import enum as menum
from mc import env
from mc.ref import vendortext as vt

PID = "C04"
ENGINE = "E1 bounded-exhaustive enumeration of config forests per vendor; oracle = structural identity after join/split/parse"
RULE = ("every ordered forest with pairwise distinct sibling rows, <= N nodes, depth <= 5, over a per-vendor alphabet "
        "of 5-6 rows that includes the words the vendor's formatter treats specially, restricted to the vendor's "
        "well-formed domain by a stated syntactic rule; one (vendor, forest) is one case, distinct by construction of "
        "the canonical enumerator (the enumerated total is checked against an independent counting recurrence, pruned "
        "enumerations against filtering the unpruned one); non-trivial = the forest has a block (depth >= 2), so "
        "indentation / braces / path logic is exercised")
ASSUMPTIONS = [
    "trees are compared as nested ordered lists of (row, children): same rows, same nesting, same order",
    "texts are parsed with registry[vendor].make_formatter().split and the default comment leaders ('!','#'), as "
    "annet.gen / annet.api / annet.diff do",
    "device-style texts come from an independent printer that uses only decorations shown in the project's own "
    "fixtures (tests/annet/test_formatter.py, tests/annet/test_patch/cisco_bgp_address_family.yaml)",
    "rows come from a fixed alphabet per vendor; rows outside it (other punctuation, unicode) are not covered",
    "part H: 'a process that has used no formatter' is a fresh interpreter that ran mc.env.setup() and imported annet.gen; "
    "histories are one vendor deep (ordered pairs)",
    "one formatter object per block is reused across cases (formatters keep no per-call state); replay builds fresh ones",
    "gen.format_config_blocks itself is called for forests of <= 4 nodes and must print the same text as "
    "registry.match(hw).make_formatter(indent='  ').join (its body); larger forests use that formatter directly, "
    "because the registry lookup by hardware costs more than the join",
    "Cisco: the node bound counts rows other than the closing exit-address-family that the domain rule adds",
]
BUDGET = {"quick": 150, "thorough": 900}

MAX_DEPTH = 5
GEN_INDENT = "  "
GEN_REAL_MAX = 4
GEN_OTHER_INDENTS = ["\t", "    ", " "]
TIER_N = {"quick": {"default": 5, "routeros": 7}, "thorough": {"default": 6, "routeros": 8}}
# thorough also runs exactly N_EXT nodes over reduced alphabets
REDUCED = {
    "common": ["a", "b 1", "c  d"],
    "huawei": ["interface X", "xpl route-filter F", "if a then"],
    "cisco": ["router bgp 1", "address-family ipv4", "neighbor x"],
    "blockexit": ["interface X", "no shutdown", "address-family ipv4"],
    "asr": ["router bgp 1", "route-policy P", "if d in X then"],
    "juniper": ["system", "inactive: protocols", "members [ a b ]", vt.JCOMMENT],
    "nokia": ["card 1", "configure", "members [ a b ]"],
    "routeros": ["ip", "address", vt.ROS_LEAVES[0]],
}
N_EXT = {"default": 7, "routeros": 9}
SAMPLE_VENDORS = ("huawei", "cisco", "iosxr", "juniper", "nokia", "routeros")


def tier_n(tier, vendor):
    fam = vt.FAMILY[vendor]
    return TIER_N[tier].get(fam, TIER_N[tier]["default"])


def n_ext(vendor):
    return N_EXT.get(vt.FAMILY[vendor], N_EXT["default"])


def bound_text(tier):
    t = TIER_N[tier]
    s = ("14 vendors x all in-domain forests with <= %d nodes (routeros: <= %d), depth <= %d, full alphabets "
         "(5-6 rows), complete" % (t["default"], t["routeros"], MAX_DEPTH))
    s += ("; H: all ordered pairs of vendors in a fresh process each (first: forests <= %d nodes, second: stages 1-4 on "
          "forests <= %d nodes)" % (H_FIRST_N, H_SECOND_N[tier]))
    if tier == "thorough":
        s += "; plus all in-domain forests with exactly %d nodes (routeros: %d) over reduced alphabets (3-4 rows)" % (
            N_EXT["default"], N_EXT["routeros"])
    return s


def setup():
    env.setup()
    import annet.gen  # noqa: F401


def rows_for(vendor, which):
    fam = vt.FAMILY[vendor]
    return list(vt.ALPHABET[fam] if which == "full" else REDUCED[fam])


H_FIRST_N = 2
H_SECOND_N = {"quick": 3, "thorough": 4}


def blocks(tier, seed):
    out = [{"part": "H", "first": v, "n2": H_SECOND_N[tier]} for v in vt.VENDORS]
    only = os.environ.get("VERIF_C04_VENDORS")          # debugging aid only; never set by bin/check or MANIFEST
    for v in vt.VENDORS:
        if only and v not in only.split(","):
            continue
        parts = [("full", list(range(0, tier_n(tier, v) + 1)))]
        if tier == "thorough":
            parts.append(("reduced", [n_ext(v)]))
        for which, ns in parts:
            rows = rows_for(v, which)
            for ri in range(len(rows)):
                for half in (0, 1):
                    out.append({"vendor": v, "alphabet": which, "root": ri, "half": half, "ns": ns})
    return out


def expected_enumerated(tier):
    """independent count of the forests that the blocks of the vendors enumerated without pruning must produce"""
    total = 0
    only = os.environ.get("VERIF_C04_VENDORS")
    for v in vt.VENDORS:
        if vt.FAMILY[v] in vt.NODE_OK or (only and v not in only.split(",")):
            continue
        r = len(rows_for(v, "full"))
        total += sum(menum.count_forests(r, n, MAX_DEPTH) for n in range(0, tier_n(tier, v) + 1))
        if tier == "thorough":
            total += menum.count_forests(len(rows_for(v, "reduced")), n_ext(v), MAX_DEPTH)
    return total


# ---------------------------------------------------------------------------------------------------
class Fixture:
    def __init__(self, vendor):
        from annet import gen
        from annet.annlib import tabparser
        from annet.vendors import registry_connector
        self.vendor = vendor
        self.family = vt.FAMILY[vendor]
        self.fmt = env.formatter(vendor)
        self.hw = env.hw(vendor)
        # the body of gen.format_config_blocks(config, hw, indent), minus the final .join(config)
        self.fmt_gen = registry_connector.get().match(self.hw).make_formatter(indent=GEN_INDENT)
        self.parse = tabparser.parse_to_tree
        self.fcb = gen.format_config_blocks
        self.dev = vt.DEVICE_PRINTER[vendor]
        self.dev_alt = vt.DEVICE_PRINTER_ALT.get(vendor, [])
        self.default_indent = "    " if self.family in ("juniper", "nokia") else "  "


def _first_diff(a, b, path=()):
    """human-readable first difference of two nested lists (a = expected, b = got)"""
    for i in range(max(len(a), len(b))):
        if i >= len(a):
            return "at %s: unexpected extra row %r" % ("/".join(path) or "<top>", b[i][0])
        if i >= len(b):
            return "at %s: row %r is missing" % ("/".join(path) or "<top>", a[i][0])
        if a[i][0] != b[i][0]:
            return "at %s: position %d has %r, expected %r" % ("/".join(path) or "<top>", i, b[i][0], a[i][0])
        d = _first_diff(a[i][1], b[i][1], path + (a[i][0],))
        if d:
            return d
    return ""


def check_case(fx, forest):
    """One (vendor, forest) case. Returns (n_evals, failures, n_text_lines), failures = [(kind, detail)]: at most
    one for the split side (device-style text) and one for the join side (the first failing stage; later stages
    mostly fail for the same reason)."""
    want = vt.materialise(fx.family, forest)
    e1, f1 = _device_side(fx, want)
    e2, f2, lines = _join_side(fx, forest, want)
    return e1 + e2, f1 + f2, lines


def _exc(stage, e):
    return ("exception", "%s raised %s: %s\n%s" % (stage, type(e).__name__, e, traceback.format_exc()[-1200:]))


def _device_side(fx, want):
    # 4: device-style text parses to the tree (independent of join)
    try:
        d = fx.dev(want)
        td = fx.parse(d, fx.fmt.split)
        got = env.tree_to_list(td)
        if got != want:
            return 1, [("device-text", "device-style text:\n%s\nparsed: %r\nexpected: %r\n%s"
                        % (d, got, want, _first_diff(want, got)))]
        # td == t, so join(td) is the text s of stage 1, whose parse and re-join are checked in stages 1-2: whenever
        # those hold, the parsed device config is a fixed point of join/parse.
        for alt in fx.dev_alt:
            d = alt(want)
            got = env.tree_to_list(fx.parse(d, fx.fmt.split))
            if got != want:
                return 2, [("device-text-alt", "device-style text (empty blocks on one line, remarks after braces):\n%s\nparsed: %r\n"
                            "expected: %r\n%s" % (d, got, want, _first_diff(want, got)))]
    except Exception as e:  # the property says these calls succeed on the domain
        return 1, [_exc("parse(device text)", e)]
    return 1 + len(fx.dev_alt), []


def _join_side(fx, forest, want):
    fmt, parse = fx.fmt, fx.parse
    evals = 0
    lines = -1
    stage = "join"
    try:
        # 1 + 1b + 2: join / parse / join
        t = env.to_odict(want)
        s = fmt.join(t)
        lines = s.count("\n") + 1 if s else 0
        stage = "parse(join)"
        t1 = parse(s, fmt.split)
        evals += 2
        got = env.tree_to_list(t1)
        if got != want:
            return evals, [("tree", "join text:\n%s\nparsed back: %r\nexpected:    %r\n%s"
                            % (s, got, want, _first_diff(want, got)))], lines
        canon = vt.canonical_text(fx.family, want, fx.default_indent)
        if canon is not None and s != canon:
            return evals, [("vendor-syntax", "join(t) = %r\nplain rendering in the vendor's syntax = %r" % (s, canon))], lines
        stage = "rejoin"
        s1 = fmt.join(t1)
        evals += 1
        if s1 != s:
            return evals, [("fixed-point", "join(t) = %r\njoin(parse(join(t))) = %r" % (s, s1))], lines
        # 3: what `annet gen` writes
        stage = "format_config_blocks"
        t = env.to_odict(want)
        g = fx.fmt_gen.join(t)
        evals += 1
        if menum.size(forest) <= GEN_REAL_MAX:
            g0 = fx.fcb(env.to_odict(want), fx.hw, GEN_INDENT)
            evals += 1
            if g0 != g:
                return evals, [("gen-blocks-text", "format_config_blocks = %r\nmatch(hw).make_formatter(indent).join = %r"
                                % (g0, g))], lines
        stage = "parse(format_config_blocks)"
        if g != s:          # otherwise this very text was parsed in stage 1 (formatters whose default unit is "  ")
            tg = parse(g, fmt.split)
            evals += 1
            got = env.tree_to_list(tg)
        if got != want:
            return evals, [("gen-blocks", "format_config_blocks text:\n%s\nparsed back: %r\nexpected:    %r\n%s"
                            % (g, got, want, _first_diff(want, got)))], lines
        canon = vt.canonical_text(fx.family, want, GEN_INDENT)
        if canon is not None and g != canon:
            return evals, [("gen-blocks-syntax", "format_config_blocks text = %r\nplain rendering = %r" % (g, canon))], lines
        # 3b: other indent units a user may pass to `annet gen --indent` (a TAB, four blanks, one blank); the text is read
        #     back with the vendor's default formatter, as annet does with saved configurations
        if menum.size(forest) <= GEN_REAL_MAX and vt.depth(forest) >= 2:
            for unit in GEN_OTHER_INDENTS:
                stage = "format_config_blocks(indent=%r)" % unit
                gu = fx.fcb(env.to_odict(want), fx.hw, unit)
                got = env.tree_to_list(parse(gu, fmt.split))
                evals += 2
                if got != want:
                    return evals, [("gen-blocks-indent", "indent=%r text:\n%s\nparsed back: %r\nexpected:    %r\n%s"
                                    % (unit, gu, got, want, _first_diff(want, got)))], lines
    except Exception as e:  # the property says these calls succeed on the domain
        return evals + 1, [_exc(stage, e)], lines
    return evals, [], lines


def signature(vendor, kind, forest):
    return {"kind": kind, "vendor": vendor, "shape": vt.shape(vt.FAMILY[vendor], forest)}


def _crosscheck_pruning(fam, rows, ctx):
    """pruned enumeration == unpruned enumeration filtered by the same domain rule, for every n <= 5"""
    node_ok = vt.NODE_OK[fam]
    for n in range(0, 6):
        a = [f for f in menum.forests_n(rows, n, MAX_DEPTH) if vt.in_domain(fam, f)]
        b = [f for f in menum.forests_n(rows, n, MAX_DEPTH, node_ok=node_ok) if vt.in_domain(fam, f)]
        ctx.extra["pruning_crosschecked_forests"] += len(a)
        if a != b:
            ctx.violation({"kind": "harness-error", "where": "pruned enumeration differs from filtered one"},
                          {"family": fam, "n": n}, "filtered=%d pruned=%d" % (len(a), len(b)))


def _forests_upto(vendor, n):
    fam = vt.FAMILY[vendor]
    rows = rows_for(vendor, "full")
    node_ok = vt.NODE_OK.get(fam)
    for k in range(0, n + 1):
        for f in ([[]] if k == 0 else menum.forests_n(rows, k, MAX_DEPTH, node_ok=node_ok)):
            if vt.in_domain(fam, f):
                yield f


def hist_pair(v1, v2, n2, only_forest=None):
    """runs in a process forked from a cold interpreter: v1 first, then v2 judged -> {"cases","nontrivial","evals","fails"}"""
    fx1 = Fixture(v1)
    for f in _forests_upto(v1, H_FIRST_N):
        try:
            check_case(fx1, f)
        except Exception:  # noqa  (v1 is only history here; its own failures are reported where v1 is second)
            pass
    fx2 = Fixture(v2)
    out = {"cases": 0, "nontrivial": 0, "evals": 0, "fails": []}
    for f in ([only_forest] if only_forest is not None else _forests_upto(v2, n2)):
        # the texts v2 is about to read have been looked at by v1's formatter first, as annet.api.guess_hw does with a
        # saved configuration (every vendor's formatter splits the same text until one fits); what v1 makes of them is
        # irrelevant here
        want = vt.materialise(fx2.family, f)
        for render in (lambda: fx2.fmt.join(env.to_odict(want)), lambda: fx2.dev(want), lambda: fx2.fmt_gen.join(env.to_odict(want))):
            try:
                fx1.parse(render(), fx1.fmt.split)
            except Exception:  # noqa
                pass
        evals, fails, _ = check_case(fx2, f)
        out["cases"] += 1
        out["evals"] += evals
        out["nontrivial"] += int(vt.depth(f) >= 2)
        for kind, detail in fails:
            if len(out["fails"]) < 40:
                out["fails"].append([kind, f, detail[:600]])
    return out


def hist_main(argv):
    """body of the cold interpreter: `python -m checks.c04_roundtrip --hist v1 n2 [v2 forest-json]`; forks once per v2"""
    import json
    import sys
    v1, n2 = argv[0], int(argv[1])
    setup()
    seconds = [argv[2]] if len(argv) > 2 else [v for v in vt.VENDORS if v != v1]
    only_forest = json.loads(argv[3]) if len(argv) > 3 else None
    res = {}
    for v2 in seconds:
        r, w = os.pipe()
        pid = os.fork()
        if pid == 0:
            os.close(r)
            try:
                data = hist_pair(v1, v2, n2, only_forest)
            except BaseException as e:  # noqa
                data = {"cases": 0, "nontrivial": 0, "evals": 0, "fails": [["harness-exception", [], repr(e) + traceback.format_exc()[-800:]]]}
            with os.fdopen(w, "w") as fh:
                fh.write(json.dumps(data))
            os._exit(0)
        os.close(w)
        with os.fdopen(r) as fh:
            txt = fh.read()
        os.waitpid(pid, 0)
        res[v2] = json.loads(txt) if txt else {"cases": 0, "nontrivial": 0, "evals": 0, "fails": [["harness-exception", [], "child died"]]}
    sys.stdout.write("C04HIST " + json.dumps(res) + "\n")


def _run_cold(args):
    import json
    import subprocess
    import sys
    r = subprocess.run([sys.executable, "-m", "checks.c04_roundtrip", "--hist"] + [str(a) for a in args],
                       capture_output=True, text=True, timeout=1200)
    for ln in r.stdout.splitlines():
        if ln.startswith("C04HIST "):
            return json.loads(ln[8:])
    raise RuntimeError("cold interpreter failed: rc=%s %s" % (r.returncode, (r.stderr or r.stdout)[-1500:]))


def run_hist(block, ctx):
    v1 = block["first"]
    res = _run_cold([v1, block["n2"]])
    for v2, d in res.items():
        ctx.states += d["cases"]
        ctx.evals += d["evals"]
        ctx.nontrivial += d["nontrivial"]
        ctx.extra["history_pairs"] += 1
        ctx.outcomes["H:%s-after-other/%s" % (vt.FAMILY[v2], "ok" if not d["fails"] else "fails")] += 1
        for kind, forest, detail in d["fails"]:
            sig = dict(signature(v2, kind, forest), after=vt.FAMILY[v1], part="H")
            ctx.violation(sig, {"part": "H", "first": v1, "vendor": v2, "forest": forest, "n2": block["n2"]}, detail)


def run_block(block, ctx):
    if block.get("part") == "H":
        return run_hist(block, ctx)
    vendor = block["vendor"]
    fx = Fixture(vendor)
    fam = fx.family
    rows = rows_for(vendor, block["alphabet"])
    root = rows[block["root"]]
    node_ok = vt.NODE_OK.get(fam)
    if node_ok is not None and block["root"] == 0 and block["half"] == 0:
        _crosscheck_pruning(fam, rows, ctx)
    pre = "%s%s" % (fam, "" if block["alphabet"] == "full" else "(reduced)")
    want_samples = vendor in SAMPLE_VENDORS and block["alphabet"] == "full" and block["half"] == 1 and block["root"] == 0
    for n in block["ns"]:
        if n == 0:
            its = [[[]]] if (block["root"] == 0 and block["half"] == 0) else []
        else:
            its = [menum.forests_n(rows, n, MAX_DEPTH, first_root=root, first_size=k, node_ok=node_ok)
                   for k in range(1, n + 1) if k % 2 == block["half"]]
        for it in its:
            for forest in it:
                if ctx.expired():
                    return
                ctx.extra["enumerated_pruned" if node_ok else "enumerated_unpruned"] += 1
                if not vt.in_domain(fam, forest):
                    ctx.extra["outside_domain"] += 1
                    continue
                ctx.states += 1
                d = vt.depth(forest)
                if d >= 2:
                    ctx.nontrivial += 1
                evals, fails, lines = check_case(fx, forest)
                ctx.evals += evals
                tg = vt.tags(fam, forest)
                nodes = menum.size(forest)
                ctx.outcomes["%s/depth%d/%s/%s/%s" % (
                    pre, d, "+".join(tg) or "plain",
                    "text lines %s nodes" % ("=" if lines == nodes else (">" if lines > nodes else "<")),
                    "ok" if not fails else "+".join(k for k, _ in fails))] += 1
                ctx.extra["cases:" + vendor] += 1
                for kind, detail in fails:
                    ctx.violation(signature(vendor, kind, forest), {"vendor": vendor, "forest": forest}, detail)
                if want_samples and d >= 3 and nodes >= 5 and (tg or fam == "routeros") and len(ctx.samples) < 1:
                    real = vt.materialise(fam, forest)
                    try:
                        ctx.sample({"vendor": vendor, "tree": real, "join": fx.fmt.join(env.to_odict(real)),
                                    "device_text": fx.dev(real)})
                    except Exception as e:  # noqa
                        ctx.sample({"vendor": vendor, "tree": real, "error": repr(e)})


def finish(merged, tier):
    if merged["capped"]:
        return
    exp = expected_enumerated(tier)
    got = merged["extra"].get("enumerated_unpruned", 0)
    if got != exp:
        k = "enumeration-incomplete"
        merged["viol"][k] = {"sig": {"kind": "harness-error", "where": k}, "count": 1,
                             "cases": [{"case": {"expected": exp, "enumerated": got},
                                        "detail": "blocks enumerated %d forests, the counting recurrence says %d" % (got, exp)}]}


def replay(case):
    if case.get("part") == "H":
        res = _run_cold([case["first"], case["n2"], case["vendor"], __import__("json").dumps(case["forest"])])
        d = res[case["vendor"]]
        return [(dict(signature(case["vendor"], kind, forest), after=vt.FAMILY[case["first"]], part="H"), detail)
                for kind, forest, detail in d["fails"]]
    fx = Fixture(case["vendor"])
    forest = case["forest"]
    if not vt.in_domain(fx.family, forest):
        return [({"kind": "replay-case-outside-domain", "vendor": case["vendor"]}, "forest is not in the vendor's domain")]
    _, fails, _ = check_case(fx, forest)
    return [(signature(case["vendor"], kind, forest), detail) for kind, detail in fails]


if __name__ == "__main__":
    import sys as _sys
    if len(_sys.argv) > 2 and _sys.argv[1] == "--hist":
        hist_main(_sys.argv[2:])
