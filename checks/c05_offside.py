"""C05 - indented text is parsed by the offside rule and bad indentation is refused.

Part 1 (E2, explicit-state search): the real generator chain env.call_private(tabparser, "_stacked", _stripped_indents(_parsed_indents(
        _filtered_lines(source)))) is fed lazily from a harness-controlled line source. A state is what the real
        generator frames hold (indents, curr_level, g_level of _stripped_indents; stack of _stacked), read from
        gi_frame.f_locals. Every state is rebuilt by replaying its shortest event history on a fresh chain, every
        event of the alphabet is applied to it, and the yielded path / ParserError / end is compared with the
        reference offside machine (mc/ref/offside.py) run in lock-step. The search runs to closure.
Part 2 (E1, bounded-exhaustive): every text of <= L lines over a line alphabet through parse_to_tree with the
        CommonFormatter and the HuaweiFormatter splitters (plus offset / tab / inner-blank / comments=("!",)
        variants) against the reference tree and the reference's refusal position.
"""
from __future__ import annotations

import collections
import itertools
import re

from mc import env
from mc.ref import offside

PID = "C05"
ENGINE = ("E2 explicit-state BFS by re-execution over the real generator chain (state = generator frame locals) "
          "+ E1 bounded-exhaustive texts through parse_to_tree; oracle = lock-step reference offside machine")
RULE = ("Part 1: a state is the tuple (indents, curr_level, g_level, stack) read from the frames of the real "
        "_stripped_indents/_stacked generators (plus INIT, ERROR, END); distinct by that tuple; an event is <=2 "
        "non-content lines (empty, blanks only, '!c', indented '#c', column-0 '#') followed by one content line "
        "(indent 0..6, word a|b), or end of input; every event is applied to every reachable state; a state is "
        "non-trivial if it has a nested open block (stack depth >= 2); transitions on which the reference opens or "
        "closes a block, resets the section or refuses are counted separately (bfs_nontrivial_transitions). "
        "Part 2: a case is (text, variant); texts are all sequences of 1..L alphabet lines joined by newline "
        "(distinct by construction); non-trivial = the reference refuses the text or its tree is nested (depth>=2).")
ASSUMPTIONS = [
    "a tab counts as one column (in annet and in the reference)",
    "the locals 'number', 'level', 'line' of the generator frames are not part of the state: 'level'/'line' are "
    "overwritten before being read on the next iteration, 'number' only appears in the error message (it is "
    "compared with the reference's line count on every refusing transition)",
    "the generators _parsed_indents/_filtered_lines hold no state between lines (no locals besides the current line)",
    "line numbers in ParserError count the lines the splitter hands over: CommonFormatter.split drops empty lines "
    "(not whitespace-only ones), so the reference numbers non-empty lines",
    "only the CommonFormatter and HuaweiFormatter splitters; the alphabet has no 'end-list'/'endif'/'end-filter' rows",
    "default comment markers ('!', '#'); one variant with ('!',) where '#' lines are content",
]
BUDGET = {"quick": 120, "thorough": 900}

# ---- part 1 alphabet ---------------------------------------------------------------------------------
WORDS = ("a", "b")
MAX_INDENT = 6
NONCONTENT = ("", "   ", "!c", "  #c", "#", "#c")      # empty, blanks only, comment, indented # comment, section break (bare / with a remark)
PRES = [()] + [(x,) for x in NONCONTENT] + [(x, y) for x in NONCONTENT for y in NONCONTENT]
CONTENT = [" " * i + w for i in range(MAX_INDENT + 1) for w in WORDS]
EVENTS = [list(p) + [c] for p in PRES for c in CONTENT] + [[]]     # [] = end of input
CORE_EVENTS = [[c] for c in CONTENT] + [["#", c] for c in CONTENT]
NBFS = 16
STATE_CAP = 60000
COMMENTS = ("!", "#")

INIT, ERROR, END = ("INIT",), ("ERROR",), ("END",)

# ---- part 2 alphabets --------------------------------------------------------------------------------
# symbol = ("c", indent, word) | ("n", raw)
MAIN_SYMS = [("c", i, w) for i in range(5) for w in WORDS] + [("n", x) for x in NONCONTENT]
SMALL_SYMS = [("c", 0, "a"), ("c", 1, "a"), ("c", 2, "a"), ("c", 3, "a"), ("c", 1, "b"), ("n", "#"), ("n", "!c")]
VARIANTS = ["common", "huawei", "offset", "tabs", "inner-blanks", "bang-only"]
# variant -> (splitter, comments)
VARIANT_RUN = {
    "common": ("common", ("!", "#")),
    "huawei": ("huawei", ("!", "#")),
    "offset": ("common", ("!", "#")),
    "tabs": ("common", ("!", "#")),
    "inner-blanks": ("huawei", ("!", "#")),
    "bang-only": ("common", ("!",)),
}


DEEP_VARIANTS = ["common", "huawei", "bang-only"]     # the variants that change structure, run at the largest length


def tier_bounds(tier):
    """L_all: every variant up to this length; L: DEEP_VARIANTS up to this length; L_small: exactly this length over
    SMALL_SYMS, every variant"""
    if tier == "quick":
        return {"L": 5, "L_all": 4, "L_small": 0}
    return {"L": 6, "L_all": 5, "L_small": 7}


def bound_text(tier):
    b = tier_bounds(tier)
    s = ("part 1: closure of the reachable state set of the generator chain under %d events (indent 0..%d x %d words, "
         "<=2 of %d non-content lines before each content line, end of input): texts of any length over that "
         "alphabet; part 2: all texts of 1..%d lines over %d line symbols (indent 0..4 x {a,b}, empty, blanks only, "
         "'!c', '  #c', '#', '#c') x %d variants (%s)" % (len(EVENTS), MAX_INDENT, len(WORDS), len(NONCONTENT), b["L_all"],
                                                    len(MAIN_SYMS), len(VARIANTS), ", ".join(VARIANTS)))
    if b["L"] > b["L_all"]:
        s += "; all texts of %d lines over the same symbols x variants %s" % (b["L"], ", ".join(DEEP_VARIANTS))
    if b["L_small"]:
        s += "; plus all texts of exactly %d lines over %d symbols x %d variants" % (b["L_small"], len(SMALL_SYMS),
                                                                                    len(VARIANTS))
    return s


# =====================================================================================================
# Part 1: the real chain under a controlled line source
class Source:
    """Line source the harness refills between pulls; exhausted when the buffer is empty."""

    def __init__(self):
        self.buf = collections.deque()
        self.fed = 0

    def __iter__(self):
        return self

    def __next__(self):
        if not self.buf:
            raise StopIteration
        self.fed += 1
        return self.buf.popleft()


class LayoutChanged(Exception):
    """the generators of annet.annlib.tabparser no longer keep their state in the locals the BFS reads (a refactoring):
    the explicit-state part cannot run; the exhaustive-text part does not depend on it"""


class Chain:
    def __init__(self, comments=COMMENTS):
        from annet.annlib import tabparser
        self.tp = tabparser
        self.src = Source()
        self.outer = env.call_private(tabparser, "_stacked", self.src, tuple(comments))
        self.inner = None

    def _next(self):
        try:
            return ("yield", next(self.outer))
        except StopIteration:
            return ("end", None)
        except self.tp.ParserError as e:
            return ("error", str(e))
        except Exception as e:  # noqa
            return ("crash", repr(e))

    def step(self, lines):
        """hand the lines over and pull once"""
        self.src.buf.extend(lines)
        if self.inner is not None:
            return self._next()
        # first pull: _stacked's body looks up the module attribute _stripped_indents now; record what it returns
        tp = self.tp
        real = tp._stripped_indents
        captured = []

        def recording(lines, comments):
            g = real(lines, comments)
            captured.append(g)
            return g
        tp._stripped_indents = recording
        try:
            r = self._next()
        finally:
            tp._stripped_indents = real
        if len(captured) != 1:
            # this tree's _stacked does not obtain its line source through the module attribute _stripped_indents: the inner
            # generator cannot be observed (state() then refuses and the search falls back to reference-machine states)
            self.inner = False
            return r
        self.inner = captured[0]
        return r

    def state(self, last):
        if last is None:
            return INIT
        if last[0] in ("error", "crash"):
            return ERROR
        if last[0] == "end":
            return END
        if self.inner is False:
            raise LayoutChanged("_stacked does not call the module's _stripped_indents")
        fo, fi = self.outer.gi_frame, self.inner.gi_frame
        lo, li = fo.f_locals, fi.f_locals
        try:
            return (tuple(li["indents"]), li["curr_level"], li["g_level"], tuple(lo["stack"]))
        except KeyError as e:
            raise LayoutChanged("local %s of the indent-stack generators is gone" % e)


_ERR_RE = re.compile(r"line (\d+): (.*)$", re.S)


def ref_step(machine, lines):
    """feed one event to the reference; -> ("yield", path) | ("error", RefError) | ("end", None)"""
    if not lines:
        return ("end", None)
    out = None
    try:
        for ln in lines:
            out = machine.feed(ln)
    except offside.RefError as e:
        return ("error", e)
    return ("yield", out)


def compare_step(got, exp, where):
    """-> (kind, detail) of a disagreement or None"""
    if got[0] == "crash":
        return ("crash", "real code raised %s; reference: %s" % (got[1], describe(exp)))
    if exp[0] == "error":
        if got[0] != "error":
            return ("missing-error", "reference refuses (%s) but the real parser gave %s" % (exp[1], describe(got)))
        m = _ERR_RE.search(got[1])
        if not m or int(m.group(1)) != exp[1].number or m.group(2) != exp[1].text:
            return ("error-position", "real message %r, reference: line %d: %s" % (got[1], exp[1].number, exp[1].text))
        return None
    if got[0] == "error":
        return ("spurious-error", "real parser refused (%s) where the reference gives %s" % (got[1], describe(exp)))
    if got[0] != exp[0]:
        return ("end-mismatch", "real %s, reference %s" % (describe(got), describe(exp)))
    if got[0] == "yield" and tuple(got[1]) != tuple(exp[1]):
        return ("wrong-parent", "real path %r, reference path %r" % (got[1], exp[1]))
    return None


def signature(part, kind, exp, machine):
    """failing input class: which comparison failed, what the reference says about the input, and - where the
    reference refuses - whether a '#' section break precedes the refused line (the variant stays in the case)"""
    sig = {"part": part, "kind": kind, "ref": exp[1].reason if exp[0] == "error" else "accepts"}
    if exp[0] == "error":
        sig["after_reset"] = bool(machine.resets)
    return sig


def describe(r):
    if r[0] == "yield":
        return "%r" % (r[1],)
    if r[0] == "error":
        return "error %s" % (r[1],)
    return r[0]


def refinement_holds(state, machine):
    """real state == image of the reference state: columns of the open blocks are g_level + partial sums of indents"""
    if len(state) != 4:
        return True
    indents, curr, g, stack = state
    cols = [g]
    for d in indents:
        cols.append(cols[-1] + d)
    return cols == machine.columns() and tuple(stack) == machine.path() and curr == cols[-1] - g and g == machine.base


_REF_STATES = [None]      # set to the reason once the generator frames could not be read in this tree


def state_of(chain, ref, last):
    """the state the search de-duplicates on: the implementation's own (the generator frames' locals).  When this tree keeps
    that state somewhere the harness cannot read by name (a refactoring may move it into an object), the image of the
    REFERENCE machine's state under the refinement map is used instead: the search is then closed with respect to the
    reference's states - still every (state, event) pair is run on the real chain and compared - and is reported as
    not exhaustive, because implementation states the reference does not distinguish would be merged."""
    if _REF_STATES[0] is None:
        try:
            return chain.state(last)
        except (LayoutChanged, AttributeError, TypeError) as e:
            _REF_STATES[0] = "%s: %s" % (type(e).__name__, e)
    if last is None:
        return INIT
    if last[0] in ("error", "crash"):
        return ERROR
    if last[0] == "end":
        return END
    cols, g = ref.columns(), ref.base
    if g is None:
        return ((), 0, None, tuple(ref.path()))
    return (tuple(b - a for a, b in zip(cols, cols[1:])), cols[-1] - g, g, tuple(ref.path()))


def run_history(history, event, report, ctx=None, expect_state=None):
    """Rebuild the state reached by `history` on a fresh chain (+ fresh reference), apply `event`, compare.
    -> (new_state, label, nontrivial)"""
    chain = Chain()
    ref = offside.Machine(COMMENTS)
    last = None
    for ev in history:
        last = chain.step(ev)
        ref_step(ref, ev)
    before = state_of(chain, ref, last)
    if expect_state is not None and before != expect_state:
        report({"part": "bfs", "kind": "replay-nondeterministic"}, {"part": "bfs", "history": history, "event": event},
               "replaying the history gave %r, recorded %r" % (before, expect_state))
    depth0 = len(ref.open)
    resets0 = ref.resets
    fed0 = chain.src.fed
    got = chain.step(event)
    exp = ref_step(ref, event)
    if ctx is not None:
        ctx.evals += 1
        ctx.transitions += 1
        ctx.extra["replay_steps"] += len(history)
    after = state_of(chain, ref, got)
    bad = compare_step(got, exp, "bfs")
    if bad is None and (chain.src.buf or chain.src.fed - fed0 != len(event)):
        bad = ("laziness", "chain consumed %d of %d lines of the event" % (chain.src.fed - fed0, len(event)))
    if bad:
        report(signature("bfs", bad[0], exp, ref),
               {"part": "bfs", "history": history, "event": event}, bad[1] + "; state before=%r after=%r" % (before, after))
    # classification by the reference
    if exp[0] == "end":
        label, nontrivial = "end", False
    elif exp[0] == "error":
        label, nontrivial = "refuse/" + exp[1].reason, True
    else:
        d = len(ref.open) - depth0
        if ref.resets != resets0:
            label = "reset"
        elif d > 0:
            label = "open"
        elif d == 0:
            label = "sibling"
        else:
            label = "close%d" % min(-d, 3)
        nontrivial = label != "sibling"
        if ctx is not None and exp[0] == got[0]:
            ctx.extra["refinement_map_checked"] += 1
            if not refinement_holds(after, ref):
                ctx.extra["refinement_map_broken"] += 1
                if len(ctx.notes) < 3:
                    ctx.notes.append("refinement map broken after %r + %r: real %r ref cols %r" %
                                     (history, event, after, ref.columns()))
    return after, label, nontrivial


_CORE = None


def core_states():
    """BFS over CORE_EVENTS only (content line, '#'+content line): state -> shortest history, in BFS order.
    The sharded search then applies ALL events to these states and to anything new it finds, so closure does not
    rest on this pre-pass being complete."""
    global _CORE
    if _CORE is not None:
        return _CORE
    try:
        return _core_states()
    except (LayoutChanged, RuntimeError, AttributeError) as e:
        _CORE = {"hist": collections.OrderedDict(), "order": [], "transitions": 0, "closed": False,
                 "layout_changed": "%s: %s" % (type(e).__name__, e)}
        return _CORE


def _core_states():
    global _CORE
    hist = collections.OrderedDict()
    hist[INIT] = []
    queue = collections.deque([INIT])
    n = 0
    sink = []

    def report(sig, case, detail=""):
        sink.append(sig)
    while queue and len(hist) < STATE_CAP:
        s = queue.popleft()
        if s in (ERROR, END):
            continue
        for ev in CORE_EVENTS:
            t, _, _ = run_history(hist[s], ev, report)
            n += 1
            if t not in hist:
                hist[t] = hist[s] + [ev]
                queue.append(t)
    if END not in hist:
        hist[END] = [[]]
    _CORE = {"hist": hist, "order": list(hist), "transitions": n, "closed": not queue}
    return _CORE


def run_bfs(block, ctx):
    try:
        _run_bfs(block, ctx)
    finally:
        if _REF_STATES[0] is not None:
            ctx.capped = True      # closure is relative to the reference's states only: not called exhaustive


def _run_bfs(block, ctx):
    core = core_states()
    if core.get("layout_changed"):
        # not a verdict about the property: the state abstraction does not fit this tree; reported as not exhaustive
        ctx.capped = True
        if block["i"] == 0:
            ctx.notes.append("BFS part skipped (%s); the exhaustive-text part ran" % core["layout_changed"])
            ctx.outcomes["bfs-skipped:generator-frame-layout-changed"] += 1
        return
    hist = dict(core["hist"])
    if _REF_STATES[0] is not None:
        if block["i"] == 0:
            ctx.notes.append("BFS part: the generator frames could not be read in this tree (%s); states are those of the "
                             "reference machine, every (state, event) pair still runs on the real chain" % _REF_STATES[0])
            ctx.outcomes["bfs:states-of-the-reference-machine"] += 1
    if block["i"] == 0:
        ctx.extra["core_prepass_states"] += len(core["order"])
        ctx.extra["core_prepass_transitions"] += core["transitions"]
        if not core["closed"]:
            ctx.capped = True
            ctx.notes.append("pre-pass hit the state cap %d" % STATE_CAP)
    work = collections.deque(core["order"][block["i"]::NBFS])
    sampled = 0
    while work:
        s = work.popleft()
        ctx.states += 1
        ctx.extra["bfs_states"] += 1
        if len(s) == 4 and len(s[3]) >= 2:
            ctx.nontrivial += 1
        ctx.outcomes["state:" + (s[0] if len(s) == 1 else "depth%d" % len(s[3]))] += 1
        if s in (ERROR, END):
            continue          # terminal: the generator is finished (checked: a further pull ends, see below)
        for ev in EVENTS:
            if ctx.expired():
                ctx.notes.append("bfs block %d stopped by budget" % block["i"])
                return
            t, label, nontrivial = run_history(hist[s], ev, ctx.violation, ctx, expect_state=s)
            ctx.outcomes["bfs:" + label] += 1
            if nontrivial:
                ctx.extra["bfs_nontrivial_transitions"] += 1
            ctx.extra["bfs_transitions"] += 1
            if t not in hist:
                # not found by the pre-pass: explore it here as well
                if len(hist) >= STATE_CAP:
                    ctx.capped = True
                    ctx.notes.append("state cap %d reached; search not closed" % STATE_CAP)
                    return
                hist[t] = hist[s] + [ev]
                work.append(t)
                ctx.extra["states_outside_prepass"] += 1
            if sampled < 1 and block["i"] < 2 and label.startswith("refuse") and len(hist[s]) >= 3:
                sampled += 1
                ctx.sample({"part": "bfs", "state": repr(s), "history": hist[s], "event": ev, "result": label})
    if block["i"] == 0:
        # terminal states really are terminal: pulling again after ERROR / END ends
        for h in ([[" a"], ["a"]], [[]]):
            chain = Chain()
            last = None
            for ev in h:
                last = chain.step(ev)
            if last is None or last[0] not in ("error", "crash", "end"):
                continue
            again = chain.step(["a"])
            ctx.evals += 1
            if again[0] != "end":
                ctx.violation({"part": "bfs", "kind": "terminal-state-not-terminal"},
                              {"part": "bfs", "history": h, "event": ["a"]}, "pull after termination gave %r" % (again,))


# =====================================================================================================
# Part 2: whole texts through parse_to_tree
def render(sym, variant):
    if sym[0] == "n":
        raw = sym[1]
        if variant == "offset" and raw == "!c":
            return "   !c"
        return raw
    _, indent, word = sym
    if variant == "offset":
        return " " * (indent + 3) + word + " "
    if variant == "tabs":
        return "".join("\t" if j % 2 == 0 else " " for j in range(indent)) + word
    if variant == "inner-blanks":
        return " " * indent + (word if word == "a" else "b   c")
    return " " * indent + word


_SPLIT = {}


def splitter(name):
    if not _SPLIT:
        from annet.annlib import tabparser
        _SPLIT["common"] = tabparser.CommonFormatter().split
        _SPLIT["huawei"] = tabparser.HuaweiFormatter().split
    return _SPLIT[name]


def real_parse(text, split_name, comments):
    from annet.annlib import tabparser
    try:
        t = tabparser.parse_to_tree(text, splitter(split_name), comments)
    except tabparser.ParserError as e:
        return ("error", str(e))
    except Exception as e:  # noqa
        return ("crash", repr(e))
    return ("yield", env.tree_to_list(t))


def check_text(text, variant, split_name, comments, report, ctx=None):
    """one case; -> (label, nontrivial)"""
    got = real_parse(text, split_name, comments)
    res = offside.parse_text(text, comments, split_name)
    m = res[2]
    if res[0] == "error":
        exp = ("error", res[1])
    else:
        exp = ("yield", res[1])
    bad = None
    if got[0] == "crash":
        bad = ("crash", "real code raised %s" % got[1])
    elif exp[0] == "error":
        bad = compare_step(got, exp, "text")
    elif got[0] == "error":
        bad = ("spurious-error", "real parser refused (%s); reference tree %r" % (got[1], exp[1]))
    elif got[1] != exp[1]:
        bad = ("wrong-tree", "real tree %r, reference tree %r" % (got[1], exp[1]))
    if bad:
        report(signature("text", bad[0], exp, m),
               {"part": "text", "text": text, "variant": variant, "splitter": split_name, "comments": list(comments)},
               bad[1])
    if exp[0] == "error":
        return "refuse/" + exp[1].reason + ("/after-reset" if m.resets else ""), True
    label = "ok/depth%d" % m.maxdepth
    if m.merged:
        label += "/merged"
    if m.resets:
        label += "/reset"
    return label, m.maxdepth >= 2


def run_texts(syms, prefix, lengths, ctx, deep_from=None):
    """all texts that start with `prefix` (tuple of symbol indexes) and have a length in `lengths`"""
    for n in lengths:
        if n < len(prefix):
            continue
        for rest in itertools.product(range(len(syms)), repeat=n - len(prefix)):
            if ctx.expired():
                ctx.notes.append("text block %r stopped by budget at length %d" % (prefix, n))
                return
            seq = [syms[i] for i in prefix + rest]
            for variant in (VARIANTS if deep_from is None or n < deep_from else DEEP_VARIANTS):
                text = "\n".join(render(s, variant) for s in seq)
                split_name, comments = VARIANT_RUN[variant]
                label, nontrivial = check_text(text, variant, split_name, comments, ctx.violation, ctx)
                ctx.evals += 1
                ctx.states += 1
                ctx.outcomes["text:" + label] += 1
                if nontrivial:
                    ctx.nontrivial += 1
                    if len(ctx.samples) < 1 and n >= 4 and variant == "common" and label.startswith("refuse"):
                        ctx.sample({"part": "text", "text": text, "variant": variant, "reference": label})
            ctx.extra["texts"] += 1


# =====================================================================================================
def setup():
    env.setup()
    core_states()


def blocks(tier, seed):
    b = tier_bounds(tier)
    out = [{"part": "bfs", "i": i} for i in range(NBFS)]
    out.append({"part": "text", "alpha": "main", "prefix": [], "lengths": [1]})
    k = len(MAIN_SYMS)
    for i in range(k):
        for j in range(k):
            out.append({"part": "text", "alpha": "main", "prefix": [i, j], "lengths": list(range(2, b["L"] + 1))})
    if b["L_small"]:
        for i in range(len(SMALL_SYMS)):
            out.append({"part": "text", "alpha": "small", "prefix": [i], "lengths": [b["L_small"]]})
    return out


def run_block(block, ctx):
    if block["part"] == "bfs":
        run_bfs(block, ctx)
    else:
        syms = MAIN_SYMS if block["alpha"] == "main" else SMALL_SYMS
        b = tier_bounds(ctx.tier)
        run_texts(syms, tuple(block["prefix"]), block["lengths"], ctx,
                  deep_from=b["L_all"] + 1 if block["alpha"] == "main" else None)


def replay(case):
    out = []

    def report(sig, c, detail=""):
        out.append((sig, detail))
    if case.get("part") == "bfs":
        run_history([list(e) for e in case["history"]], list(case["event"]), report)
    else:
        check_text(case["text"], case.get("variant", "common"), case.get("splitter", "common"),
                   tuple(case.get("comments", COMMENTS)), report)
    return out
