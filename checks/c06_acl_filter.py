"""C06 - ACL filtering selects exactly the covered lines and nothing else.

For every ACL text of the grammar (mc/aclgen.py, inside the unambiguous domain of mc/ref/acl.py) and every forest
<= N nodes over the ACL's row alphabet (rule instances at any level, foreign rows; a dedicated sub-family adds
negated rows):  apply_acl(t,A) == ref_filter(t,A), order-preserving subtree, idempotent, fatal mode raises AclError
naming the first uncovered row iff the reference finds one, filter_config agrees; and for pairs (A,B):
apply_acl(t,A) U apply_acl(t,B) is a subtree of apply_acl(t, A+B) with A+B compiled from the name-tagged concatenation.
Diff texts (kind "fdiff"): the library entry point annet.annlib.filter_acl.filter_diff on signed diff texts ('+', '-', ' '
rows, as formatter.diff prints them) of <= 3 rows: the lines kept are those of the rows the reference filter keeps, each
with its sign - a removed row governed only by cant_delete rules comes back unsigned (it will not be removed).
Two-step histories (kind "seq"): for the ACLs in which several rules match one row, every ordered pair of forests
(f1 <= 2 nodes [thorough: 3], f2 <= 3 nodes) is filtered with ONE freshly compiled ACL object, f1 first; the result for
f2 must still be the reference's (filtering must not write into the compiled rules).
"""
from __future__ import annotations

from mc import env, aclgen, enum as mcenum
from mc.ref import acl as refacl

PID = "C06"
ENGINE = "E1 bounded-exhaustive enumeration of (ACL text, forest) and (ACL pair, forest) against a reference cover relation"
RULE = ("a case is (ACL of the grammar | ordered pair of ACLs, vendor prefix, forest <= N nodes over the ACL's row "
        "alphabet); distinct by construction; non-trivial = the filter drops at least one row and keeps at least one")
ASSUMPTIONS = [
    "the reference cover relation of mc/ref/acl.py and its domain (literal-headed sibling rules with different first "
    "words unless identical rows; only catch-all '~' may overlap; at most one catch-all in force on a path)",
    "rows beginning with the negation word are negated forms for an ACL; they occur only in the dedicated sub-family",
    "compiled ACL objects are obtained per ACL text through the lru_cached compile_acl_text (object reuse is C20's topic)",
]
BUDGET = {"quick": 150, "thorough": 900}
VENDOR = "huawei"
PREFIX = "undo"


def bound_text(tier):
    n = 4 if tier == "quick" else 5
    return "%d ACL texts; forests <= %d nodes, depth <= 3 over <=5 rows (+ negated sub-family); all ordered ACL pairs of the core list with forests <= %d nodes; seq: for the %d overlap ACLs all ordered pairs of forests (<= %d, <= 3 nodes) on one freshly compiled ACL" % (
        len(aclgen.acls(tier)), n, n - 1, len([1 for nm, _ in aclgen.acls(tier) if nm.startswith("overlap")]), 2 if tier == "quick" else 3)


def setup():
    env.setup()


def blocks(tier, seed):
    A = aclgen.acls(tier)
    out = [{"kind": "single", "i": i, "neg": neg} for i in range(len(A)) for neg in (False, True)]
    core = [i for i, (name, _) in enumerate(A) if not name.startswith(("L2", "B2"))]
    if tier == "quick":
        core = core[::2]
    for i in core:
        out.append({"kind": "pairs", "i": i, "with": core})
    for i in range(len(aclgen.merge_pairs())):
        out.append({"kind": "mpair", "i": i})
    # the filter_diff entry point on signed diff texts
    for i, (name, _) in enumerate(A):
        if not name.startswith(("L2", "B2")) and (tier == "thorough" or i % 2 == 0 or name.startswith("mixed-cd")):
            out.append({"kind": "fdiff", "i": i})
    # two-step histories on one compiled ACL object, for the ACLs in which several rules match one row (their children
    # are merged per match: the merge must not leak into the compiled rules)
    for i, (name, _) in enumerate(A):
        if name.startswith("overlap"):
            for sl in range(4):
                out.append({"kind": "seq", "i": i, "slice": sl, "of": 4})
    # overlap families against every single-rule %global ACL (a specific global rule may out-rank a local catch-all)
    ov = [i for i, (name, _) in enumerate(A) if name.startswith("overlap")]
    gl = [i for i, (name, fac) in enumerate(A) if name.startswith("L1-") and len(fac()) == 1 and fac()[0].glob]
    for i in ov:
        out.append({"kind": "pairs", "i": i, "with": gl})
    return out


def compile_text(text):
    from annet.annlib.rbparser.acl import compile_acl_text
    return compile_acl_text(text, VENDOR)


def to_list(t):
    return [[k, to_list(v)] for k, v in t.items()]


def judge_single(rules, text, compiled, level, forest, report):
    from annet.annlib import patching
    from annet.annlib import filter_acl
    case = {"kind": "single", "acl": [r.to_json() for r in rules], "forest": forest}
    cfg = env.to_odict(forest)
    exp = refacl.ref_filter(level, forest, PREFIX)
    try:
        got = to_list(patching.apply_acl(cfg, compiled))
    except Exception as e:  # noqa
        report({"kind": "exception", "exc": type(e).__name__, "acl": text}, case, repr(e)[:300])
        return None
    if got != exp:
        report({"kind": "filter-differs", "acl": text}, case, "apply_acl=%r reference=%r" % (got, exp))
        return got
    if not refacl.is_subtree(got, forest):
        report({"kind": "not-a-subtree", "acl": text}, case, "result=%r input=%r" % (got, forest))
    again = to_list(patching.apply_acl(env.to_odict(got), compiled))
    if again != got:
        report({"kind": "not-idempotent", "acl": text}, case, "once=%r twice=%r" % (got, again))
    # strict mode
    unc = refacl.first_uncovered(level, forest, PREFIX)
    try:
        patching.apply_acl(env.to_odict(forest), compiled, fatal_acl=True)
        raised = None
    except patching.AclError as e:
        raised = str(e)
    if (unc is None) != (raised is None):
        report({"kind": "fatal-mode", "acl": text, "ref_uncovered": unc is not None, "raised": raised is not None}, case,
               "reference first uncovered=%r raised=%r" % (unc, raised))
    elif unc is not None and unc[-1] not in raised:
        report({"kind": "fatal-mode-names-wrong-row", "acl": text}, case, "uncovered=%r message=%r" % (unc, raised))
    return got


def run_single(block, ctx):
    name, fac = aclgen.acls(ctx.tier)[block["i"]]
    rules = fac()
    text = refacl.text(rules)
    compiled = compile_text(text)
    level = refacl.top(refacl.merge([("g", rules)]))
    rows = aclgen.row_alphabet(rules, negated=block["neg"], prefix=PREFIX)
    n = 4 if ctx.tier == "quick" else 5
    for forest in mcenum.forests(rows, n, 3):
        if not forest:
            continue
        if ctx.expired():
            return
        got = judge_single(rules, text, compiled, level, forest, ctx.violation)
        ctx.evals += 1
        ctx.states += 1
        if got is None:
            ctx.outcomes["error"] += 1
            continue
        kept, total = mcenum.size(got), mcenum.size(forest)
        if 0 < kept < total:
            ctx.nontrivial += 1
        ctx.outcomes["kept-none" if kept == 0 else ("kept-all" if kept == total else "kept-some")] += 1
    # filter_config entry point on a few texts
    try:
        from annet.annlib.filter_acl import filter_config
        fmt = env.formatter(VENDOR)
        for forest in list(mcenum.forests(rows, 3, 3))[1::7]:
            cfg_text = fmt.join(env.to_odict(forest))
            out_text = filter_config(compiled, fmt, cfg_text)
            from annet.annlib.tabparser import parse_to_tree
            got = to_list(parse_to_tree(out_text, fmt.split))
            exp = refacl.ref_filter(level, forest, PREFIX)
            ctx.evals += 1
            ctx.extra["filter_config_cases"] += 1
            if got != exp:
                ctx.violation({"kind": "filter_config-differs", "acl": text},
                              {"kind": "single", "acl": [r.to_json() for r in rules], "forest": forest},
                              "filter_config=%r reference=%r" % (got, exp))
    except ImportError:
        ctx.notes.append("filter_config not importable")
    if len(ctx.samples) < 1:
        ctx.sample({"acl": text, "rows": rows, "negated_family": block["neg"]})


def signed_forests(rows, n):
    """forests <= n nodes (depth <= 2) whose nodes carry a sign: children of an added (removed) row are added (removed)"""
    import itertools as it
    for forest in mcenum.forests(rows, n, 2):
        if not forest:
            continue
        slots = []
        for row, ch in forest:
            slots.append(1 + len(ch))
        tops = list(it.product("+- ", repeat=len(forest)))
        for signs in tops:
            kid_opts = [list(it.product("+- ", repeat=len(ch))) if sg == " " else [tuple(sg for _ in ch)] for (row, ch), sg in zip(forest, signs)]
            for kids in it.product(*kid_opts):
                yield [(sg, row, [(ks, cr) for ks, (cr, _) in zip(k, ch)]) for sg, (row, ch), k in zip(signs, forest, kids)]


def judge_fdiff(rules, text, compiled, level, sforest, report):
    from annet.annlib import filter_acl
    fmt = env.formatter(VENDOR)
    lines = []
    for sg, row, kids in sforest:
        lines.append("%s %s" % (sg, row))
        for ks, cr in kids:
            lines.append("%s   %s" % (ks, cr))
    src = "\n".join(lines) + "\n"
    case = {"kind": "fdiff", "acl": [r.to_json() for r in rules], "diff_text": src}
    try:
        out = filter_acl.filter_diff(compiled, fmt, src)
    except Exception as e:  # noqa
        report({"kind": "filter_diff-exception", "exc": type(e).__name__, "acl": text}, case, repr(e)[:300])
        return None
    got = []
    for ln in out.split("\n"):
        if not ln.strip():
            continue
        rest = ln[1:]
        got.append((ln[0], (len(rest) - len(rest.lstrip())) // 2, rest.strip()))
    exp = []
    for sg, row, kids in sforest:
        g = refacl.govern(level, row, PREFIX)
        if g is None:
            continue
        rule, is_rev, sub = g
        exp.append((" " if (sg == "-" and not is_rev and all(rule.cds)) else sg, 0, row))
        for ks, cr in kids:
            gk = refacl.govern(sub, cr, PREFIX)
            if gk is None:
                continue
            exp.append((" " if (ks == "-" and not gk[1] and all(gk[0].cds)) else ks, 1, cr))
    if got != exp:
        report({"kind": "filter_diff-differs", "acl": text}, case, "filter_diff gives %r, reference %r (text %r -> %r)" % (got, exp, src, out))
    return got


def run_fdiff(block, ctx):
    name, fac = aclgen.acls(ctx.tier)[block["i"]]
    rules = fac()
    text = refacl.text(rules)
    compiled = compile_text(text)
    level = refacl.top(refacl.merge([("g", rules)]))
    rows = [r for r in aclgen.row_alphabet(rules) if not r.startswith(PREFIX + " ")][:4]
    for sf in signed_forests(rows, 3):
        if ctx.expired():
            return
        got = judge_fdiff(rules, text, compiled, level, sf, ctx.violation)
        ctx.evals += 1
        ctx.states += 1
        ctx.nontrivial += int(bool(got) and len(got) < sum(1 + len(k) for _, _, k in sf))
        ctx.outcomes["fdiff"] += 1


def judge_seq(rules, text, level, history, forest, report):
    """a fresh compiled ACL (cache cleared), the forests of `history` filtered first, then `forest` judged"""
    from annet.annlib import patching
    from annet.annlib.rbparser.acl import compile_acl_text
    compile_acl_text.cache_clear()
    compiled = compile_acl_text(text, VENDOR)
    for h in history:
        try:
            patching.apply_acl(env.to_odict(h), compiled)
        except Exception:  # noqa  (judged where h is the forest)
            pass
    exp = refacl.ref_filter(level, forest, PREFIX)
    case = {"kind": "seq", "acl": [r.to_json() for r in rules], "history": history, "forest": forest}
    try:
        got = to_list(patching.apply_acl(env.to_odict(forest), compiled))
    except Exception as e:  # noqa
        report({"kind": "exception-after-history", "exc": type(e).__name__, "acl": text}, case, repr(e)[:300])
        return None
    if got != exp:
        report({"kind": "filter-differs-after-history", "acl": text}, case,
               "after filtering %r with the same compiled ACL: apply_acl=%r reference=%r" % (history, got, exp))
    return got


def run_seq(block, ctx):
    name, fac = aclgen.acls(ctx.tier)[block["i"]]
    rules = fac()
    text = refacl.text(rules)
    level = refacl.top(refacl.merge([("g", rules)]))
    rows = aclgen.row_alphabet(rules)
    n1 = 2 if ctx.tier == "quick" else 3
    firsts = [f for f in mcenum.forests(rows, n1, 3) if f]
    seconds = [f for f in mcenum.forests(rows, 3, 3) if f]
    for f1 in firsts[block["slice"]::block["of"]]:
        for f2 in seconds:
            if ctx.expired():
                return
            got = judge_seq(rules, text, level, [f1], f2, ctx.violation)
            ctx.evals += 1
            ctx.states += 1
            if got is not None and 0 < mcenum.size(got) < mcenum.size(f2):
                ctx.nontrivial += 1
            ctx.outcomes["seq"] += 1
            ctx.extra["two_step_histories"] += 1


def run_pairs(block, ctx):
    from annet.annlib import patching
    A = aclgen.acls(ctx.tier)
    na, fa = A[block["i"]]
    n = 3 if ctx.tier == "quick" else 4
    for j in block["with"]:
        nb, fb = A[j]
        ra, rb_ = fa(), fb()
        ta, tb = refacl.text(ra), refacl.text(rb_)
        combined = aclgen.combined_text([("ga", ta), ("gb", tb)])
        try:
            ca, cb, cab = compile_text(ta), compile_text(tb), compile_text(combined)
        except Exception as e:  # noqa
            ctx.violation({"kind": "compile-exception", "exc": type(e).__name__}, {"kind": "pair", "a": ta, "b": tb}, repr(e)[:300])
            continue
        rows = []
        for r in aclgen.row_alphabet(ra) + aclgen.row_alphabet(rb_):
            if r not in rows:
                rows.append(r)
        rows = rows[:5]
        lvl = refacl.top(refacl.merge([("ga", ra), ("gb", rb_)]))
        for forest in mcenum.forests(rows, n, 3):
            if not forest:
                continue
            if ctx.expired():
                return
            cfg = env.to_odict(forest)
            ga = to_list(patching.apply_acl(cfg, ca))
            gb = to_list(patching.apply_acl(cfg, cb))
            gab = to_list(patching.apply_acl(cfg, cab))
            ctx.evals += 3
            ctx.states += 1
            u = refacl.union(ga, gb)
            case = {"kind": "pair", "a": [r.to_json() for r in ra], "b": [r.to_json() for r in rb_], "forest": forest}
            # (%prio is the language's explicit override: a rule lifted above another generator's rules is meant to win,
            #  so the monotone-merge law is claimed for ACLs that do not use it; merges with %prio are judged against the
            #  reference filter in part mpair)
            if not subtree_unordered(u, gab) and not (uses_prio(ra) or uses_prio(rb_)):
                ctx.violation({"kind": "merge-not-monotone", "shape": merge_shape(ra, rb_)}, case,
                              "A:%r B:%r A+B:%r" % (ga, gb, gab))
            exp = refacl.ref_filter(lvl, forest, PREFIX)
            if gab != exp:
                ctx.extra["merged_differs_from_reference(outside single-ACL domain possible)"] += 1
            if mcenum.size(gab) > max(mcenum.size(ga), mcenum.size(gb)):
                ctx.nontrivial += 1
            ctx.outcomes["pair:%s" % ("equal" if mcenum.size(gab) == mcenum.size(u) else "merged-passes-more")] += 1


def uses_prio(rules):
    return any(r.prio is not None or uses_prio(r.children) for r in rules)


def merge_shape(ra, rb_):
    """syntactic classification of an ACL pair (signature material)"""
    def clash(x, y):
        for r in x:
            for q in y:
                if r.pattern == q.pattern:
                    if (r.glob and not q.glob and q.children) or (q.glob and not r.glob and r.children):
                        return True
                    if not r.glob and not q.glob and clash(r.children, q.children):
                        return True
        return False
    if clash(ra, rb_):
        return "same row is %global in one ACL and a block with children in the other"

    def walk(rs):
        for r in rs:
            yield r
            yield from walk(r.children)

    def outranks(x, y):
        return (any(r.glob and r.pattern != "~" for r in walk(x))
                and any((not r.glob) and r.pattern == "~" and r.children for r in walk(y)))
    if outranks(ra, rb_) or outranks(rb_, ra):
        return "a specific %global rule of one ACL out-ranks a local catch-all with children of the other"
    return "other"


def run_mpair(block, ctx):
    """two generators' ACLs merged as production does; inside the unambiguous domain: result == reference filter"""
    from annet.annlib import patching
    name, fa, fb, negated = aclgen.merge_pairs()[block["i"]]
    ra, rb_ = fa(), fb()
    ta, tb = refacl.text(ra), refacl.text(rb_)
    combined = aclgen.combined_text([("ga", ta), ("gb", tb)])
    cab = compile_text(combined)
    lvl = refacl.top(refacl.merge([("ga", ra), ("gb", rb_)]))
    rows = []
    for r in aclgen.row_alphabet(ra, negated, PREFIX) + aclgen.row_alphabet(rb_, negated, PREFIX):
        if r not in rows and r != "x y":
            rows.append(r)
    rows = rows[:6]
    n = 4 if ctx.tier == "quick" else 5
    for forest in mcenum.forests(rows, n, 3):
        if not forest:
            continue
        if ctx.expired():
            return
        got = to_list(patching.apply_acl(env.to_odict(forest), cab))
        exp = refacl.ref_filter(lvl, forest, PREFIX)
        ctx.evals += 1
        ctx.states += 1
        if got != exp:
            ctx.violation({"kind": "merged-filter-differs", "pair": name},
                          {"kind": "mpair", "i": block["i"], "forest": forest}, "merged ACL %r: apply_acl=%r reference=%r" % (combined, got, exp))
        kept, total = mcenum.size(got), mcenum.size(forest)
        if 0 < kept < total:
            ctx.nontrivial += 1
        ctx.outcomes["mpair:%s" % ("kept-none" if kept == 0 else ("kept-all" if kept == total else "kept-some"))] += 1
    ctx.sample({"merged_acl": combined, "rows": rows})


def subtree_unordered(small, big):
    bigd = {r: ch for r, ch in big}
    for r, ch in small:
        if r not in bigd or not subtree_unordered(ch, bigd[r]):
            return False
    return True


def run_block(block, ctx):
    if block["kind"] == "single":
        run_single(block, ctx)
    elif block["kind"] == "mpair":
        run_mpair(block, ctx)
    elif block["kind"] == "seq":
        run_seq(block, ctx)
    elif block["kind"] == "fdiff":
        run_fdiff(block, ctx)
    else:
        run_pairs(block, ctx)


def replay(case):
    out = []

    def rep(sig, c, d=""):
        out.append((sig, d))
    if case["kind"] == "mpair":
        from annet.annlib import patching
        name, fa, fb, _neg = aclgen.merge_pairs()[case["i"]]
        ra, rb_ = fa(), fb()
        combined = aclgen.combined_text([("ga", refacl.text(ra)), ("gb", refacl.text(rb_))])
        got = to_list(patching.apply_acl(env.to_odict(case["forest"]), compile_text(combined)))
        exp = refacl.ref_filter(refacl.top(refacl.merge([("ga", ra), ("gb", rb_)])), case["forest"], PREFIX)
        if got != exp:
            rep({"kind": "merged-filter-differs", "pair": name}, case, "apply_acl=%r reference=%r" % (got, exp))
        return out
    if case["kind"] == "fdiff":
        rules = [refacl.ARule.from_json(d) for d in case["acl"]]
        text = refacl.text(rules)
        sf = []
        for ln in case["diff_text"].split("\n"):
            if not ln.strip():
                continue
            if ln[1:].startswith("   "):
                sf[-1][2].append((ln[0], ln[1:].strip()))
            else:
                sf.append((ln[0], ln[1:].strip(), []))
        judge_fdiff(rules, text, compile_text(text), refacl.top(refacl.merge([("g", rules)])), sf, rep)
        return out
    if case["kind"] == "seq":
        rules = [refacl.ARule.from_json(d) for d in case["acl"]]
        judge_seq(rules, refacl.text(rules), refacl.top(refacl.merge([("g", rules)])), case["history"], case["forest"], rep)
        return out
    if case["kind"] == "single":
        rules = [refacl.ARule.from_json(d) for d in case["acl"]]
        text = refacl.text(rules)
        judge_single(rules, text, compile_text(text), refacl.top(refacl.merge([("g", rules)])), case["forest"], rep)
    else:
        from annet.annlib import patching
        ra = [refacl.ARule.from_json(d) for d in case["a"]]
        rb_ = [refacl.ARule.from_json(d) for d in case["b"]]
        ta, tb = refacl.text(ra), refacl.text(rb_)
        combined = aclgen.combined_text([("ga", ta), ("gb", tb)])
        cfg = env.to_odict(case["forest"])
        ga = to_list(patching.apply_acl(cfg, compile_text(ta)))
        gb = to_list(patching.apply_acl(cfg, compile_text(tb)))
        gab = to_list(patching.apply_acl(cfg, compile_text(combined)))
        if not subtree_unordered(refacl.union(ga, gb), gab) and not (uses_prio(ra) or uses_prio(rb_)):
            rep({"kind": "merge-not-monotone", "shape": merge_shape(ra, rb_)}, case, "A:%r B:%r A+B:%r" % (ga, gb, gab))
    return out
