"""C07 - rule patterns mean what the rule language says (finite, complete under the bound).

Part A: all patterns up to K body tokens (+ optional tail ~ / ..., optional (?i)) x all rows up to W words:
        compile_row_regexp(p).match(r) / groups  ==  ref_match(p, r);
        patching._make_reverse(p, prefix).format(*key) == ref_reverse(p, prefix, key) for 5 prefixes,
        reverse of the negated rule gives back the plain rule, ACL _make_reverse is an involution,
        ordering reverse_regexp recognises exactly the negated rows.
Part R: patterns whose first word is, begins with or contains a vendor's negation word (no / notify / no-a / NO / xno ...)
        for all five negation words: reverse template and reverse of the negated rule against the reference; and the
        reverse form the real compile_ordering_text gives such a rule (leading negation word taken off once).
Part S: rule lines as written in files - pattern, spaces and/or tabs, %params - through _parse_raw_rule and the three
        text compilers: the row is the pattern and the params take effect; every raw shipped line likewise.
Part L: what is written on one rule line stays on that line: for each of the four text compilers, every %param of its
        scheme (with a value that differs from the default) put on the first of two (three) sibling rules, at top
        level and inside a block - the compiled form of the OTHER rules (pattern, regex flags, every attribute) must
        be what it is without the param.
Part B: every rule line of every shipped .rul/.order/.deploy (rendered for a set of hardware views):
        a row synthesised from the line matches with the expected key; near-miss mutations do not.
"""
from __future__ import annotations

import itertools
import re

from mc import env
from mc.ref import rulelang

PID = "C07"
ENGINE = "E1 bounded-exhaustive enumeration (patterns x rows) against a reference token matcher"
RULE = ("Part A: every pattern of <=K body tokens over {a,b,ab,*,*/[ab]+/,*/[0-9]+/} with tail in {none,~,...} and "
        "optional (?i), plus every pattern of <=3 tokens with one literal alternative ((a|b), (?:a|ab)) next to a '*' placeholder, crossed with every row of <=W words over {a,b,ab,A,1,a1} (plus double-blank variants); a "
        "(pattern,row) pair is one case, distinct by construction; non-trivial = the reference says the row matches. "
        "Part B: every distinct rule line of the shipped rulebook texts with a synthesised matching row and its "
        "near-miss mutations; non-trivial = a row could be synthesised.")
ASSUMPTIONS = [
    "inner /re/ fragments of */re/ tokens are evaluated with Python's re in the reference too (re is trusted)",
    "the alphabet's regex fragments cannot match whitespace, so 'exactly one word' is well defined",
    "reverse templates are compared for patterns without (?i) and '...' (documented for matching only)",
]
BUDGET = {"quick": 150, "thorough": 900}

BODY = ["a", "b", "ab", "*", "*/[ab]+/", "*/[0-9]+/"]
TAILS = ["", "~", "..."]
WORDS = ["a", "b", "ab", "A", "1", "a1"]
PREFIXES = ["undo", "no", "delete", "remove", "-"]
NB = 64


def bound_text(tier):
    k, w = (3, 4) if tier == "quick" else (4, 5)
    return "part A: body tokens <= %d, row words <= %d, complete; part B: all shipped rule lines" % (k, w)


def setup():
    env.setup()


def patterns(k):
    out = []
    for n in range(0, k + 1):
        for body in itertools.product(BODY, repeat=n):
            for tail in TAILS:
                toks = list(body) + ([tail] if tail else [])
                if not toks:
                    continue
                p = " ".join(toks)
                out.append(p)
                out.append("(?i)" + p)
    return out


def group_patterns(k=3):
    """patterns with one parenthesised alternative of literals, (a|b) or (?:a|b), next to at least one placeholder:
    the alternative takes one word and is not part of the key"""
    out = []
    for g in ("(a|b)", "(?:a|ab)"):
        for n in range(1, k):
            for body in itertools.product(BODY, repeat=n):
                for pos in range(n + 1):
                    for tail in TAILS:
                        toks = list(body[:pos]) + [g] + list(body[pos:]) + ([tail] if tail else [])
                        if not any(t.startswith("*") for t in toks) and tail != "~":
                            continue
                        if "*" not in " ".join(toks):
                            continue   # '(a|b) ~' has no '*': groups stay as written - outside the claim
                        out.append(" ".join(toks))
    return out


def rows(w):
    out = []
    for n in range(1, w + 1):
        for ws in itertools.product(WORDS, repeat=n):
            out.append(" ".join(ws))
    # spacing variants: several blanks between the first two words, tab
    extra = []
    for n in range(2, min(w, 3) + 1):
        for ws in itertools.product(WORDS, repeat=n):
            extra.append(ws[0] + "  " + " ".join(ws[1:]))
            extra.append(ws[0] + "\t" + " ".join(ws[1:]))
    return out + extra


def negation_edge_patterns():
    """patterns whose first word is, begins with, or is glued to a vendor's negation word"""
    out = []
    for prefix in PREFIXES:
        for first in (prefix, prefix + "x", prefix + "-a", prefix.upper(), "x" + prefix):
            out.append(first)
            # (bodies whose first word begins with a LETTER of a negation word - dhcp/ntp/on for undo and no, elt for
            #  delete, vrm for remove - are there for code that strips characters where it should strip a word)
            for body in (["a"], ["*"], ["a", "*"], ["*", "~"], ["a", "~"], [prefix], [prefix, "a"], ["x" + prefix, "a"],
                         ["a", prefix, "*"], ["dhcp"], ["ntp", "*"], ["on", "a"], ["elt", "*"], ["vrm"]):
                out.append(" ".join([first] + body))
    return sorted(set(out))


def run_r(block, ctx):
    from annet.annlib.rbparser import syntax
    from mc.ref import regexgen
    pats = negation_edge_patterns()[block["i"]::4]
    for p in pats:
        s = regexgen.synth_row(p)
        ctx.evals += 1
        ctx.states += 1
        if s is None:
            ctx.outcomes["R:not-synthesisable"] += 1
            continue
        text, key = s
        rx = syntax.compile_row_regexp(p)
        check_pair(p, text, rx, ctx.violation)
        check_ordering_compiled(p, text, ctx)
        check_acl_compiled(p, text, ctx)
        if key is None:
            continue
        ctx.nontrivial += 1
        check_reverse(p, key, ctx.violation)
        ctx.evals += 2 * len(PREFIXES)
        ctx.extra["reverse_templates_checked"] += 2 * len(PREFIXES)
        ctx.outcomes["R:reverse-checked"] += 1
    ctx.sample({"part": "R", "patterns": pats[:6]})


ORDER_VENDOR_PREFIX = {"huawei": "undo", "cisco": "no", "juniper": "delete"}


def check_ordering_compiled(p, text, ctx):
    """the reverse form an ordering rule recognises, as the real compile_ordering_text builds it: for a plain rule the
    negated rows of what it matches, for a rule written negated ('undo X') the rows of X - the leading negation word
    is taken off once, nothing else is touched"""
    from annet.annlib.rbparser import syntax
    from annet.annlib.rbparser.ordering import compile_ordering_text
    if "(?i)" in p:
        return
    for vendor, prefix in ORDER_VENDOR_PREFIX.items():
        try:
            o = compile_ordering_text(p + "\n", vendor)
        except Exception as e:  # noqa
            ctx.violation({"kind": "ordering-compile-raises", "exc": type(e).__name__}, {"part": "R", "pattern": p, "vendor": vendor}, repr(e)[:200])
            continue
        if len(o) != 1:
            continue
        attrs = next(iter(o.values()))["attrs"]
        toks = p.split()
        if len(toks) > 1 and toks[0] == prefix:
            plain = " ".join(toks[1:])
            want_rows = [(text[len(prefix):].lstrip(), True), (text, False)] if text.startswith(prefix + " ") else []
        else:
            plain = prefix + " " + p
            want_rows = [(prefix + " " + text, True), (text, False)]
        try:
            want_rx = syntax.compile_row_regexp(plain)
        except Exception:  # noqa
            continue
        ctx.evals += 1
        ctx.extra["ordering_reverse_compiled"] += 1
        if attrs["reverse_regexp"].pattern != want_rx.pattern:
            # same language on the probe rows?
            for r, _ in want_rows + [(text, None), (prefix + " " + text, None), (prefix + " " + prefix + " " + text, None)]:
                if bool(attrs["reverse_regexp"].match(r)) != bool(want_rx.match(r)):
                    ctx.violation({"kind": "ordering-reverse-form", "shape": rulelang.shape(p), "vendor": vendor},
                                  {"part": "R", "pattern": p, "vendor": vendor, "row": r},
                                  "rule %r: reverse_regexp %r, expected the pattern of %r (%r); row %r"
                                  % (p, attrs["reverse_regexp"].pattern, plain, want_rx.pattern, r))
                    break


def check_acl_compiled(p, text, ctx):
    """the two forms a compiled ACL rule recognises, as the real compile_acl_text builds them: the rows of the rule as
    written, and its negation - for a rule written negated ('undo X') the rows of X: the leading negation word and its
    blank are taken off once, nothing else is touched"""
    from annet.annlib.rbparser import syntax
    from annet.annlib.rbparser.acl import compile_acl_text
    if "(?i)" in p:
        return
    for vendor, prefix in ORDER_VENDOR_PREFIX.items():
        try:
            a = compile_acl_text(p + "\n", vendor)
        except Exception as e:  # noqa
            ctx.violation({"kind": "acl-compile-raises", "exc": type(e).__name__}, {"part": "R", "pattern": p, "vendor": vendor}, repr(e)[:200])
            continue
        rules = list(a["local"].values()) + list(a["global"].values())
        if len(rules) != 1:
            continue
        attrs = rules[0]["attrs"]
        toks = p.split()
        plain = " ".join(toks[1:]) if (len(toks) > 1 and toks[0] == prefix) else prefix + " " + p
        try:
            want_dir, want_rev = syntax.compile_row_regexp(p), syntax.compile_row_regexp(plain)
        except Exception:  # noqa
            continue
        ctx.evals += 1
        ctx.extra["acl_forms_compiled"] += 1
        stripped = text[len(prefix):].lstrip() if text.startswith(prefix + " ") else None
        probes = [text, prefix + " " + text, prefix + " " + prefix + " " + text] + ([stripped, stripped[1:]] if stripped else [])
        for what, got, want in (("direct", attrs["direct_regexp"], want_dir), ("reverse", attrs["reverse_regexp"], want_rev)):
            if got.pattern == want.pattern:
                continue
            for r in probes:
                if bool(got.match(r)) != bool(want.match(r)):
                    ctx.violation({"kind": "acl-%s-form" % what, "shape": rulelang.shape(p), "vendor": vendor},
                                  {"part": "R", "pattern": p, "vendor": vendor, "row": r},
                                  "ACL rule %r: %s_regexp %r, expected the pattern of %r (%r); row %r"
                                  % (p, what, got.pattern, p if what == "direct" else plain, want.pattern, r))
                    break


SEPARATORS = [" ", "  ", "\t", " \t", "\t\t", "\t "]


def run_s(block, ctx):
    """rule lines as written in rulebook files: pattern, blanks (spaces and/or tabs), %params.  The row the real
    parsers extract must be the pattern, and the params must take effect - through _parse_raw_rule and through the
    three text compilers; plus every raw line of the shipped texts against an independent split."""
    from annet.annlib.rbparser import syntax
    from annet.annlib.rbparser.ordering import compile_ordering_text
    from annet.annlib.rbparser.acl import compile_acl_text
    from annet.rulebook.patching import compile_patching_text
    pats = [p for p in patterns(2) if "(?i)" not in p][block["i"]::4]
    for p in pats:
        want = syntax.compile_row_regexp(p).pattern
        for sep in SEPARATORS:
            ctx.evals += 4
            ctx.states += 1
            case = {"part": "S", "pattern": p, "sep": sep}
            row, _ = env.call_private(syntax, "_parse_raw_rule", p + sep + "%global", {})
            if row != p:
                ctx.violation({"kind": "params-not-split", "via": "_parse_raw_rule", "sep": repr(sep)}, case, "row=%r" % row)
            o = compile_ordering_text(p + sep + "%order_reverse\n", "huawei")
            ok = len(o) == 1 and all(r["attrs"]["order_reverse"] and r["attrs"]["direct_regexp"].pattern == want for r in o.values())
            if not ok:
                ctx.violation({"kind": "params-not-split", "via": "compile_ordering_text", "sep": repr(sep)}, case,
                              repr([(k, r["attrs"]["order_reverse"], r["attrs"]["direct_regexp"].pattern) for k, r in o.items()]))
            a = compile_acl_text(p + sep + "%cant_delete=1\n", "huawei")
            rules = list(a["local"].values()) + list(a["global"].values())
            if not (len(rules) == 1 and rules[0]["attrs"]["cant_delete"] == [True] and rules[0]["attrs"]["direct_regexp"].pattern == want):
                ctx.violation({"kind": "params-not-split", "via": "compile_acl_text", "sep": repr(sep)}, case,
                              repr([(r["attrs"]["cant_delete"], r["attrs"]["direct_regexp"].pattern) for r in rules]))
            if not p.endswith("..."):
                pt = compile_patching_text(p + sep + "%logic=common.undo_redo\n", "huawei")
                rules = list(pt["local"].values()) + list(pt["global"].values())
                if not (len(rules) == 1 and rules[0]["attrs"]["logic"].__name__ == "undo_redo" and rules[0]["attrs"]["regexp"].pattern == want):
                    ctx.violation({"kind": "params-not-split", "via": "compile_patching_text", "sep": repr(sep)}, case,
                                  repr([(r["attrs"]["logic"].__name__, r["attrs"]["regexp"].pattern) for r in rules]))
            ctx.outcomes["S:split-ok"] += 1
        ctx.nontrivial += 1
    # raw shipped lines (original blanks kept)
    import os
    from mc import shipped as _sh
    d = _sh.texts_dir()
    for fname in sorted(os.listdir(d))[block["i"]::4]:
        if not fname.endswith((".rul", ".order", ".deploy")):
            continue
        for raw in open(os.path.join(d, fname), encoding="utf-8").read().split("\n"):
            st = raw.strip()
            if not st or st.startswith(("#", "%")) or "%" not in st:
                continue
            m = re.search(r"\s%[a-zA-Z_]", st)
            if not m:
                continue
            exp = re.sub(r"\s+", " ", st[:m.start()].strip())
            ctx.evals += 1
            ctx.states += 1
            row, _ = env.call_private(syntax, "_parse_raw_rule", st, {})
            if row != exp:
                ctx.violation({"kind": "params-not-split", "via": "_parse_raw_rule", "file": fname,
                               "sep": repr(st[m.start():m.start() + 1])},
                              {"part": "S", "file": fname, "line": st}, "row=%r expected=%r" % (row, exp))
            ctx.outcomes["S:shipped-line-split-ok"] += 1
    ctx.sample({"part": "S", "patterns": pats[:4], "separators": [repr(x) for x in SEPARATORS]})


def blocks(tier, seed):
    bl = [{"part": "A", "i": i} for i in range(NB)]
    bl += [{"part": "S", "i": i} for i in range(4)]
    bl += [{"part": "R", "i": i} for i in range(4)]
    bl += [{"part": "B", "i": i} for i in range(16)]
    bl += [{"part": "L", "kind": k} for k in LEAK_PARAMS]
    return bl


# ---------------------------------------------------------------------------------------------------
def check_pair(p, r, rx, ctx_violation):
    """one (pattern,row) case; returns ref key or None"""
    m = rx.match(r)
    got = m.groups() if m else None
    exp = rulelang.ref_match(p, r)
    if got != exp:
        ctx_violation({"kind": "match", "shape": rulelang.shape(p), "impl_matches": got is not None,
                       "ref_matches": exp is not None},
                      {"part": "A", "pattern": p, "row": r}, "impl=%r ref=%r regexp=%r" % (got, exp, rx.pattern))
    return exp


def check_reverse(p, key, ctx_violation):
    from annet.rulebook import patching as rpatching
    for prefix in PREFIXES:
        tmpl = env.call_private(rpatching, "_make_reverse", p, prefix)
        try:
            got = tmpl.format(*key)
        except Exception as e:  # noqa
            got = "format-error:%r" % (e,)
        exp = rulelang.ref_reverse(p, prefix, key)
        if got != exp:
            ctx_violation({"kind": "reverse", "shape": rulelang.shape(p), "prefix": prefix},
                          {"part": "A", "pattern": p, "key": list(key), "prefix": prefix},
                          "impl=%r ref=%r template=%r" % (got, exp, tmpl))
        # negating the negated rule gives back the plain rule
        neg = rulelang.negate_pattern(p, prefix)
        back = env.call_private(rpatching, "_make_reverse", neg, prefix)
        try:
            got2 = back.format(*key)
        except Exception as e:  # noqa
            got2 = "format-error:%r" % (e,)
        exp2 = rulelang.ref_reverse(neg, prefix, key)
        if got2 != exp2:
            ctx_violation({"kind": "reverse-of-negated", "shape": rulelang.shape(p), "prefix": prefix},
                          {"part": "A", "pattern": neg, "key": list(key), "prefix": prefix},
                          "impl=%r ref=%r" % (got2, exp2))


def check_acl_ordering_reverse(p, rws, ctx):
    """ACL _make_reverse is an involution on patterns; ordering's reverse_regexp accepts exactly the negated rows."""
    from annet.annlib.rbparser import acl as racl
    from annet.annlib.rbparser import syntax
    for prefix in ("undo", "no"):
        rp = env.call_private(racl, "_make_reverse", p, prefix)
        if env.call_private(racl, "_make_reverse", rp, prefix) != p and not p.startswith(prefix + " "):
            ctx.violation({"kind": "acl-reverse-involution", "shape": rulelang.shape(p)},
                          {"part": "A", "pattern": p, "prefix": prefix}, "reverse=%r" % rp)
        direct = syntax.compile_row_regexp(p)
        # what ordering compiles for a rule row p (not itself negated)
        rev = syntax.compile_row_regexp(prefix + " " + p)
        for r in rws:
            ctx.evals += 1
            a = rev.match(prefix + " " + r) is not None
            b = direct.match(r) is not None
            if "(?i)" in p:
                continue  # (?i) glued to the first token moves behind the prefix; not claimed
            if a != b:
                ctx.violation({"kind": "ordering-reverse-recognition", "shape": rulelang.shape(p)},
                              {"part": "A", "pattern": p, "row": r, "prefix": prefix},
                              "reverse matches=%r direct matches=%r" % (a, b))


LEAK_PARAMS = {
    "patching": ["%global", "%logic=common.undo_redo", "%diff_logic=common.ordered_diff", "%comment=!!x!!", "%multiline", "%ordered",
                 "%rewrite", "%parent", "%force_commit", "%ignore_case"],
    "ordering": ["%order_reverse", "%global", "%scope=patch"],
    "acl": ["%global", "%cant_delete=1", "%prio=5", "%generator_names=g1"],
    "deploying": ["%timeout=77", "%send_nl=0", "%apply_logic=aruba.ap_env.apply", "%ifcontext=block:x", "%ignore_case"],
}
LEAK_SHAPES = [
    ("first-of-two", ["{A} {P}", "{B}"], [1]),
    ("first-of-three", ["{A} {P}", "{B}", "{C}"], [1, 2]),
    ("middle-of-three", ["{B}", "{A} {P}", "{C}"], [0, 2]),
    ("first-child", ["blk *", "    {A} {P}", "    {B}"], [2]),
    ("block-then-sibling", ["{A} {P}", "    {C}", "{B}"], [2]),
]


def _freeze(v):
    """compiled rule structures with regexps made comparable (pattern + flags)"""
    import re as _re
    if isinstance(v, _re.Pattern):
        return ("re", v.pattern, v.flags)
    if isinstance(v, dict):
        return {k: _freeze(x) for k, x in v.items() if k != "match"}
    if isinstance(v, (list, tuple)):
        return [_freeze(x) for x in v]
    if callable(v):
        return getattr(v, "__qualname__", repr(v))
    return v


def _compiled_rows(kind, text):
    """-> {row text: frozen compiled entry (without children)} for every rule of the text, any depth"""
    from annet.annlib.rbparser.ordering import compile_ordering_text
    from annet.annlib.rbparser.acl import compile_acl_text
    from annet.rulebook.patching import compile_patching_text
    from annet.rulebook.deploying import compile_deploying_text
    out = {}

    def key(raw):
        return raw.split(" %")[0].strip()

    def walk_scoped(rb):        # {"local": {raw: rule}, "global": {raw: rule}}, rule = {..., "children": same or None}
        for scope in ("local", "global"):
            for raw, rule in (rb.get(scope) or {}).items():
                out[key(raw)] = _freeze({k: v for k, v in rule.items() if k != "children"})
                walk_scoped(rule.get("children") or {})

    def walk_flat(rb):          # {raw: {"attrs": ..., "children": same}}
        for raw, rule in (rb or {}).items():
            out[key(raw)] = _freeze(rule["attrs"])
            walk_flat(rule.get("children"))
    if kind == "patching":
        walk_scoped(compile_patching_text(text, "huawei"))
    elif kind == "acl":
        walk_scoped(compile_acl_text(text, "huawei"))
    elif kind == "deploying":
        walk_flat(compile_deploying_text(text, "huawei"))
    else:
        walk_flat(compile_ordering_text(text, "huawei"))
    return out


CONTEXT_SHAPES = [
    # (name, lines with the %context line, index of that line, rows whose compiled form must not change)
    ("context-inside-block", ["alpha *", "    %context=block:x", "    beta *", "gamma ~"], 1, ["alpha *", "gamma ~"]),
    ("context-inside-block-under-outer-context", ["%context=block:y", "alpha *", "    %context=block:x", "    beta *", "gamma ~"], 2,
     ["alpha *", "gamma ~"]),
    ("context-inside-second-block", ["alpha *", "    beta *", "delta *", "    %context=block:x", "    beta *", "gamma ~"], 3,
     ["alpha *", "delta *", "gamma ~"]),
]


def run_l_context(kind, ctx):
    """a %context line holds for the rules below it in ITS block only: the rules of enclosing and following blocks compile
    as they do without the line"""
    for name, lines, at, others in CONTEXT_SHAPES:
        with_c = "\n".join(lines) + "\n"
        without = "\n".join(ln for i, ln in enumerate(lines) if i != at) + "\n"
        case = {"part": "L", "compiler": kind, "param": "%context", "shape": name}
        ctx.evals += 2
        ctx.states += 1
        try:
            a, b = _compiled_rows(kind, with_c), _compiled_rows(kind, without)
        except Exception as e:  # noqa
            ctx.outcomes["L:%s:context-not-compilable" % kind] += 1
            continue
        ctx.outcomes["L:%s:context" % kind] += 1
        for row in others:
            if a.get(row) != b.get(row):
                ctx.violation({"kind": "param-leaks-to-sibling-rule", "compiler": kind, "param": "%context", "fields": ["context"]},
                              dict(case, row=row), "text %r: rule %r compiled to %r, without the %%context line to %r"
                              % (with_c, row, a.get(row), b.get(row)))


def run_l(block, ctx):
    kind = block["kind"]
    run_l_context(kind, ctx)
    for param in LEAK_PARAMS[kind]:
        for name, lines, others in LEAK_SHAPES:
            with_p = "\n".join(ln.format(A="alpha *", B="beta *", C="gamma ~", P=param) for ln in lines) + "\n"
            without = "\n".join(ln.format(A="alpha *", B="beta *", C="gamma ~", P="").rstrip() for ln in lines) + "\n"
            case = {"part": "L", "compiler": kind, "param": param, "shape": name}
            ctx.evals += 2
            ctx.states += 1
            try:
                a, b = _compiled_rows(kind, with_p), _compiled_rows(kind, without)
            except Exception as e:  # noqa
                ctx.outcomes["L:%s:not-compilable" % kind] += 1
                ctx.notes.append("part L: %s %s %s: %r" % (kind, param, name, e))
                continue
            ctx.nontrivial += int(a.get("alpha *") != b.get("alpha *"))
            ctx.outcomes["L:%s:%s" % (kind, "param-changes-its-own-rule" if a.get("alpha *") != b.get("alpha *") else "param-without-effect")] += 1
            for idx in others:
                row = lines[idx].strip().format(A="alpha *", B="beta *", C="gamma ~", P="").strip()
                if a.get(row) != b.get(row):
                    diff = sorted(k for k in set(a.get(row) or {}) | set(b.get(row) or {}) if (a.get(row) or {}).get(k) != (b.get(row) or {}).get(k)) \
                        if isinstance(a.get(row), dict) and isinstance(b.get(row), dict) else ["<entry>"]
                    ctx.violation({"kind": "param-leaks-to-sibling-rule", "compiler": kind, "param": param.split("=")[0], "fields": diff},
                                  dict(case, row=row), "text %r: rule %r compiled to %r, without the param on its neighbour to %r"
                                  % (with_p, row, a.get(row), b.get(row)))
    ctx.sample({"part": "L", "compiler": kind, "params": LEAK_PARAMS[kind], "shapes": [n for n, _, _ in LEAK_SHAPES]})


def run_block(block, ctx):
    if block["part"] == "L":
        return run_l(block, ctx)
    if block["part"] == "A":
        run_a(block, ctx)
    elif block["part"] == "R":
        run_r(block, ctx)
    elif block["part"] == "S":
        run_s(block, ctx)
    else:
        run_b(block, ctx)


def run_a(block, ctx):
    from annet.annlib.rbparser import syntax
    from mc.ref import regexgen
    k, w = (3, 4) if ctx.tier == "quick" else (4, 5)
    pats = (patterns(k) + group_patterns(3))[block["i"]::NB]
    rws = rows(w)
    short_rows = rows(2)
    for p in pats:
        if ctx.expired():
            return
        rx = syntax.compile_row_regexp(p)
        matched_keys = set()
        for r in rws:
            exp = check_pair(p, r, rx, ctx.violation)
            ctx.evals += 1
            if exp is not None:
                ctx.nontrivial += 1
                matched_keys.add(exp)
                ctx.outcomes["match/key%d" % len(exp)] += 1
            else:
                ctx.outcomes["nomatch"] += 1
        ctx.states += len(rws)
        if "(?i)" not in p and "..." not in p:
            for key in sorted(matched_keys)[:12]:
                check_reverse(p, key, ctx.violation)
                ctx.evals += 2 * len(PREFIXES)
                ctx.extra["reverse_templates_checked"] += 2 * len(PREFIXES)
        check_acl_ordering_reverse(p, short_rows, ctx)
        syn = regexgen.synth_row(p)
        if syn is not None:
            check_ordering_compiled(p, syn[0], ctx)
        if len(ctx.samples) < 2 and matched_keys:
            ctx.sample({"pattern": p, "rows": len(rws), "distinct_keys": len(matched_keys),
                        "example_key": list(sorted(matched_keys)[0])})


# ---------------------------------------------------------------------------------------------------
# Part B: shipped rule lines
def shipped_rule_lines():
    """(file, raw line) for every rule line of every shipped text, rendered for several hardware views."""
    from mc.shipped import rendered_rule_lines
    return rendered_rule_lines()


def check_shipped(kind, fname, row, v, ctx=None):
    """one shipped rule line: own synthesised row, and for simple rows the reference on all near misses"""
    from annet.annlib.rbparser import syntax
    from mc.ref import regexgen
    try:
        rx = syntax.compile_row_regexp(row)
    except re.error as e:
        v({"kind": "shipped-rule-does-not-compile", "file": fname, "row": row}, {"part": "B", "kind": kind, "file": fname, "row": row}, repr(e))
        return "compile-error"
    synth = regexgen.synth_row(row)
    if synth is None:
        return "not-synthesisable"
    text, key = synth
    m = rx.match(text)
    case = {"part": "B", "kind": kind, "file": fname, "row": row, "text": text}
    if not m:
        v({"kind": "shipped-rule-rejects-own-row", "file": fname, "row": row}, case, "regexp=%r" % rx.pattern)
        return "rejects-own"
    if key is not None and tuple(m.groups()) != tuple(key):
        v({"kind": "shipped-rule-key", "file": fname, "row": row}, case, "groups=%r expected=%r" % (m.groups(), key))
    if not regexgen.is_simple_row(row):
        return "complex:match"
    n = 0
    for (mkind, mut) in regexgen.near_misses(row, text):
        mm = rx.match(mut)
        got = mm.groups() if mm else None
        exp = rulelang.ref_match(row, mut)
        n += 1
        if got != exp:
            v({"kind": "shipped-rule-near-miss", "mutation": mkind, "shape": rulelang.shape(row),
               "impl_matches": got is not None, "ref_matches": exp is not None},
              dict(case, text=mut), "impl=%r ref=%r regexp=%r" % (got, exp, rx.pattern))
    if ctx is not None:
        ctx.evals += n
        ctx.extra["near_misses_checked"] += n
    return "simple:match"


def run_b(block, ctx):
    lines = shipped_rule_lines()[block["i"]::16]
    for (kind, fname, row) in lines:
        ctx.evals += 1
        ctx.states += 1
        res = check_shipped(kind, fname, row, ctx.violation, ctx)
        ctx.outcomes["B:" + res] += 1
        if res.endswith(":match"):
            ctx.nontrivial += 1
            if len(ctx.samples) < 1:
                from mc.ref import regexgen
                ctx.sample({"file": fname, "rule": row, "synthesised_row": regexgen.synth_row(row)[0]})


def replay(case):
    from annet.annlib.rbparser import syntax
    out = []

    def v(sig, c, detail=""):
        out.append((sig, detail))
    if case.get("part") == "L":
        import time
        from mc.core import Ctx
        ctx = Ctx(time.time() + 600, "quick", 0)
        run_l({"part": "L", "kind": case["compiler"]}, ctx)
        return [(e["sig"], e["cases"][0]["detail"]) for e in ctx.result()["viol"].values()
                if e["sig"].get("param") == case["param"].split("=")[0]]
    if case.get("part") == "S":
        row, _ = env.call_private(syntax, "_parse_raw_rule", case.get("line") or (case["pattern"] + case["sep"] + "%global"), {})
        exp = case["pattern"] if "pattern" in case else re.sub(r"\s+", " ", case["line"][:re.search(r"\s%[a-zA-Z_]", case["line"]).start()].strip())
        if row != exp:
            v({"kind": "params-not-split", "via": "_parse_raw_rule"}, case, "row=%r expected=%r" % (row, exp))
        return out
    if case.get("part") == "R" and "vendor" in case:
        import collections
        from mc.ref import regexgen

        class CR:  # minimal ctx
            evals = 0
            extra = collections.Counter()
            violation = staticmethod(v)
        text = (regexgen.synth_row(case["pattern"]) or (case.get("row", "a"), None))[0]
        check_ordering_compiled(case["pattern"], text, CR)
        check_acl_compiled(case["pattern"], text, CR)
        return [(sg, d) for sg, d in out if sg.get("vendor") == case["vendor"]]
    if case.get("part") == "A":
        p = case["pattern"]
        if "row" in case and "prefix" not in case:
            check_pair(p, case["row"], syntax.compile_row_regexp(p), v)
        elif "key" in case:
            check_reverse(p, tuple(case["key"]), v)
        else:
            class C:  # minimal ctx
                evals = 0
                violation = staticmethod(v)
            check_acl_ordering_reverse(p, [case.get("row", "a")], C)
    else:
        check_shipped(case.get("kind", "rul"), case["file"], case["row"], v)
    return out
