"""C08 - ordering follows the ordering rulebook and only permutes lines.

Part P: ordering rulebooks O of a grammar (<= 3 sibling rules with pairwise disjoint languages, depth <= 2,
        %order_reverse pins, %global) x all (old,new) pairs of a fixed patching rulebook's config universe, through the
        real make_diff/make_pre/make_patch: for sibling commands c1,c2 of the sorted patch ref_rank(c1) < ref_rank(c2)
        => c1 first; removal before re-creation of one (rule,key); multiset of paths equals that of the patch made
        with an empty ordering rulebook (children therefore stay in their parent).
Part N: the same with a patching head that merely begins with the vendor's negation word (node / undoer).
Part L: shipped .order files: for every sample of the shipped patch corpus, deleting one top-level row that is
        identical in old and new leaves the command list unchanged.
Part G: `annet gen` end to end (annet.gen.worker through mc/e2e.py) on every corpus sample's new tree, split over two
        generators: the printed configuration holds exactly the generated rows at every depth (with --acl-safe: those
        of the safe generator), and ordering it again changes nothing.
Part T: history through the reference tracker: per vendor, the patch and the ordered configuration of every corpus sample
        are computed, then every sample is patched once more with a RefTracker that links two of its rows (the path on
        which annet.api.patch_from_pre inserts reference-derived ordering rules), then the first results are computed
        again and must be unchanged: the order of a device's commands does not depend on devices handled before it.
Part O: Orderer(compile_ordering_text(O), vendor).order_config(t) for ordering rulebooks with nested rules (also as the
        FIRST rule) x configurations of <= 3 top-level rows (mentioned, unmentioned, negated) whose blocks hold <= 2
        children in every order: same rows at every depth, idempotent, and the order inside a block is the order the
        block gets when it is the only row of the configuration (it does not depend on unrelated lines).
Part C: Orderer.from_hw(hw).order_config(t) for all vendors x forests over rows drawn from that vendor's .order
        file: same rows at every depth, idempotent, rows no rule mentions keep their relative order.
"""
from __future__ import annotations

import itertools

from mc import env, corpus, shipped, enum as mcenum
from mc.ref import rb as refrb
from mc.ref import rulelang
from mc.ref.rb import Rule

PID = "C08"
ENGINE = "E1 bounded-exhaustive enumeration: ordering rulebooks x patches; corpus x deleted unchanged rows; vendors x forests"
RULE = ("P: a case is (ordering rulebook of the grammar, vendor, old, new) with old,new over the complete universe of a "
        "fixed patching rulebook; L: (corpus sample, deleted unchanged top-level row); C: (vendor, forest over rows "
        "synthesised from its .order file); distinct by construction; non-trivial = the patch (or config) has >= 2 sibling "
        "commands with different reference ranks")
ASSUMPTIONS = [
    "reference rank: rules numbered from 1; an addition matching rule i directly ranks +i; a removal matching plain rule "
    "i through its negated form ranks -i; a removal matching an %order_reverse rule (written in negated form) ranks +i; "
    "commands no rule mentions are unranked (no claim about them relative to ranked ones)",
    "ordering rulebooks of part P have sibling rules with pairwise disjoint languages; %order_reverse rules are written in "
    "negated form and never overlap a plain rule",
]
BUDGET = {"quick": 150, "thorough": 900}

VENDOR_PREFIX = {"huawei": "undo", "cisco": "no"}


class ORule:
    def __init__(self, pattern, children=(), order_reverse=False, glob=False, scope=None):
        self.pattern, self.children, self.order_reverse, self.glob = pattern, list(children), order_reverse, glob
        self.scope = scope          # %scope=<names>: the rule is in force only where that scope is asked for ("patch": in patches)

    def line(self):
        return (self.pattern + (" %order_reverse" if self.order_reverse else "") + (" %global" if self.glob else "")
                + (" %%scope=%s" % self.scope if self.scope else ""))

    def in_force(self, scope):
        return self.scope is None or (scope is not None and scope in self.scope.split(","))

    def to_json(self):
        d = {"p": self.pattern, "r": self.order_reverse, "g": self.glob, "c": [c.to_json() for c in self.children]}
        if self.scope:
            d["s"] = self.scope
        return d

    @staticmethod
    def from_json(d):
        return ORule(d["p"], [ORule.from_json(c) for c in d["c"]], d["r"], d["g"], d.get("s"))


def otext(rules, ind=0):
    out = []
    for r in rules:
        out.append("    " * ind + r.line())
        if r.children:
            out.append(otext(r.children, ind + 1))
    return "\n".join(out)


def patching_rules():
    return [Rule("a *", [Rule("c *"), Rule("d *")]), Rule("b x *"), Rule("b y *"), Rule("c *", logic="undo_redo")]


def ordering_grammar(tier, prefix):
    """ordering rulebooks with disjoint sibling languages over the heads a,b,c,d"""
    heads = ["a", "b", "c", "d"]
    out = []
    # all ordered selections of <= 3 heads as plain rules
    for n in (1, 2, 3):
        for sel in itertools.permutations(heads, n):
            out.append([ORule(h) for h in sel])
    # with one pinned negated rule
    for sel in itertools.permutations(heads, 2):
        out.append([ORule(sel[0]), ORule("%s %s" % (prefix, sel[1]), order_reverse=True)])
        out.append([ORule("%s %s" % (prefix, sel[1]), order_reverse=True), ORule(sel[0])])
    for sel in itertools.permutations(heads, 3):
        out.append([ORule(sel[0]), ORule("%s %s" % (prefix, sel[1]), order_reverse=True), ORule(sel[2])])
    # nested: children order inside block a
    for ch in itertools.permutations(["c", "d"], 2):
        out.append([ORule("b"), ORule("a", [ORule(ch[0]), ORule(ch[1])])])
        out.append([ORule("a", [ORule(ch[0]), ORule("%s %s" % (prefix, ch[1]), order_reverse=True)]), ORule("b")])
    # global child rule
    out.append([ORule("b"), ORule("a", [ORule("d")]), ORule("c", glob=True)])
    out.append([ORule("d", glob=True), ORule("a", [ORule("c")]), ORule("b")])
    # %global rules must stay in force inside blocks whose own row no ordering rule mentions (no rule for "a")
    out.append([ORule("d", glob=True), ORule("c", glob=True), ORule("b")])
    out.append([ORule("c", glob=True), ORule("d", glob=True)])
    out.append([ORule("b"), ORule("%s c" % prefix, order_reverse=True, glob=True), ORule("d", glob=True)])
    # specific rows
    out.append([ORule("b x"), ORule("a"), ORule("b y")])
    # %scope: a rule scoped to patches is in force in every patch (top level, %global, nested); a rule of another scope is
    # not there at all (the later unscoped rule for the same rows then ranks them)
    out.append([ORule("c", scope="patch"), ORule("b")])
    out.append([ORule("b"), ORule("d", glob=True, scope="patch"), ORule("a", [ORule("c")])])
    out.append([ORule("a", [ORule("d", scope="patch"), ORule("c")]), ORule("b", scope="patch,other")])
    out.append([ORule("c", scope="other"), ORule("b"), ORule("c")])
    out.append([ORule("b"), ORule("a", [ORule("c")]), ORule("d", glob=True, scope="other"), ORule("a", [ORule("d")])])
    if tier == "quick":
        keep = out[-9:]
        out = out[::2] + out[1::8] + [o for o in keep if o not in out[::2] and o not in out[1::8]]
    return out


def bound_text(tier):
    return ("P: %d ordering rulebooks x 2 vendors x all pairs of a %s-config universe; L: 192 corpus samples x every "
            "unchanged top-level row; C: 14 vendors x forests <= %d nodes over <= 8 rows (plain and negated, mentioned and not); "
            "G: 192 corpus samples x {--acl-safe} through annet.gen.worker end to end; O: 8 nested ordering rulebooks x "
            "configurations of <= 3 top rows with <= 2 children per block in every order"
            % (len(ordering_grammar(tier, "undo")), "~40" if tier == "quick" else "~120", 4 if tier == "quick" else 5))


def setup():
    env.setup()
    corpus.samples()


# ---- reference rank --------------------------------------------------------------------------------
def rank(level_rules, inherited_globals, cmd, is_removal, prefix, scope="patch"):
    """-> (rank | None, rules in force one level below, [])

    Rules in force below a command, in rank order: scanning the rules of this level in file order, a %global rule is
    handed down where it stands, and a rule matching the command hands down its children where it stands - so an
    inherited %global rule written before the matching block rule ranks before that rule's children, one written
    after it ranks after them ("earlier rule first" by position in the file).  `inherited_globals` is unused for
    levels below the top (they are already interleaved in level_rules) and kept for the call signature."""
    best = None
    kids = []
    for i, r in enumerate(level_rules, start=1):
        if not r.in_force(scope):
            continue
        if r.glob and r not in kids:
            kids.append(r)
        direct = rulelang.ref_match(r.pattern, cmd) is not None
        rev = rulelang.ref_match(rulelang.negate_pattern(r.pattern, prefix), cmd) is not None
        if r.order_reverse:
            if is_removal and direct:
                best = +i
                kids = []
        elif direct or rev:
            if best is None:
                best = -i if is_removal else +i
            kids = kids + [c for c in r.children if c not in kids]
    return best, kids, []


# ---- part P ----------------------------------------------------------------------------------------
_cache = {}
_base_cache = {}


def patch_for(vendor, otxt, old, new, rules=None):
    from annet import api
    from annet.rulebook.patching import compile_patching_text
    from annet.annlib.rbparser.ordering import compile_ordering_text
    from annet.rulebook.deploying import compile_deploying_text
    if rules is None:
        rules = _cache.setdefault("rules", patching_rules())
    rbk = {"patching": compile_patching_text(refrb.text(rules), vendor), "ordering": compile_ordering_text(otxt, vendor),
           "deploying": compile_deploying_text("", vendor)}
    diff, patch = env.diff_and_patch(env.device(vendor), env.to_odict(old), env.to_odict(new), None, None, False, rb=rbk)
    return patch


def flat_paths(pt, prefix=()):
    out = []
    for it in pt.itms:
        p = prefix + (str(it.row),)
        out.append(p)
        if it.child is not None:
            out.extend(flat_paths(it.child, p))
    return out


def check_sorted(pt, orules, oglobals, prefix, probs, path=()):
    """walks the sorted PatchTree; siblings must respect the reference rank"""
    ranks = []
    for it in pt.itms:
        row = str(it.row)
        is_removal = row.startswith(prefix + " ")
        rk, kids, kglob = rank(orules, oglobals, row, is_removal, prefix)
        ranks.append((rk, row))
        if it.child is not None and it.child.itms:
            check_sorted(it.child, kids, kglob, prefix, probs, path + (row,))
    ranked = [(rk, row) for rk, row in ranks if rk is not None]
    for (r1, c1), (r2, c2) in zip(ranked, ranked[1:]):
        if r1 > r2:
            probs.append(("rank-order", path, "%r (rank %s) is placed before %r (rank %s)" % (c1, r1, c2, r2),
                          "a removal matching the FIRST ordering rule through its negated form is not placed first"
                          if r2 == -1 else "other"))
    return ranks


def prefix_word_rules(prefix, kind="neg"):
    """part N: a patching rulebook with a head that merely BEGINS with the vendor's negation word ('node' for 'no',
    'undoer' for 'undo') - or, kind="exit", with the vendor's block-exit word ('exit-map' for 'exit', 'quitter' for
    'quit'; IOS has such commands: exit-peer-policy, exit-vrf) - and ordering rulebooks that rank it"""
    w = {"no": "node", "undo": "undoer"}[prefix] if kind == "neg" else {"no": "exit-map", "undo": "quitter"}[prefix]
    rules = [Rule(w + " *"), Rule("b *"), Rule("c *")]
    orders = [[ORule("b"), ORule(w), ORule("c")], [ORule("c"), ORule("b"), ORule(w)], [ORule(w), ORule("c")],
              [ORule("c"), ORule("%s %s" % (prefix, w), order_reverse=True), ORule("b")], [ORule("b"), ORule(w + " 1"), ORule(w + " 2")]]
    return rules, orders


def judge_p(vendor, orules, old, new, report, rules=None):
    prefix = VENDOR_PREFIX[vendor]
    otxt = otext(orules)
    case = {"part": "P" if rules is None else "N", "vendor": vendor, "ordering": [r.to_json() for r in orules], "old": old, "new": new}
    if rules is not None:
        case["patching"] = [r.to_json() for r in rules]
    try:
        pt = patch_for(vendor, otxt, old, new, rules)
        bk = (vendor, rules is None, repr(old), repr(new))
        base_paths = _base_cache.get(bk)
        if base_paths is None:
            if len(_base_cache) > 20000:
                _base_cache.clear()
            base_paths = _base_cache[bk] = sorted(flat_paths(patch_for(vendor, "", old, new, rules)))
    except Exception as e:  # noqa
        report({"kind": "exception", "part": "P", "exc": type(e).__name__}, case, repr(e)[:300])
        return 0
    probs = []
    ranks = check_sorted(pt, [r for r in orules], [r for r in orules if r.glob], prefix, probs)
    probs.sort(key=lambda p: p[3] != "other")      # report the unclassified ones first
    for kind, path, detail, shape in probs[:2]:
        report({"kind": kind, "part": case["part"], "shape": shape}, case,
               "ordering=%r at %r: %s | patch=%r" % (otxt, path, detail, flat_paths(pt)))
    a, b = sorted(flat_paths(pt)), base_paths
    if a != b:
        report({"kind": "ordering-changes-command-set", "part": "P"}, case, "with ordering=%r without=%r" % (a, b))
    # removal precedes re-creation of one (rule,key): undo_redo rules c * (top) and e (inside a)
    rows = [str(it.row) for it in pt.itms]
    for i, row in enumerate(rows):
        if row.startswith(prefix + " c "):
            key = row.split()[2]
            later_add = [j for j, r in enumerate(rows) if r.startswith("c %s" % key)]
            if later_add and later_add[0] < i:
                report({"kind": "recreation-before-removal", "part": "P"}, case, "patch=%r" % rows)
    distinct = len({rk for rk, _ in ranks if rk is not None})
    return distinct


def run_n(block, ctx):
    from checks.c01_converge import pick_universe
    vendor = block["vendor"]
    rules, orders = prefix_word_rules(VENDOR_PREFIX[vendor], block.get("kind", "neg"))
    _cache["rulesN:" + vendor] = rules
    U, _ = pick_universe(refrb.top_level(rules), 40)
    orules = orders[block["i"]]
    for old in U:
        if ctx.expired():
            return
        for new in U:
            d = judge_p(vendor, orules, old, new, ctx.violation, rules)
            ctx.evals += 2
            ctx.states += 1
            if d >= 2:
                ctx.nontrivial += 1
            ctx.outcomes["N:distinct-ranks=%s" % (d if d < 3 else "3+")] += 1
    ctx.sample({"part": "N", "ordering": otext(orules), "patching": refrb.text(rules), "universe": len(U)})


def run_p(block, ctx):
    from checks.c01_converge import pick_universe
    vendor = block["vendor"]
    prefix = VENDOR_PREFIX[vendor]
    G = ordering_grammar(ctx.tier, prefix)
    top = refrb.top_level(patching_rules())
    U, _ = pick_universe(top, 40 if ctx.tier == "quick" else 160)
    for oi in range(block["from"], min(block["to"], len(G))):
        orules = G[oi]
        for old in U:
            if ctx.expired():
                return
            for new in U:
                d = judge_p(vendor, orules, old, new, ctx.violation)
                ctx.evals += 2
                ctx.states += 1
                if d >= 2:
                    ctx.nontrivial += 1
                ctx.outcomes["P:distinct-ranks=%s" % (d if d < 3 else "3+")] += 1
        if len(ctx.samples) < 1:
            ctx.sample({"part": "P", "ordering": otext(orules), "patching": refrb.text(patching_rules()), "universe": len(U)})


# ---- part L ----------------------------------------------------------------------------------------
def corpus_patch(model, old, new):
    from annet import api
    from annet.annlib.netdev.views.hardware import HardwareView
    import types
    hw = HardwareView(model, None)
    dev = types.SimpleNamespace(hw=hw, hostname="d", fqdn="d")
    diff, pt = env.diff_and_patch(dev, env.to_odict(old), env.to_odict(new), None, None, False)
    fmt = env.vendor_obj(hw.vendor).make_formatter()
    return [tuple(p) for p in fmt.cmd_paths(pt).keys()]


def same_relative_order(p1, p2):
    """commands present in both lists appear in the same relative order (custom vendor logic may legitimately add or
    drop commands when a line it reads disappears; the property is about the order of the remaining ones)"""
    c = set(p1) & set(p2)
    return [x for x in p1 if x in c] == [x for x in p2 if x in c]


def run_l(block, ctx):
    S = corpus.samples()
    for si in range(block["i"], len(S), block["of"]):
        s = S[si]
        if ctx.expired():
            return
        try:
            base = corpus_patch(s["model"], s["old"], s["new"])
        except Exception as e:  # noqa
            ctx.outcomes["L:base-exception:%s" % type(e).__name__] += 1
            continue
        newd = {r: ch for r, ch in s["new"]}
        same = [r for r, ch in s["old"] if r in newd and newd[r] == ch]
        for r in same:
            old2 = [x for x in s["old"] if x[0] != r]
            new2 = [x for x in s["new"] if x[0] != r]
            ctx.evals += 1
            ctx.states += 1
            try:
                got = corpus_patch(s["model"], old2, new2)
            except Exception as e:  # noqa
                # a vendor logic that needs the deleted row (e.g. aruba ap-env parameters): the row was not unrelated
                ctx.outcomes["L:logic-needs-the-row(%s)" % type(e).__name__] += 1
                continue
            if len(base) > 1:
                ctx.nontrivial += 1
            if not same_relative_order(base, got):
                ctx.violation({"kind": "unrelated-row-changes-order", "part": "L", "vendor": s["vendor_key"]},
                              {"part": "L", "sample": s["name"], "deleted": r},
                              "deleting unchanged top-level row %r changed the relative order of commands: %r -> %r" % (r, base, got))
            ctx.outcomes["L:%s" % ("same-patch" if got == base else "other-commands-same-order")] += 1
    ctx.sample({"part": "L", "samples": len(S)})


# ---- part C ----------------------------------------------------------------------------------------
def order_rows(vendor):
    """rows synthesised from the first top-level rules of the vendor's .order file + foreign rows"""
    from mc.ref import regexgen
    rows = []
    import os
    path = os.path.join(shipped.texts_dir(), vendor + ".order")
    if os.path.exists(path):
        for ln in open(path, encoding="utf-8").read().split("\n"):
            if not ln or ln.startswith((" ", "\t", "#", "%")):
                continue
            pat = ln.split(" %")[0].strip()
            s = regexgen.synth_row(pat)
            if s and regexgen.is_simple_row(pat) and s[0] not in rows:
                rows.append(s[0])
            if len(rows) >= 4:
                break
    # foreign rows (no rule of any shipped .order file mentions them), plain and beginning with the vendor's negation
    # word, and the negated form of the first ordered row
    neg = reverse_word(vendor)
    # ... and a foreign row that merely begins with the vendor's block-exit word (IOS: exit-peer-policy, exit-vrf)
    ex = exit_word(vendor)
    return rows[:3] + ["zz 1", "zy", neg + " zz 1", neg + " zy"] + ([neg + " " + rows[0]] if rows else []) + ([ex + "-zx"] if ex else [])


def exit_word(vendor):
    from annet.vendors import registry_connector
    reg = registry_connector.get()
    return (reg[vendor].exit if vendor in reg else "") or ""


def reverse_word(vendor):
    from annet.vendors import registry_connector
    reg = registry_connector.get()
    return reg[vendor].reverse if vendor in reg else "no"


def to_list(t):
    return [[k, to_list(v)] for k, v in t.items()]


def unordered(t):
    return sorted((r, unordered(ch)) for r, ch in t)


def judge_c(vendor, forest, report):
    from annet.patching import Orderer
    hw = env.hw(vendor)
    case = {"part": "C", "vendor": vendor, "forest": forest}
    try:
        o = Orderer.from_hw(hw)
        got = to_list(o.order_config(env.to_odict(forest)))
        again = to_list(Orderer.from_hw(hw).order_config(env.to_odict(got)))
    except Exception as e:  # noqa
        report({"kind": "exception", "part": "C", "vendor": vendor, "exc": type(e).__name__}, case, repr(e)[:300])
        return False
    if unordered(got) != unordered(forest):
        report({"kind": "order_config-changes-rows", "vendor": vendor}, case, "in=%r out=%r" % (forest, got))
    if again != got:
        report({"kind": "order_config-not-idempotent", "vendor": vendor}, case, "once=%r twice=%r" % (got, again))
    neg = reverse_word(vendor) + " z"
    exz = (exit_word(vendor) + "-z") if exit_word(vendor) else "z"

    def levels(a, b):
        yield [r for r, _ in a], [r for r, _ in b]
        for r, ch in a:
            yield from levels(ch, next((c2 for r2, c2 in b if r2 == r), []))
    for rows_in, rows_out in levels(forest, got):
        for what, pred in (("plain", lambda r: r.startswith("z") or r.startswith(exz)), ("negated", lambda r: r.startswith(neg))):
            if [r for r in rows_in if pred(r)] != [r for r in rows_out if pred(r)]:
                report({"kind": "unmentioned-rows-reordered", "vendor": vendor, "shape": "two %s rows swapped" % what}, case,
                       "in=%r out=%r" % (forest, got))
        f_in = [r for r in rows_in if r.startswith("z") or r.startswith(neg)]
        f_out = [r for r in rows_out if r.startswith("z") or r.startswith(neg)]
        if f_in != f_out and sorted(f_in) == sorted(f_out):
            plain_in = [r for r in f_in if r.startswith("z")]
            if [r for r in f_out if r.startswith("z")] == plain_in and [r for r in f_out if not r.startswith("z")] == [r for r in f_in if not r.startswith("z")]:
                report({"kind": "unmentioned-rows-reordered", "shape": "an unmentioned row beginning with the negation word is moved before unmentioned plain rows"},
                       case, "in=%r out=%r" % (forest, got))
    return got != forest


def run_c(block, ctx):
    v = block["vendor"]
    rows = order_rows(v)
    n = 4 if ctx.tier == "quick" else 5
    for forest in mcenum.forests(rows, n, 2):
        if not forest:
            continue
        if ctx.expired():
            return
        changed = judge_c(v, forest, ctx.violation)
        ctx.evals += 2
        ctx.states += 1
        if changed:
            ctx.nontrivial += 1
        ctx.outcomes["C:%s" % ("reordered" if changed else "kept")] += 1
    ctx.sample({"part": "C", "vendor": v, "rows": rows})


def nested_order_rulebooks(prefix):
    return [
        [ORule("a", [ORule("c"), ORule("d")]), ORule("b")],
        [ORule("a", [ORule("d"), ORule("c")]), ORule("b")],
        [ORule("b"), ORule("a", [ORule("c"), ORule("d")])],
        [ORule("a", [ORule("c"), ORule("d")])],
        [ORule("a", [ORule("d"), ORule("%s c" % prefix, order_reverse=True)]), ORule("b")],
        [ORule("d", glob=True), ORule("a", [ORule("c")]), ORule("b")],
        [ORule("a", [ORule("c")]), ORule("d", glob=True), ORule("b")],
        [ORule("b"), ORule("a", [ORule("c", [ORule("d")])])],
        # a %global rule that has child rules of its own: below a row it matches, the rule itself still stands BEFORE its
        # children (it is handed down where it stands in the file), so a nested 'a ...' row precedes 'c ...' and 'd ...'
        [ORule("a", [ORule("c"), ORule("d")], glob=True), ORule("b")],
        [ORule("b"), ORule("a", [ORule("d"), ORule("c")], glob=True)],
        # %scope=patch rules are not in force when a configuration is ordered: the unscoped rule for the same rows ranks them
        [ORule("b", scope="patch"), ORule("a", [ORule("d", scope="patch"), ORule("c"), ORule("d")]), ORule("b")],
        [ORule("d", glob=True, scope="patch"), ORule("a", [ORule("c"), ORule("d")]), ORule("b")],
    ]


GLOBAL_WITH_CHILDREN = (8, 9)       # indices of the rulebooks above whose configurations also nest an 'a' row inside 'a'


def nested_order_configs(prefix, nested_a=False):
    tops = ["a 1", "a 2", "b 1", "z 1", prefix + " a 9"]
    kids = ["c 1", "d 1", "z 2", prefix + " c 1"]
    if nested_a:
        tops = ["a 1", "b 1", "z 1"]
        kids = ["c 1", "d 1", "a 3", "z 2"]
    kid_sets = [list(p) for n in (0, 1, 2) for p in itertools.permutations(kids, n)]
    for n in (1, 2, 3):
        for sel in itertools.permutations(tops, n):
            blocks_ = [r for r in sel if not r.startswith(("b", prefix))]
            for combo in itertools.product(kid_sets, repeat=len(blocks_)):
                ch = dict(zip(blocks_, combo))
                yield [[r, [[k, []] for k in ch.get(r, [])]] for r in sel]


def judge_o(vendor, orules, forest, report):
    from annet.annlib.rbparser.ordering import compile_ordering_text
    from annet.patching import Orderer
    text = otext(orules) + "\n"
    case = {"part": "O", "vendor": vendor, "ordering": [r.to_json() for r in orules], "forest": forest}
    sig = {"part": "O", "ordering": text.strip().replace("\n", " / ")}
    try:
        rb = compile_ordering_text(text, vendor)
        got = to_list(Orderer(rb, vendor).order_config(env.to_odict(forest)))
        again = to_list(Orderer(rb, vendor).order_config(env.to_odict(got)))
    except Exception as e:  # noqa
        report(dict(sig, kind="exception", exc=type(e).__name__), case, repr(e)[:300])
        return False
    if unordered(got) != unordered(forest):
        report(dict(sig, kind="order_config-changes-rows"), case, "in=%r out=%r" % (forest, got))
        return False
    if again != got:
        report(dict(sig, kind="order_config-not-idempotent"), case, "once=%r twice=%r" % (got, again))
    probs = []
    check_config_ranks(got, list(orules), VENDOR_PREFIX[vendor], probs)
    for path, detail in probs[:1]:
        report(dict(sig, kind="config-rank-order"), case, "at %r: %s | ordered configuration=%r" % (list(path), detail, got))
    for row, ch in forest:
        if len(ch) < 2:
            continue
        alone = to_list(Orderer(rb, vendor).order_config(env.to_odict([[row, ch]])))[0][1]
        here = next(c for r, c in got if r == row)
        if alone != here:
            report(dict(sig, kind="block-order-depends-on-unrelated-rows"), case,
                   "block %r: alone its children are ordered %r, in %r they come out as %r" % (row, [r for r, _ in alone], forest, [r for r, _ in here]))
            break
    return got != forest


def check_config_ranks(cfg, level_rules, prefix, probs, path=()):
    """an ordered configuration: among the plain (not negated) rows of a block that the ordering rules mention, a row of an
    earlier rule stands before a row of a later rule - judged with the same reference rank as patches"""
    ranked = []
    for row, ch in cfg:
        negated = row.startswith(prefix + " ")
        rk, kids, _ = rank(level_rules, [], row, negated, prefix, scope=None)
        if rk is not None and not negated:
            ranked.append((rk, row))
        if ch:
            check_config_ranks(ch, kids, prefix, probs, path + (row,))
    for (r1, c1), (r2, c2) in zip(ranked, ranked[1:]):
        if r1 > r2:
            probs.append((path, "%r (rule %d) stands before %r (rule %d)" % (c1, r1, c2, r2)))


def run_o(block, ctx):
    v = block["vendor"]
    prefix = VENDOR_PREFIX[v]
    orules = nested_order_rulebooks(prefix)[block["i"]]
    for forest in nested_order_configs(prefix, nested_a=block["i"] in GLOBAL_WITH_CHILDREN):
        if ctx.expired():
            return
        changed = judge_o(v, orules, forest, ctx.violation)
        ctx.evals += 3
        ctx.states += 1
        ctx.nontrivial += int(changed)
        ctx.outcomes["O:%s" % ("reordered" if changed else "kept")] += 1
    ctx.sample({"part": "O", "ordering": otext(orules)})


class _RefA:
    pass


class _RefB:
    pass


def _patch_and_order(s_, ref_track=None):
    import types
    from annet import api
    from annet.annlib.netdev.views.hardware import HardwareView
    from annet.patching import Orderer
    hw = HardwareView(s_["model"], None)
    dev = types.SimpleNamespace(hw=hw, hostname="d", fqdn="d")
    try:
        _, pt = env.diff_and_patch(dev, env.to_odict(s_["old"]), env.to_odict(s_["new"]), None, None, False, ref_track=ref_track)
        paths = [list(p) for p in env.vendor_obj(hw.vendor).make_formatter().cmd_paths(pt)]
    except Exception as e:  # noqa
        paths = "%s" % type(e).__name__
    try:
        ordered = to_list(Orderer.from_hw(hw).order_config(env.to_odict(s_["new"])))
    except Exception as e:  # noqa
        ordered = "%s" % type(e).__name__
    return paths, ordered


def run_t(block, ctx):
    from annet.reference import RefTracker
    S = [s_ for s_ in corpus.samples() if s_["vendor_key"] == block["vendor_key"]]
    first = [_patch_and_order(s_) for s_ in S]
    for s_ in S:
        tops = [r for r, _ in s_["new"]]
        if len(tops) < 2:
            continue
        rt = RefTracker()
        rt.add(_RefA, _RefB)
        rt.config(_RefA, env.to_odict([x for x in s_["new"] if x[0] == tops[-1]]))
        rt.config(_RefB, env.to_odict([x for x in s_["new"] if x[0] == tops[0]]))
        _patch_and_order(s_, ref_track=rt)
        ctx.extra["ref_tracker_jobs"] += 1
    for s_, before in zip(S, first):
        after = _patch_and_order(s_)
        ctx.evals += 2
        ctx.states += 1
        ctx.nontrivial += int(isinstance(before[0], list) and len(before[0]) > 1)
        ctx.outcomes["T:%s" % ("same" if after == before else "differs")] += 1
        if after != before:
            what = "patch" if after[0] != before[0] else "order_config"
            ctx.violation({"kind": "order-depends-on-earlier-devices", "part": "T", "what": what, "vendor": block["vendor_key"]},
                          {"part": "T", "vendor_key": block["vendor_key"], "sample": s_["name"]},
                          "sample %s: before the RefTracker jobs %r, after them %r" % (s_["name"], before[0 if what == "patch" else 1], after[0 if what == "patch" else 1]))


def check_gen_e2e(sample, acl_safe, report):
    from annet.annlib.tabparser import parse_to_tree
    from annet.patching import Orderer
    from mc import e2e
    from checks.c09_cmdstream import split_new
    case = {"part": "G", "sample": sample["name"], "acl_safe": acl_safe}
    unsafe, safe = split_new(sample["new"])
    if any(p[-1].startswith("/*") for p in e2e.paths_of(sample["new"])):
        return "annotation-rows"        # '/* ... */' rows are what annotations parse to, not something a generator yields
    with e2e.Session(sample["model"], [], [(unsafe, False), (safe, True)]) as ss:
        try:
            out = ss.gen(acl_safe)
        except Exception as e:  # noqa
            report({"kind": "e2e-gen-raises", "exc": type(e).__name__}, case, repr(e)[:300])
            return "raises"
        hw, vendor = ss.dev.hw, ss.vendor
    want = safe if acl_safe else e2e.union_forest(unsafe, safe)
    if not out:
        if want:
            report({"kind": "e2e-gen-prints-nothing"}, case, "expected rows %r" % (want[:2],))
        return "empty"
    if len(out) != 1:
        report({"kind": "e2e-gen-output-shape"}, case, repr([o[0] for o in out]))
        return "shape"
    fmt = env.vendor_obj(vendor).make_formatter()
    tree = parse_to_tree(out[0][1], fmt.split)
    if to_list(env.to_odict(want)) and unordered(to_list(tree)) != unordered(to_list(env.to_odict(want))):
        miss = sorted(e2e.paths_of(want) - e2e.paths_of(tree))[:3]
        extra = sorted(e2e.paths_of(tree) - e2e.paths_of(want))[:3]
        # texts that do not parse back to the tree (vendor syntax outside the round-trip domain) are C04's topic
        direct = parse_to_tree(fmt.join(env.to_odict(want)), fmt.split)
        if unordered(to_list(direct)) == unordered(to_list(env.to_odict(want))):
            report({"kind": "e2e-gen-rows-differ", "acl_safe": acl_safe}, case, "missing=%r extra=%r" % (miss, extra))
            return "rows-differ"
        return "not-representable"
    again = Orderer.from_hw(hw).order_config(tree)
    if to_list(again) != to_list(tree):
        report({"kind": "e2e-gen-output-not-ordered", "vendor": vendor}, case, "printed=%r ordered again=%r" % (to_list(tree), to_list(again)))
    return "ok"


def run_g(block, ctx):
    S = corpus.samples()
    for si in range(block["i"], len(S), block["of"]):
        for acl_safe in (0, 1):
            if ctx.expired():
                return
            label = check_gen_e2e(S[si], acl_safe, ctx.violation)
            ctx.evals += 2
            ctx.states += 1
            ctx.nontrivial += int(label == "ok" and len(S[si]["new"]) > 1)
            ctx.outcomes["G:%s" % label] += 1
            ctx.extra["e2e_runs"] += 1


# ---------------------------------------------------------------------------------------------------
def blocks(tier, seed):
    out = []
    ng = len(ordering_grammar(tier, "undo"))
    step = 4
    for v in VENDOR_PREFIX:
        for off in range(0, ng, step):
            out.append({"part": "P", "vendor": v, "from": off, "to": off + step})
    for v in VENDOR_PREFIX:
        for i in range(5):
            out.append({"part": "N", "vendor": v, "i": i})
            out.append({"part": "N", "vendor": v, "i": i, "kind": "exit"})
    for i in range(16):
        out.append({"part": "L", "i": i, "of": 16})
    for v in env.ALL_VENDORS:
        out.append({"part": "C", "vendor": v})
    for i in range(8):
        out.append({"part": "G", "i": i, "of": 8})
    for vk in sorted({s_["vendor_key"] for s_ in corpus.samples()}):
        out.append({"part": "T", "vendor_key": vk})
    for v in (list(VENDOR_PREFIX) if tier == "thorough" else ["huawei"]):
        for i in range(len(nested_order_rulebooks("undo"))):
            out.append({"part": "O", "vendor": v, "i": i})
    return out


def run_block(block, ctx):
    {"P": run_p, "N": run_n, "L": run_l, "C": run_c, "G": run_g, "O": run_o, "T": run_t}[block["part"]](block, ctx)


def replay(case):
    out = []

    def rep(sig, c, d=""):
        out.append((sig, d))
    if case["part"] == "P":
        judge_p(case["vendor"], [ORule.from_json(d) for d in case["ordering"]], case["old"], case["new"], rep)
    elif case["part"] == "N":
        judge_p(case["vendor"], [ORule.from_json(d) for d in case["ordering"]], case["old"], case["new"], rep,
                [Rule.from_json(d) for d in case["patching"]] if "patching" in case else prefix_word_rules(VENDOR_PREFIX[case["vendor"]])[0])
    elif case["part"] == "C":
        judge_c(case["vendor"], case["forest"], rep)
    elif case["part"] == "T":
        import time
        from mc.core import Ctx
        ctx = Ctx(time.time() + 600, "quick", 0)
        run_t({"part": "T", "vendor_key": case["vendor_key"]}, ctx)
        return [(e["sig"], e["cases"][0]["detail"]) for e in ctx.result()["viol"].values()]
    elif case["part"] == "O":
        judge_o(case["vendor"], [ORule.from_json(d) for d in case["ordering"]], case["forest"], rep)
    elif case["part"] == "G":
        check_gen_e2e(next(x for x in corpus.samples() if x["name"] == case["sample"]), case["acl_safe"], rep)
    else:
        s = next(x for x in corpus.samples() if x["name"] == case["sample"])
        base = corpus_patch(s["model"], s["old"], s["new"])
        got = corpus_patch(s["model"], [x for x in s["old"] if x[0] != case["deleted"]], [x for x in s["new"] if x[0] != case["deleted"]])
        if not same_relative_order(base, got):
            rep({"kind": "unrelated-row-changes-order", "part": "L", "vendor": s["vendor_key"]}, case, "%r -> %r" % (base, got))
    return out
