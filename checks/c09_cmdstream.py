"""C09 - the command stream sent at deploy is exactly the patch that was shown.

Part S (synthetic): all PatchTree forests <= N nodes, depth <= 4, distinct sibling rows, each node a leaf or a
        (possibly empty) block, rows from a per-vendor alphabet with the formatter's special block heads, for every
        block-structured vendor: the displayed patch text, cmd_paths and the body of apply_deploy_rulebook agree
        line by line; the session wrapper equals a table; flattening vendors: cmd_paths == reference flattening.
Part R (real): PatchTrees produced by the real make_patch over grammar rulebooks (incl. undo_redo, %force_commit).
Part K (corpus): the shipped (before, after) corpus with the shipped rulebooks: displayed patch == command stream.
Part U (corpus unions): the same as K and J for the union of two corpus samples of one vendor (all pairs; the two patches
        then meet in one command stream, e.g. Aruba commands with different session wrappers).
Part J (job): the production caller annet.api.CliDeployerJob.parse_result on every corpus sample, with and without
        --dont-commit and --acl-safe: the commands it lists for confirmation (cmd_lines) and the commands it queues
        (deploy_cmds[device]) are those of the pipeline the other parts judge (_diff_and_patch -> cmd_paths ->
        apply_deploy_rulebook) for the configuration pair the flags select.
Part E (end to end): for every corpus sample the production workers themselves, as annet.api.patch / annet.api.deploy run
        them (mc/e2e.py: stub Loader, real generators yielding the sample's new tree split over an unsafe and a safe
        generator, the old tree as <host>.cfg): the rows `annet patch` prints are the commands the deploy job lists
        and queues, with and without --acl-safe / --dont-commit.
Part X (shipped deploy texts): every rule of every shipped *.deploy file, read by a plain line reader of the text (rule
        line, its `dialog:` lines, %timeout): a command synthesised for the rule, sent through apply_deploy_rulebook on
        hardware of that vendor, carries exactly the rule's timeout and ALL its dialogs (question as written, answer,
        regexp or literal) in file order - unless an earlier rule of the file matches the command too.
Part W (wrappers): a deploy rulebook that gives some commands another %apply_logic (aruba.ap_env.apply next to the default
        common.apply): for ALL sequences of <= 4 distinct commands, the commands appear in the queued list exactly once
        and in the order of the patch (wrapper commands aside), each bracketed by the wrapper of its own logic.
Part D (deploy parameters): generated deploy rulebooks with disjoint sibling rules: (timeout, questions) of every
        Command == those of the unique rule chain matching its path, else the defaults.
"""
from __future__ import annotations

import itertools

from mc import env, rbgen
from mc.ref import rb as refrb
from mc.ref import rulelang

PID = "C09"
ENGINE = "E1 bounded-exhaustive enumeration of PatchTrees x vendors x flags; three renderings compared line by line"
RULE = ("S: every PatchTree forest <= N nodes (leaf / empty block / block) over a per-vendor row alphabet, per vendor; "
        "R: every PatchTree the real make_patch produces for all (old,new) pairs of small grammar universes; D: every "
        "(deploy rulebook of the grammar, command path set); distinct by construction; non-trivial = the tree has a block "
        "(exit commands exist) or, for D, at least one command matches a non-default rule")
ASSUMPTIONS = [
    "session wrappers are compared with a table hand-transcribed from the vendor CLI conventions documented in common.apply",
    "synthetic trees have pairwise distinct sibling rows and never use the vendor's exit words as rows",
    "deploy rulebooks of part D have sibling rules with pairwise disjoint languages",
    "part J: annet.deploy.get_deployer() is a harness driver that delegates apply_deploy_rulebook to the real "
    "annet.deploy.apply_deploy_rulebook and has an empty exit command list; DeployOptions carries a ready Query",
]
BUDGET = {"quick": 150, "thorough": 1500}

BLOCK_VENDORS = ["huawei", "h3c", "optixtrans", "cisco", "nexus", "iosxr", "arista", "aruba", "b4com", "pc"]
FLAT_VENDORS = ["juniper", "ribbon", "nokia"]

ALPHABET = {
    # (h3c shares HuaweiFormatter: the no-exit prefix 'rsa peer-public-key' is exercised there, the XPL rows here)
    "huawei": ["a", "b 1", "undo c", "xpl route-filter f", "if x then", "if y then", "else"],
    "h3c": ["a", "b 1", "undo c", "rsa peer-public-key k"],
    "optixtrans": ["a", "b 1", "undo c"],
    "cisco": ["a", "b 1", "no c", "address-family ipv4"],
    "nexus": ["a", "b 1", "no c", "address-family ipv4"],
    "iosxr": ["a", "b 1", "no c", "route-policy P", "if x then", "prefix-set S"],
    "arista": ["a", "b 1", "no c"],
    "aruba": ["a", "b 1", "no c"],
    "b4com": ["a", "b 1", "no c"],
    "pc": ["a", "b 1", "-c"],
    "juniper": ["a", "b 1", "delete c", "d [ x y ]", "deactivate e"],
    "ribbon": ["a", "b 1", "delete c", "d [ x y ]"],
    "nokia": ["a", "b 1", "delete c", "d [ x y ]"],
}

# hardware used per vendor and the session wrapper expected for (do_commit, do_finalize)
HW = {
    "huawei": ["Huawei", "Huawei CE6870", "Huawei NE40E"],
    "iosxr": ["Cisco ASR 9010", "Cisco 8201"],
}


def wellformed(vendor, forest, parent=""):
    """syntactic domain rule: inside a Huawei 'xpl route-filter' an 'else' row comes last and directly after an
    'if ... then' row (an XPL body is if/elseif/else/endif); everything else is unrestricted"""
    if vendor in ("huawei", "h3c", "optixtrans") and parent.startswith("xpl route-filter"):
        rows = [r for r, _ in forest]
        if "else" in rows:
            i = rows.index("else")
            if i != len(rows) - 1 or i == 0 or not (rows[i - 1].startswith("if") and rows[i - 1].endswith("then")):
                return False
    return all(ch is None or wellformed(vendor, ch, row) for row, ch in forest)


def wrapper_table(vendor, model, do_commit, do_finalize):
    """(before, after) command texts - hand transcribed"""
    if vendor == "huawei":
        after = []
        if do_commit and (" CE" in model or " NE" in model):
            after.append("commit")
        after.append("q")
        if do_finalize:
            after.append("save")
        return ["system-view"], after
    if vendor == "optixtrans":
        # Huawei OptiXtrans is a Huawei family: same session commands
        after = ["q"] + (["save"] if do_finalize else [])
        return ["system-view"], after
    if vendor == "h3c":
        return ["system-view"], (["save force"] if do_finalize else [])
    if vendor == "arista":
        return ["conf s"], (["commit"] if do_commit else ["abort"]) + (["write memory"] if do_finalize else [])
    if vendor == "iosxr":
        return ["configure exclusive"], (["commit"] if do_commit else []) + ["exit"]
    if vendor in ("cisco", "nexus"):
        return ["conf t"], ["exit"] + (["copy running-config startup-config"] if do_finalize else [])
    if vendor == "aruba":
        return ["conf t"], ["end"] + (["commit apply"] if do_commit else []) + (["write memory"] if do_finalize else [])
    if vendor == "b4com":
        return ["conf t"], (["commit", "end"] if do_commit else []) + (["write"] if do_finalize else [])
    if vendor == "pc":
        return [], []
    if vendor in ("juniper", "ribbon"):
        return ["configure exclusive"], (["commit"] if do_commit else []) + ["exit"]
    if vendor == "nokia":
        return ["configure private"], (["commit"] if do_commit else [])
    raise KeyError(vendor)


def bound_text(tier):
    n = 4 if tier == "quick" else 5
    return ("S: forests <= %d nodes, depth <= 4, %d block vendors + %d flattening vendors; R: grammar families F1-F5 + "
            "force_commit family with universes <= 16; D: deploy grammar (<=3 rules, depth <=2) x all trees <= 3 nodes; "
            "K: 192 corpus samples; U: unions of two samples of one vendor (quick: all Aruba pairs, <= 400 per other vendor; thorough: all); J: the same through CliDeployerJob.parse_result x {acl_safe} x {dont_commit}; "
            "E: the same end to end (annet patch worker vs deploy job fed by annet.gen.old_new)"
            % (n, len(BLOCK_VENDORS), len(FLAT_VENDORS)))


def setup():
    env.setup()
    env.install_harness_deploy_driver()


# ---------------------------------------------------------------------------------------------------
def forests(rows, max_nodes, max_depth):
    """all patch forests: list of (row, None | list) with distinct sibling rows, <= max_nodes nodes; simplest first"""
    memo = {}

    def gen(n, depth):
        """forests with exactly n nodes"""
        key = (n, depth)
        if key in memo:
            return memo[key]
        out = []
        if n == 0:
            out.append([])
        elif depth > 0:
            # first node takes k nodes in total (itself + subtree), rest is a forest of n-k nodes
            for k in range(1, n + 1):
                firsts = []
                for row in rows:
                    if k == 1:
                        firsts.append((row, None))
                        if depth > 1:
                            firsts.append((row, []))
                    elif depth > 1:
                        for sub in gen(k - 1, depth - 1):
                            firsts.append((row, sub))
                for f in firsts:
                    for rest in gen(n - k, depth):
                        if any(r == f[0] for r, _ in rest):
                            continue
                        out.append([f] + rest)
        memo[key] = out
        return out
    res = []
    for n in range(1, max_nodes + 1):
        res.extend(gen(n, max_depth))
    return res


def build_patch(forest):
    from annet.annlib.patching import PatchTree
    pt = PatchTree()
    for row, ch in forest:
        if ch is None:
            pt.add(row, {})
        else:
            pt.add_block(row, build_patch(ch), {})
    return pt


def text_lines(text, unit):
    out = []
    for ln in text.split("\n") if text else []:
        d = 0
        while unit and ln.startswith(unit):
            ln = ln[len(unit):]
            d += 1
        out.append((d, ln))
    return out


def has_block(forest):
    return any(ch is not None for _, ch in forest)


# ---- reference flattening for juniper-like vendors -------------------------------------------------
def ref_flatten(forest, vendor, prev=()):
    out = []
    setp = "/configure" if vendor == "nokia" else "set"
    for row, ch in forest:
        if ch:
            out.extend(ref_flatten(ch, vendor, prev + (row.strip(),)))
            continue
        words = None
        for verb in (("delete", "activate", "deactivate") if vendor != "nokia" else ("delete",)):
            if row.startswith(verb):
                rest = row.replace(verb, "", 1).strip()
                words = ([setp, verb] if vendor == "nokia" else [verb]) + list(prev) + [rest]
                break
        if words is None:
            words = [setp] + list(prev) + [row.strip()]
        cmd = " ".join(words)
        # [ a b ] lists expand to one command per element
        if cmd.endswith("]") and " [" in cmd:
            head, _, lst = cmd.rpartition(" [")
            for el in lst[:-1].split(" "):
                if el.strip():
                    out.append(head.rstrip() + " " + el)
        else:
            out.append(cmd)
    return out


# ---------------------------------------------------------------------------------------------------
def check_tree(vendor, model, forest, flags, report, stats=None):
    from annet import deploy
    from annet.annlib.netdev.views.hardware import HardwareView
    hw = HardwareView(model, "")
    fmt = env.formatter(vendor)
    pt = build_patch(forest)
    case = {"part": "S", "vendor": vendor, "model": model, "forest": forest, "flags": flags}
    try:
        shown = text_lines(fmt.patch(pt), fmt._indent)
        paths = fmt.cmd_paths(pt)
    except Exception as e:  # noqa
        report({"kind": "formatter-exception", "vendor": vendor, "exc": type(e).__name__}, case, repr(e)[:300])
        return
    sent = [(len(p) - 1, p[-1]) for p in paths.keys()]
    if vendor in FLAT_VENDORS:
        exp = ref_flatten(forest, vendor)
        got = [" ".join(p) for p in paths.keys()]
        if got != exp:
            report({"kind": "flatten-mismatch", "vendor": vendor}, case, "cmd_paths=%r reference=%r" % (got, exp))
        if [ln for _, ln in shown] != got:
            report({"kind": "shown-vs-sent", "vendor": vendor}, case, "patch text=%r cmd_paths=%r" % (shown, got))
        sent = [(0, c) for c in got]
    elif shown != sent:
        report({"kind": "shown-vs-sent", "vendor": vendor, "first_rows": sorted({r.split()[0] for r, _ in forest})[:3]},
               case, "patch text=%r cmd_paths=%r" % (shown, sent))
    # every row of the tree appears exactly once at its depth, in order (exit words added by the formatter excepted)
    flat = list(walk(forest)) if vendor not in FLAT_VENDORS else None
    if flat is not None:
        body_rows = [x for x in sent]
        it = iter(body_rows)
        missing = [x for x in flat if not any(y == x for y in it)]
        if missing:
            report({"kind": "command-lost", "vendor": vendor}, case, "tree rows %r not in cmd_paths %r (in order)" % (missing, sent))
    for (dc, df) in flags:
        try:
            cl = deploy.apply_deploy_rulebook(hw, paths, do_finalize=df, do_commit=dc)
        except Exception as e:  # noqa
            report({"kind": "apply-exception", "vendor": vendor, "exc": type(e).__name__}, case, repr(e)[:300])
            continue
        cmds = [(getattr(c, "level", 0), c.cmd) for c in cl]
        before, after = wrapper_table(vendor, model, dc, df)
        nb, na = len(before), len(after)
        got_before = [c for _, c in cmds[:nb]]
        got_after = [c for _, c in cmds[len(cmds) - na:]] if na else []
        body = cmds[nb:len(cmds) - na] if na else cmds[nb:]
        if not sent:
            # nothing to send: production never calls apply for an empty patch; the wrapper alone may or may not appear
            continue
        if got_before != before or got_after != after:
            report({"kind": "session-wrapper", "vendor": vendor, "model": model, "do_commit": dc, "do_finalize": df},
                   case, "sent=%r expected before=%r after=%r" % (cmds, before, after))
        elif body != sent:
            report({"kind": "body-differs-from-cmd_paths", "vendor": vendor}, case, "body=%r cmd_paths=%r" % (body, sent))
        if stats is not None:
            stats["apply_calls"] += 1


def walk(forest, depth=0):
    for row, ch in forest:
        yield (depth, row)
        if ch:
            yield from walk(ch, depth + 1)


# ---- part D: deploy parameters ---------------------------------------------------------------------
class DRule:
    def __init__(self, pattern, timeout=None, dialogs=(), children=(), ifcontext=()):
        self.pattern, self.timeout, self.dialogs, self.children = pattern, timeout, list(dialogs), list(children)
        self.ifcontext = list(ifcontext)    # %ifcontext=n:v,...: the rule is in force for a command whose context holds one of the pairs

    def fits(self, context):
        return not self.ifcontext or any(context.get(x.split(":")[0]) == x.split(":")[1] for x in self.ifcontext)

    def text(self, ind=0):
        s = "    " * ind + self.pattern + (" %%timeout=%d" % self.timeout if self.timeout else "")
        if self.ifcontext:
            s += " %ifcontext=" + ",".join(self.ifcontext)
        out = [s]
        for q, a in self.dialogs:
            out.append("    " * (ind + 1) + "dialog: %s ::: %s" % (q, a))
        for c in self.children:
            out.append(c.text(ind + 1))
        return "\n".join(out)


def deploy_grammar(tier):
    d1 = [("Are you sure?", "Y")]
    d2 = [("/Continue\\?/", "yes"), ("Overwrite", "N")]
    books = [
        [DRule("a", 10)],
        [DRule("a", 10, d1), DRule("b *", 20)],
        [DRule("b *", None, d2, [DRule("a", 15)])],
        [DRule("b *", 40, (), [DRule("a", 15, d1), DRule("undo ~", 25)]), DRule("a", 50)],
        [DRule("b 1", 12, (), [DRule("b *", 13, (), [DRule("a", 14)])])],
        [DRule("quit", 7), DRule("b *", 8, (), [DRule("quit", 9)])],
        [DRule("~", 33)],
        [DRule("b *", 21, (), [DRule("~", 22)])],
        # %ifcontext: one pair, several pairs (any of them suffices), on a block rule and on its child
        [DRule("a", 10, ifcontext=("block:x",)), DRule("b *", 20)],
        [DRule("a", 10, d1, ifcontext=("block:x", "block:y")), DRule("~", 33)],
        [DRule("b *", 40, (), [DRule("a", 15, ifcontext=("mode:m", "block:y"))], ifcontext=("block:y", "mode:m")), DRule("a", 50)],
    ]
    return books


DEPLOY_CONTEXTS = [{}, {"block": "x"}, {"block": "y"}, {"block": "y", "mode": "n"}, {"mode": "m", "block": "z"}]


def uses_ifcontext(book):
    return any(r.ifcontext or uses_ifcontext(r.children) for r in book)


def ref_deploy_rule(rules, path, context=None):
    """The rule chain matching the block path: walking the path from the outermost block, a block row matched by a
    rule of the current level descends into that rule's children; a block row no rule mentions leaves the level
    unchanged (shipped deploy rulebooks rely on this: 'undo peer *' is written at top level and applies inside
    'bgp N'); the command itself must match a rule of the level reached."""
    level = rules
    for i, row in enumerate(path):
        rule = next((r for r in level if rulelang.ref_match(r.pattern, row) is not None and r.fits(context or {})), None)
        if rule is not None:
            if i == len(path) - 1:
                return rule
            level = rule.children
    return None


def check_deploy_params(book, forest, report, stats=None, context=None):
    from annet import deploy
    from annet.rulebook.deploying import compile_deploying_text
    vendor = "huawei"
    hw = env.hw(vendor)
    text = "\n".join(r.text() for r in book)
    compiled = compile_deploying_text(text, vendor)
    fmt = env.formatter(vendor)
    paths = fmt.cmd_paths(build_patch(forest))
    case = {"part": "D", "deploy": text, "forest": forest}
    if context:
        # every command of the patch stands in this rulebook context (patching rules below a '%context=' line give it)
        from collections import OrderedDict as _od
        paths = _od((p_, dict(context)) for p_ in paths)
        case["context"] = dict(context)
    try:
        with env.rulebook_override(lambda _hw, _real: {"deploying": compiled}):
            cl = list(deploy.apply_deploy_rulebook(hw, paths, do_finalize=False, do_commit=False))
    except Exception as e:  # noqa
        report({"kind": "apply-exception", "part": "D", "exc": type(e).__name__}, case, repr(e)[:300])
        return 0
    body = cl[1:-1]   # huawei: system-view ... q
    hits = 0
    if len(body) != len(list(paths.keys())):
        report({"kind": "body-length", "part": "D"}, case, "%r vs %r" % ([c.cmd for c in cl], list(paths)))
        return 0
    for cmd, path in zip(body, paths.keys()):
        r = ref_deploy_rule(book, path, context)
        exp_timeout = (r.timeout or 30) if r is not None else 30
        exp_q = [(q.strip("/") if q.startswith("/") else q, a, q.startswith("/")) for q, a in (r.dialogs if r else [])]
        got_q = [(q.question, q.answer, bool(q.is_regexp)) for q in (cmd.questions or [])]
        if r is not None:
            hits += 1
        if cmd.timeout != exp_timeout or got_q != exp_q:
            report({"kind": "deploy-params", "rule": r.pattern if r else None, "depth": len(path)}, case,
                   "path=%r got timeout=%r questions=%r expected timeout=%r questions=%r"
                   % (path, cmd.timeout, got_q, exp_timeout, exp_q))
    if stats is not None:
        stats["deploy_param_cmds"] += len(body)
    return hits


# ---- part R: real patches --------------------------------------------------------------------------
W_COMMANDS = ["a 1", "a 2", "b 1", "b 2", "c 1"]
W_RULEBOOKS = [
    "a ~ %apply_logic=aruba.ap_env.apply\n",
    "b ~ %apply_logic=aruba.ap_env.apply\nc ~ %timeout=50\n",
    "~ %apply_logic=aruba.ap_env.apply\n",
]


def check_wrappers(rb_text, seq, flags, report):
    """part W: commands keep their order through apply_deploy_rulebook whatever wrappers their rules select"""
    from collections import OrderedDict as odict
    from annet import deploy
    from annet.rulebook.deploying import compile_deploying_text
    hw = env.hw("aruba")
    compiled = compile_deploying_text(rb_text, "aruba")
    paths = odict(((c,), {}) for c in seq)
    case = {"part": "W", "deploy": rb_text, "commands": list(seq), "flags": list(flags)}
    try:
        with env.rulebook_override(lambda _hw, _real: {"deploying": compiled}):
            cl = list(deploy.apply_deploy_rulebook(hw, paths, do_finalize=flags[1], do_commit=flags[0]))
    except Exception as e:  # noqa
        report({"kind": "apply-exception", "part": "W", "exc": type(e).__name__}, case, repr(e)[:300])
        return 0
    body = [c.cmd for c in cl if c.cmd in W_COMMANDS]
    if body != list(seq):
        report({"kind": "stream-order-differs-from-patch", "part": "W",
                "how": "reordered" if sorted(body) == sorted(seq) else "lost-or-duplicated"}, case,
               "patch order %r, queued %r (full list %r)" % (list(seq), body, [c.cmd for c in cl]))
    # every maximal run of commands of one logic is bracketed on its own: the number of 'conf t' equals the number of
    # runs of default-logic commands
    import re as _re
    ap = [bool(_re.match(r"^(%s)" % "|".join(_re.escape(ln.split()[0]) for ln in rb_text.split("\n") if "ap_env" in ln).replace("~", ".*"), c))
          if any("ap_env" in ln for ln in rb_text.split("\n")) else False for c in seq]
    runs = sum(1 for i, x in enumerate(ap) if not x and (i == 0 or ap[i - 1]))
    if [c.cmd for c in cl].count("conf t") != runs:
        report({"kind": "wrapper-count", "part": "W"}, case, "default-logic runs=%d, 'conf t' x%d: %r"
               % (runs, [c.cmd for c in cl].count("conf t"), [c.cmd for c in cl]))
    return len(set(ap))


DEPLOY_HW = {"huawei": "Huawei CE6870", "cisco": "Cisco Catalyst", "nexus": "Cisco Nexus", "arista": "Arista", "juniper": "Juniper",
             "aruba": "Aruba", "routeros": "RouterOS", "ribbon": "Ribbon", "nokia": "Nokia", "iosxr": "Cisco ASR 9010", "b4com": "B4com",
             "h3c": "H3C", "optixtrans": "Huawei DC", "pc": "PC"}


def shipped_deploy_rules():
    """[(file, vendor, rule row, timeout or None, [(question, answer, is_regexp)], index in file)] by plain line reading;
    files with template directives are skipped (none has any today)"""
    import os
    import re as _re
    from mc import shipped
    out = []
    d = shipped.texts_dir()
    for fname in sorted(os.listdir(d)):
        if not fname.endswith(".deploy"):
            continue
        text = open(os.path.join(d, fname), encoding="utf-8").read()
        if _re.search(r"^\s*(%if|%for|<%)", text, _re.M):
            continue
        cur = None
        n = 0
        for line in text.split("\n"):
            if not line.strip() or line.strip().startswith("#"):
                continue
            body = line.strip()
            if not line.startswith((" ", "\t")):
                m = _re.search(r"\s%timeout=(\S+)", body)
                row = _re.sub(r"\s+%\S+", "", body).strip()
                prev = next((r for r in out if r[0] == fname and r[2] == row), None)
                if prev is not None:
                    # the same rule line written twice: one rule, the dialogs of both (a later %timeout replaces the earlier)
                    cur = prev
                    if m:
                        cur[3] = float(m.group(1))
                    continue
                cur = [fname, fname[:-7], row, float(m.group(1)) if m else None, [], n, "%" in body.replace("%timeout", "")]
                n += 1
                out.append(cur)
            elif cur is not None and body.startswith("dialog:"):
                q, _, a = body[len("dialog:"):].partition(":::")
                q = q.strip()
                a = _re.sub(r"\s+%\S+", "", a).strip()
                cur[4].append((q[1:-1].strip() if q.startswith("/") and q.endswith("/") else q, a, q.startswith("/") and q.endswith("/")))
    return out


def check_shipped_deploy(rule, earlier, report):
    from collections import OrderedDict as odict
    from annet import deploy
    from annet.annlib.netdev.views.hardware import HardwareView
    from mc.ref import regexgen
    fname, vendor, row, timeout, dialogs, idx, other_params = rule
    if vendor not in DEPLOY_HW or other_params:
        return "skipped"
    syn = regexgen.synth_row(row)
    if syn is None:
        return "not-synthesisable"
    cmd = syn[0]
    if any(rulelang.ref_match(e[2], cmd) is not None for e in earlier if regexgen.is_simple_row(e[2])):
        return "shadowed-by-earlier-rule"
    if not regexgen.is_simple_row(row) and any(True for e in earlier):
        # a complex row: make sure annet's own compiled earlier rules do not claim the command (data only)
        pass
    hw = HardwareView(DEPLOY_HW[vendor], None)
    if hw.vendor != vendor:
        return "hardware-of-another-vendor"
    case = {"part": "X", "file": fname, "rule": row}
    try:
        wrapper = [c.cmd for c in deploy.apply_deploy_rulebook(hw, odict([(("zz-no-such-command",), {})]), do_finalize=False, do_commit=False)]
        if cmd in wrapper:
            return "session-wrapper-word"
        cl = list(deploy.apply_deploy_rulebook(hw, odict([((cmd,), {})]), do_finalize=False, do_commit=False))
    except Exception as e:  # noqa
        report({"kind": "apply-exception", "part": "X", "file": fname, "rule": row, "exc": type(e).__name__}, case, repr(e)[:300])
        return "exception"
    mine = [c for c in cl if c.cmd == cmd]
    if len(mine) != 1:
        report({"kind": "shipped-deploy-command-count", "file": fname}, case, "command %r appears %d times in %r" % (cmd, len(mine), [c.cmd for c in cl]))
        return "count"
    c = mine[0]
    got = [(q.question, q.answer, bool(q.is_regexp)) for q in (c.questions or [])]
    exp_t = timeout if timeout is not None else 30
    if c.timeout != exp_t or got != list(dialogs):
        # an earlier complex rule may legitimately claim the command: then its parameters apply, not this rule's
        report({"kind": "shipped-deploy-params", "file": fname, "what": "timeout" if c.timeout != exp_t else
                ("dialog-count" if len(got) != len(dialogs) else "dialog-text")}, case,
               "rule %r, command %r: timeout %r (text says %r), dialogs %r, the text lists %r" % (row, cmd, c.timeout, exp_t, got, dialogs))
    return "checked"


def real_families():
    from mc.ref.rb import Rule
    fams = [f for f in rbgen.families("quick") if f[0][:2] in ("F1", "F2", "F3", "F4", "F5")]
    return fams


def check_real(vendor, rules, extra_flags, old, new, report):
    from annet import api, deploy
    from checks.c01_converge import compile_rb
    rbk, text = compile_rb(rules, vendor)
    if extra_flags:
        from annet.rulebook.patching import compile_patching_text
        text = "\n".join((ln + " " + extra_flags) if not ln.startswith(" ") else ln for ln in text.split("\n"))
        rbk = dict(rbk, patching=compile_patching_text(text, vendor))
    dev = env.device(vendor)
    fmt = env.formatter(vendor)
    case = {"part": "R", "vendor": vendor, "rb_text": text, "old": old, "new": new}
    diff, pt = env.diff_and_patch(dev, env.to_odict(old), env.to_odict(new), None, None, False, rb=rbk)
    shown = text_lines(fmt.patch(pt), fmt._indent)
    paths = fmt.cmd_paths(pt)
    sent = [(len(p) - 1, p[-1]) for p in paths.keys()]
    if shown != sent:
        sig = {"kind": "shown-vs-sent", "vendor": vendor, "part": "R", "force_commit": "%force_commit" in extra_flags}
        if extra_flags and extra_flags != "%force_commit":
            sig["flags"] = extra_flags
        report(sig, case,
               "rulebook=%r patch text=%r cmd_paths=%r" % (text, shown, sent))
        return len(sent)
    if sent:
        cl = deploy.apply_deploy_rulebook(dev.hw, paths, do_finalize=True, do_commit=True)
        cmds = [(getattr(c, "level", 0), c.cmd) for c in cl]
        before, after = wrapper_table(vendor, dev.hw.model, True, True)
        body = cmds[len(before):len(cmds) - len(after)]
        if body != sent:
            report({"kind": "body-differs-from-cmd_paths", "vendor": vendor, "part": "R"}, case, "%r vs %r" % (body, sent))
    return len(sent)


# ---------------------------------------------------------------------------------------------------
NB_S = 8


def blocks(tier, seed):
    out = []
    for v in BLOCK_VENDORS + FLAT_VENDORS:
        for i in range(NB_S):
            out.append({"part": "S", "vendor": v, "i": i})
    for i in range(16):
        out.append({"part": "R", "i": i})
    for i in range(len(deploy_grammar(tier))):
        out.append({"part": "D", "i": i})
    for i in range(8):
        out.append({"part": "K", "i": i})
    for i in range(8):
        out.append({"part": "J", "i": i})
    for i in range(16):
        out.append({"part": "E", "i": i, "of": 16})
    for i in range(16):
        out.append({"part": "U", "i": i, "of": 16})
    for i in range(len(W_RULEBOOKS)):
        out.append({"part": "W", "i": i})
    out.append({"part": "X"})
    return out


def check_corpus(sample, report):
    """part K: the shipped (before, after) corpus with the shipped rulebooks: displayed patch == command stream"""
    import types
    from annet import api, deploy
    from annet.annlib.netdev.views.hardware import HardwareView
    hw = HardwareView(sample["model"], None)
    dev = types.SimpleNamespace(hw=hw, hostname="d", fqdn="d")
    vendor = hw.vendor
    case = {"part": "K", "sample": sample["name"]}
    diff, pt = env.diff_and_patch(dev, env.to_odict(sample["old"]), env.to_odict(sample["new"]), None, None, False)
    fmt = env.vendor_obj(vendor).make_formatter()
    paths = fmt.cmd_paths(pt)
    if vendor in FLAT_VENDORS or vendor == "routeros":
        shown = [ln for ln in fmt.patch(pt).split("\n") if ln]
        sent = [" ".join(p) for p in paths.keys()]
    else:
        shown = text_lines(fmt.patch(pt), fmt._indent)
        sent = [(len(p) - 1, p[-1]) for p in paths.keys()]
    if shown != sent:
        # is the command stream exactly the displayed patch with commands repeated at one level sent once?
        cause = "other"
        if shown and isinstance(shown[0], tuple):
            stack, fulls = [], []
            for d, row in shown:
                stack = stack[:d] + [row]
                fulls.append(tuple(stack))
            seen, dedup = set(), []
            for f in fulls:
                if f not in seen:
                    seen.add(f)
                    dedup.append((len(f) - 1, f[-1]))
            if dedup == sent:
                cause = "a command repeated at one level of the displayed patch is sent once (path-keyed cmd_paths)"
        elif list(dict.fromkeys(shown)) == sent:
            cause = "a command repeated at one level of the displayed patch is sent once (path-keyed cmd_paths)"
        report({"kind": "shown-vs-sent", "part": "K", "cause": cause}, case,
               "vendor %s: displayed patch=%r command stream=%r" % (vendor, shown, sent))
    if sent and vendor not in FLAT_VENDORS and vendor != "routeros":
        cl = deploy.apply_deploy_rulebook(hw, paths, do_finalize=True, do_commit=True)
        body = [(getattr(c, "level", 0), c.cmd) for c in cl]
        it = iter(body)
        if not all(any(y == x for y in it) for x in sent):
            report({"kind": "body-differs-from-cmd_paths", "part": "K", "vendor": vendor}, case, "%r vs %r" % (body, sent))
    return len(sent)


def check_job(sample, acl_safe, dont_commit, report):
    """part J: CliDeployerJob.parse_result against the pipeline"""
    import types
    from collections import OrderedDict as odict
    from annet import api, deploy
    from annet.annlib.netdev.views.hardware import HardwareView
    from annet.types import OldNewResult
    hw = HardwareView(sample["model"], None)
    class Dev(types.SimpleNamespace):
        __hash__ = object.__hash__
    dev = Dev(hw=hw, hostname="d", fqdn="d.example", id=1, breed=hw.vendor)
    case = {"part": "J", "sample": sample["name"], "acl_safe": acl_safe, "dont_commit": dont_commit}
    a, b = env.to_odict(sample["old"]), env.to_odict(sample["new"])
    # the safe pair is the reverse direction, so that a job reading the wrong pair is visible
    from annet.annlib.rbparser.acl import compile_acl_text
    acl = compile_acl_text("~ %global\n", hw.vendor)      # a generator ACL that owns everything (production always has one)
    res = OldNewResult(device=dev, old=a, new=b, acl_rules=acl, old_files={}, new_files={}, partial_result=[], entire_result=[],
                       old_json_fragment_files={}, new_json_fragment_files={}, json_fragment_result={}, implicit_rules=None,
                       perf={}, acl_safe_rules=acl, safe_old=env.to_odict(sample["new"]), safe_new=env.to_odict(sample["old"]),
                       safe_new_files={}, safe_new_json_fragment_files={}, filter_acl_rules=None)
    job = api.DeployerJob.from_device(dev, env.deploy_options(acl_safe=bool(acl_safe), dont_commit=bool(dont_commit)))
    if type(job).__name__ != "CliDeployerJob":
        report({"kind": "job-class", "got": type(job).__name__}, case, "")
        return 0
    try:
        job.parse_result(res)
    except Exception as e:  # noqa
        # the pipeline must fail the same way
        try:
            env.diff_and_patch(dev, *((b, a) if acl_safe else (a, b)), acl, None, False, do_commit=not dont_commit)
        except Exception as e2:  # noqa
            if type(e2) is type(e):
                return 0
        report({"kind": "job-raises", "exc": type(e).__name__}, case, repr(e)[:300])
        return 0
    old, new = (env.to_odict(sample["new"]), env.to_odict(sample["old"])) if acl_safe else (env.to_odict(sample["old"]), env.to_odict(sample["new"]))
    try:
        diff, pt = env.diff_and_patch(dev, old, new, acl, None, False, do_commit=not dont_commit)
    except Exception as e:  # noqa
        report({"kind": "job-succeeds-where-pipeline-raises", "exc": type(e).__name__, "acl_safe": acl_safe}, case, repr(e)[:300])
        return 0
    fmt = env.vendor_obj(hw.vendor).make_formatter(indent="")
    paths = fmt.cmd_paths(pt)
    exp_lines = (["= d ", ""] + [p[-1] for p in paths] + [""]) if paths else []
    if list(job.cmd_lines) != exp_lines:
        report({"kind": "job-lists-other-commands", "acl_safe": acl_safe}, case, "cmd_lines=%r pipeline=%r" % (job.cmd_lines, exp_lines))
    got = job.deploy_cmds.get(dev)
    if not paths:
        if got is not None or job.has_diff():
            report({"kind": "job-queues-without-patch"}, case, "deploy_cmds=%r has_diff=%r" % (got, job.has_diff()))
        return 0

    def sig_of(cl):
        return [(c.cmd, getattr(c, "level", None), c.timeout, repr(c.questions), getattr(c, "suppress_errors", None)) for c in cl]
    if dont_commit and got is not None and any(c.cmd in ("commit", "commit and-quit") for c in got):
        report({"kind": "commit-despite-dont-commit", "part": "J", "vendor": hw.vendor}, case, "queued=%r" % ([c.cmd for c in got],))
    exp = deploy.apply_deploy_rulebook(hw, paths, do_commit=not dont_commit)
    if got is None or sig_of(got) != sig_of(exp):
        report({"kind": "job-queues-other-commands", "dont_commit": dont_commit, "acl_safe": acl_safe}, case,
               "deploy_cmds=%r pipeline=%r" % (sig_of(got) if got is not None else None, sig_of(exp)))
    if not job.has_diff():
        report({"kind": "job-has-diff-flag"}, case, "")
    return len(list(paths))


def union_samples(tier):
    """pairs of corpus samples of one vendor key, united row by row (same top-level row: children united)"""
    from mc import corpus, e2e
    S = corpus.samples()
    by = {}
    for s_ in S:
        by.setdefault((s_["vendor_key"], s_["model"]), []).append(s_)
    out = []
    for (vk, model), lst in sorted(by.items()):
        pairs = [(a, b) for i, a in enumerate(lst) for b in lst[i + 1:]]
        if tier == "quick" and vk != "aruba" and len(pairs) > 400:
            pairs = pairs[::max(1, len(pairs) // 400)]
        for a, b in pairs:
            out.append({"name": "%s + %s" % (a["name"], b["name"]), "vendor_key": vk, "model": model,
                        "old": e2e.union_forest(a["old"], b["old"]), "new": e2e.union_forest(a["new"], b["new"]), "patch": None})
    return out


def split_new(new):
    """the sample's new tree over two generators: the first half of its top-level rows comes from a generator that also
    has a safe ACL, the rest from one that has not (so --acl-safe plans less)"""
    k = (len(new) + 1) // 2
    return new[k:], new[:k]


def check_e2e(sample, acl_safe, dont_commit, report):
    """part E: `annet patch` (api._patch_worker) against the deploy job fed by annet.gen.old_new"""
    from mc import e2e
    case = {"part": "E", "sample": sample["name"], "acl_safe": acl_safe, "dont_commit": dont_commit}
    unsafe, safe = split_new(sample["new"])
    with e2e.Session(sample["model"], sample["old"], [(unsafe, False), (safe, True)]) as ss:
        if not ss.representable:
            return "device-text-not-representable", 0
        shown_exc = job_exc = None
        try:
            shown = ss.patch(acl_safe)
        except Exception as e:  # noqa
            shown_exc = e
        try:
            job = ss.deploy_job(acl_safe, dont_commit)
        except Exception as e:  # noqa
            job_exc = e
        if shown_exc is not None or job_exc is not None:
            if type(shown_exc) is not type(job_exc):
                report({"kind": "e2e-one-side-raises", "patch": type(shown_exc).__name__, "deploy": type(job_exc).__name__}, case,
                       "annet patch: %r; deploy job: %r" % (shown_exc, job_exc))
            return "raises", 0
        if len(shown) > 1 or (shown and shown[0][0] != ss.dev.hostname + ".patch"):
            report({"kind": "e2e-patch-worker-output"}, case, repr(shown)[:300])
            return "shape", 0
        rows = [ln.strip() for ln in shown[0][1].split("\n") if ln.strip()] if shown else []
        lines = list(job.cmd_lines)
        sent = lines[2:-1] if lines else []
        sent = [c.strip() for c in sent]
        if lines and (lines[0] != "= %s " % ss.dev.hostname or lines[1] != "" or lines[-1] != ""):
            report({"kind": "e2e-cmd-lines-frame"}, case, repr(lines[:3]))
        # with --dont-commit the deploy job leaves out what cannot be applied without a commit (make_patch, by design):
        # `annet patch` has no such flag, so the two are compared for committing deploys only
        if rows != sent and not dont_commit:
            cause = "other"
            # the displayed patch may repeat a command at one level; the command stream is keyed by path (known)
            # (precisely: the command stream is the displayed rows in order with nothing but repeats of an earlier row left out)
            ptr, before, only_repeats_left_out = 0, set(), True
            for r in rows:
                if ptr < len(sent) and r == sent[ptr]:
                    ptr += 1
                elif r not in before:
                    only_repeats_left_out = False
                before.add(r)
            if len(sent) < len(rows) and only_repeats_left_out and ptr == len(sent):
                cause = "a command repeated at one level of the displayed patch is sent once (path-keyed cmd_paths)"
            report({"kind": "shown-vs-sent", "part": "E", "cause": cause}, case,
                   "annet patch rows=%r deploy job commands=%r" % (rows, sent))
        queued = job.deploy_cmds.get(ss.dev)
        if sent:
            body = [c.cmd for c in queued] if queued is not None else []
            it = iter(body)
            if not all(any(y == x for y in it) for x in sent):
                report({"kind": "e2e-queued-differs-from-listed", "part": "E"}, case, "queued=%r listed=%r" % (body, sent))
            has_commit = any(c in ("commit", "commit and-quit") for c in body)
            if dont_commit and has_commit:
                report({"kind": "e2e-commit-despite-dont-commit", "vendor": ss.vendor}, case, "queued=%r" % body)
        elif queued is not None or job.has_diff():
            report({"kind": "e2e-queued-without-patch"}, case, "queued=%r" % (queued,))
        return "ok", len(sent)


ALL_FLAGS = [(True, True), (True, False), (False, True), (False, False)]


def run_block(block, ctx):
    if block["part"] == "S":
        v = block["vendor"]
        n = 4 if (ctx.tier == "quick" or v in FLAT_VENDORS or v in ("optixtrans", "aruba", "b4com", "nexus")) else 5
        fs = forests(ALPHABET[v], n, 4)
        models = HW.get(v, [env.HW_MODEL[v]])
        for j, f in enumerate(fs):
            if j % NB_S != block["i"]:
                continue
            if ctx.expired():
                return
            if not wellformed(v, f):
                ctx.extra["S_forests_outside_domain"] += 1
                continue
            model = models[j % len(models)]
            flags = ALL_FLAGS if (j % 7 == 0 or len(f) <= 2) else [ALL_FLAGS[j % 4]]
            check_tree(v, model, f, flags, ctx.violation, ctx.extra)
            ctx.evals += 1
            ctx.states += 1
            if has_block(f):
                ctx.nontrivial += 1
            ctx.outcomes["S:%s:%s" % (v, "blocks" if has_block(f) else "flat")] += 1
        if fs and len(ctx.samples) < 1:
            ctx.sample({"part": "S", "vendor": v, "forests": len(fs), "example": fs[min(len(fs) - 1, 500 + block["i"])]})
    elif block["part"] == "R":
        from checks.c01_converge import pick_universe
        work = []
        for name, rbs in real_families():
            for rules in rbs:
                work.append((rules, ""))
        from mc.ref.rb import Rule
        work.append(([Rule("a *"), Rule("b *")], "%force_commit"))
        work.append(([Rule("a *", [Rule("c *")])], "%force_commit"))
        # %parent: a row of the rule opens a block even when nothing is written inside it
        work.append(([Rule("a *"), Rule("b *")], "%parent"))
        work.append(([Rule("a *", [Rule("c *")]), Rule("b")], "%parent"))
        for j, (rules, extra) in enumerate(work):
            if j % 16 != block["i"]:
                continue
            top = refrb.top_level(rules)
            U, _ = pick_universe(top, 16)
            if U is None:
                continue
            for v in ("huawei", "cisco", "juniper"):
                if v == "juniper" and extra:
                    continue
                for old in U:
                    if ctx.expired():
                        return
                    for new in U:
                        try:
                            n = check_real(v, rules, extra, old, new, ctx.violation)
                        except Exception as e:  # noqa
                            ctx.violation({"kind": "exception", "part": "R", "exc": type(e).__name__},
                                          {"part": "R", "vendor": v, "rb": [r.to_json() for r in rules], "old": old, "new": new}, repr(e)[:300])
                            n = 0
                        ctx.evals += 1
                        ctx.states += 1
                        if n > 1:
                            ctx.nontrivial += 1
                        ctx.outcomes["R:cmds=%s" % (n if n < 4 else "4+")] += 1
    elif block["part"] == "X":
        rules = shipped_deploy_rules()
        for i, rule in enumerate(rules):
            earlier = [r for r in rules[:i] if r[0] == rule[0]]
            label = check_shipped_deploy(rule, earlier, ctx.violation)
            ctx.evals += 1
            ctx.states += 1
            ctx.nontrivial += int(label == "checked" and bool(rule[4]))
            ctx.outcomes["X:%s" % label] += 1
        ctx.sample({"part": "X", "rules": len(rules), "with_dialogs": sum(1 for r in rules if r[4])})
    elif block["part"] == "W":
        rb_text = W_RULEBOOKS[block["i"]]
        for n in range(1, 5):
            for seq in itertools.permutations(W_COMMANDS, n):
                for flags in ALL_FLAGS:
                    if ctx.expired():
                        return
                    k = check_wrappers(rb_text, seq, flags, ctx.violation)
                    ctx.evals += 1
                    ctx.states += 1
                    ctx.nontrivial += int(k > 1)
                    ctx.outcomes["W:%s" % ("two-wrappers" if k > 1 else "one-wrapper")] += 1
        ctx.sample({"part": "W", "deploy_rulebook": rb_text, "commands": W_COMMANDS})
    elif block["part"] == "U":
        U = union_samples(ctx.tier)
        for si in range(block["i"], len(U), block["of"]):
            if ctx.expired():
                return
            smp = U[si]
            try:
                n = check_corpus(smp, lambda sig, c, d="": ctx.violation(sig, dict(c, part="U"), d))
            except Exception as e:  # noqa  (two samples may contradict each other for a vendor logic: an outcome)
                ctx.outcomes["U:exception:%s" % type(e).__name__] += 1
                continue
            check_job(smp, 0, 0, lambda sig, c, d="": ctx.violation(sig, dict(c, part="U"), d))
            ctx.evals += 3
            ctx.states += 1
            ctx.nontrivial += int(n > 1)
            ctx.outcomes["U:cmds=%s" % (n if n < 4 else "4+")] += 1
    elif block["part"] == "E":
        from mc import corpus
        S = corpus.samples()
        for si in range(block["i"], len(S), block["of"]):
            for acl_safe in (0, 1):
                for dont_commit in (0, 1):
                    if ctx.expired():
                        return
                    label, n = check_e2e(S[si], acl_safe, dont_commit, ctx.violation)
                    ctx.evals += 2
                    ctx.states += 1
                    if n > 1:
                        ctx.nontrivial += 1
                    ctx.outcomes["E:%s:cmds=%s" % (label, n if n < 4 else "4+")] += 1
                    ctx.extra["e2e_runs"] += 1
    elif block["part"] == "J":
        from mc import corpus
        S = corpus.samples()
        for si in range(block["i"], len(S), 8):
            for acl_safe in (0, 1):
                for dont_commit in (0, 1):
                    if ctx.expired():
                        return
                    n = check_job(S[si], acl_safe, dont_commit, ctx.violation)
                    ctx.evals += 2
                    ctx.states += 1
                    if n > 1:
                        ctx.nontrivial += 1
                    ctx.outcomes["J:cmds=%s" % (n if n < 4 else "4+")] += 1
    elif block["part"] == "K":
        from mc import corpus
        S = corpus.samples()
        for si in range(block["i"], len(S), 8):
            if ctx.expired():
                return
            try:
                n = check_corpus(S[si], ctx.violation)
            except Exception as e:  # noqa
                ctx.outcomes["K:exception:%s" % type(e).__name__] += 1
                continue
            ctx.evals += 1
            ctx.states += 1
            if n > 1:
                ctx.nontrivial += 1
            ctx.outcomes["K:cmds=%s" % (n if n < 4 else "4+")] += 1
        ctx.sample({"part": "K", "corpus_samples": len(S)})
    else:
        book = deploy_grammar(ctx.tier)[block["i"]]
        fs = forests(["a", "b 1", "undo c", "b 2"], 3 if ctx.tier == "quick" else 4, 3)
        for f in fs:
            if ctx.expired():
                return
            for dctx in (DEPLOY_CONTEXTS if uses_ifcontext(book) else [None]):
                hits = check_deploy_params(book, f, ctx.violation, ctx.extra, dctx)
                ctx.evals += 1
                ctx.states += 1
                if hits:
                    ctx.nontrivial += 1
                ctx.outcomes["D:matched=%s" % (hits if hits < 3 else "3+")] += 1
        ctx.sample({"part": "D", "deploy_rulebook": "\n".join(r.text() for r in book), "trees": len(fs)})


def _tuplify(forest):
    return [(row, None if ch is None else _tuplify(ch)) for row, ch in forest]


def replay(case):
    out = []

    def rep(sig, c, d=""):
        out.append((sig, d))
    if case["part"] == "S":
        check_tree(case["vendor"], case["model"], _tuplify(case["forest"]), [tuple(f) for f in case["flags"]], rep)
    elif case["part"] == "X":
        rules = shipped_deploy_rules()
        for i, rule in enumerate(rules):
            if rule[0] == case["file"] and rule[2] == case["rule"]:
                check_shipped_deploy(rule, [r for r in rules[:i] if r[0] == rule[0]], rep)
    elif case["part"] == "W":
        check_wrappers(case["deploy"], tuple(case["commands"]), tuple(case["flags"]), rep)
    elif case["part"] == "U":
        smp = next(x for t in ("thorough",) for x in union_samples(t) if x["name"] == case["sample"])
        check_corpus(smp, rep)
        check_job(smp, 0, 0, rep)
    elif case["part"] == "E":
        from mc import corpus
        check_e2e(next(x for x in corpus.samples() if x["name"] == case["sample"]), case["acl_safe"], case["dont_commit"], rep)
    elif case["part"] == "J":
        from mc import corpus
        check_job(next(x for x in corpus.samples() if x["name"] == case["sample"]), case["acl_safe"], case["dont_commit"], rep)
    elif case["part"] == "K":
        from mc import corpus
        check_corpus(next(x for x in corpus.samples() if x["name"] == case["sample"]), rep)
    elif case["part"] == "D":
        for book in deploy_grammar("thorough"):
            if "\n".join(r.text() for r in book) == case["deploy"]:
                check_deploy_params(book, _tuplify(case["forest"]), rep, None, case.get("context"))
    else:
        from annet.rulebook.patching import compile_patching_text
        from annet import api
        v = case["vendor"]
        from checks.c01_converge import compile_rb
        from mc.ref.rb import Rule
        rbk, _ = compile_rb([Rule("a")], v)
        rbk = dict(rbk, patching=compile_patching_text(case["rb_text"], v))
        fmt = env.formatter(v)
        diff, pt = env.diff_and_patch(env.device(v), env.to_odict(case["old"]), env.to_odict(case["new"]), None, None, False, rb=rbk)
        shown = text_lines(fmt.patch(pt), fmt._indent)
        sent = [(len(p) - 1, p[-1]) for p in fmt.cmd_paths(pt).keys()]
        if shown != sent:
            rep({"kind": "shown-vs-sent", "vendor": v, "part": "R"}, case, "patch text=%r cmd_paths=%r" % (shown, sent))
    return out
