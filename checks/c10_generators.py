"""C10 - generators are confined to their ACL, own lines exclusively, and merge by union.

Generator *programs* (ASTs over yield / tuple yield / multi-line yield / block / block_if / multiblock) are turned into
real PartialGenerator subclasses whose run_huawei executes them with the real self.block()/block_if()/multiblock();
sets of 1-3 such generators, each with an ACL of a small grammar, go through annet.gen._old_new_per_device with
stub ctx/args/device/storage (config="empty", ACL on, exclusive on).
Oracle: a reference interpreter gives the list of yielded paths; GeneratorError iff some path is uncovered by *that*
generator's own ACL; AclNotExclusiveError iff for some yielded row >= 2 generators have a deletable rule matching it;
otherwise result.new == union of yielded paths (first-seen order), nothing else.
"""
from __future__ import annotations

import itertools
import types

from mc import env
from mc.ref import acl as refacl
from mc.ref.acl import ARule

PID = "C10"
ENGINE = "E1 bounded-exhaustive enumeration of generator programs x per-generator ACLs through the real _old_new_per_device"
RULE = ("a case is an ordered set of 1-3 (program, ACL) pairs; programs are all ASTs up to the node bound over rows "
        "{a, b x, c, d 1}; distinct by construction; non-trivial = at least one block context and (an error outcome, or a "
        "result with >= 2 rows)")
ASSUMPTIONS = [
    "reference interpreter of programs (this file) and reference ACL cover/exclusivity (mc/ref/acl.py)",
    "stubbed OldNewDeviceContext: config='empty' (the InitialConfig generator yields nothing for the stub hardware), no "
    "implicit rules, no filter ACL; storage stub only provides flush_perf()",
    "two generators sharing a parent block must both mark it cant_delete, otherwise the shared parent itself is a conflict",
]
BUDGET = {"quick": 240, "thorough": 1500}
PREFIX = "undo"

ROWS = ["a", "b x", "c", "d 1"]     # block heads add: "d 0" (numeric zero token)


# ---- programs --------------------------------------------------------------------------------------
def programs(max_nodes, max_depth):
    """all ASTs (lists of nodes) with <= max_nodes nodes; node kinds:
       ("y", row) ("yt", [words]) ("ytext", [rows]) ("block", [tokens], body) ("block0"/"block4": block(indent=""/4 blanks)) ("block_if", [tokens|None], body)
       ("multi", [[tokens],[tokens]], body)"""
    leaves = [("y", r) for r in ROWS] + [("yt", ["b", "x"]), ("yt", ["d", 1]), ("ytext", ["a", "c"])]
    heads = [("block", ["a"]), ("block", ["b", "x"]), ("block_if", ["a"]), ("block_if", [None]), ("block_if", ["d", ""]),
             ("block_if", ["d", 0]),
             ("multi", [["a"], ["b", "x"]]), ("multi", []),
             # block(..., indent=...): a zero-width block (its rows stand beside its header, what follows it is still inside
             # the enclosing block) and a block indented by four blanks
             ("block0", ["a"]), ("block4", ["b", "x"])]
    memo = {}

    def gen(n, depth):
        key = (n, depth)
        if key in memo:
            return memo[key]
        out = []
        if n == 0:
            out.append([])
        else:
            for k in range(1, n + 1):
                firsts = []
                if k == 1:
                    firsts.extend(leaves)
                if depth > 1:
                    for h in heads:
                        for body in gen(k - 1, depth - 1):
                            firsts.append(h + (body,))
                for f in firsts:
                    for rest in gen(n - k, depth):
                        out.append([f] + rest)
        memo[key] = out
        return out
    res = []
    for n in range(1, max_nodes + 1):
        res.extend(gen(n, max_depth))
    return res


def interpret(prog, path=()):
    """reference: the list of row paths the program puts into the config, in order"""
    out = []
    for node in prog:
        k = node[0]
        if k == "y":
            out.append(path + (node[1],))
        elif k == "yt":
            out.append(path + (" ".join(str(w) for w in node[1]),))
        elif k == "ytext":
            for r in node[1]:
                out.append(path + (r,))
        elif k in ("block", "block4"):
            row = " ".join(str(t) for t in node[1])
            out.append(path + (row,))
            out.extend(interpret(node[2], path + (row,)))
        elif k == "block0":
            out.append(path + (" ".join(str(t) for t in node[1]),))
            out.extend(interpret(node[2], path))
        elif k == "block_if":
            toks = node[1]
            if None in toks or "" in toks:
                out.extend(interpret(node[2], path))
            else:
                row = " ".join(str(t) for t in toks)
                out.append(path + (row,))
                out.extend(interpret(node[2], path + (row,)))
        elif k == "multi":
            p = path
            for toks in node[1]:
                row = " ".join(str(t) for t in toks)
                p = p + (row,)
                out.append(p)
            out.extend(interpret(node[2], p))
    return out


def tree_of(paths):
    root = []
    for p in paths:
        cur = root
        for row in p:
            nxt = next((ch for r, ch in cur if r == row), None)
            if nxt is None:
                nxt = []
                cur.append([row, nxt])
            cur = nxt
    return root


def has_block(prog):
    return any(n[0] in ("block", "block_if", "multi", "block0", "block4") for n in prog)


# ---- ACLs ------------------------------------------------------------------------------------------
def acl_list():
    return [
        ("all", lambda: [ARule("~", glob=True)]),
        ("a-block", lambda: [ARule("a", [ARule("c"), ARule("b x", [ARule("c")])], cant_delete=True), ARule("c")]),
        ("a-block-del", lambda: [ARule("a", [ARule("c")])]),
        ("a-any", lambda: [ARule("a", [ARule("~", glob=True)], cant_delete=True)]),
        ("b-only", lambda: [ARule("b *", [ARule("a", [ARule("c")], cant_delete=True), ARule("c")], cant_delete=True)]),
        ("leafs", lambda: [ARule("a", cant_delete=True), ARule("c"), ARule("d *")]),
        ("leafs-cd", lambda: [ARule("a", cant_delete=True), ARule("c", cant_delete=True), ARule("d *", cant_delete=True)]),
        ("empty", lambda: []),
        # one generator with two rules matching the row 'a': a protected specific rule and a deletable catch-all
        # (a generator may delete a row when ANY of its matching rules allows it)
        ("a-cd+any", lambda: [ARule("a", [ARule("c")], cant_delete=True), ARule("~", [ARule("c")])]),
        # one row ('b x') matched by three differently spelled rules ranked local (literal) > %global > local (catch-all):
        # the child rules of BOTH local rules apply inside the block, whatever stands between them in the ranking
        ("ovl3", lambda: [ARule("b x", [ARule("c")]), ARule("b *", glob=True), ARule("~", [ARule("a")])]),
        ("ovl-lit+glob", lambda: [ARule("b x", [ARule("c")]), ARule("b *", glob=True)]),
        ("ovl-any", lambda: [ARule("~", [ARule("a")])]),
        ("ovl-any-c", lambda: [ARule("~", [ARule("c")])]),
    ]


# ---- harness ---------------------------------------------------------------------------------------
class Storage:
    def flush_perf(self):
        return {}


class Dev:
    def is_pc(self):
        return False


_dev = None
_classes = {}


def device():
    global _dev
    if _dev is None:
        d = Dev()
        d.__dict__.update(env.device("huawei").__dict__)
        d.storage = Storage()
        d.hw = env.HwVendorCached(d.hw)
        d.tags = []
        _dev = d
    return _dev


def make_gen(idx, prog, acl_text):
    from annet.generators import PartialGenerator

    def run_nodes(self, nodes):
        for node in nodes:
            k = node[0]
            if k == "y":
                yield node[1]
            elif k == "yt":
                yield tuple(node[1])
            elif k == "ytext":
                yield "\n".join(node[1])
            elif k == "block":
                with self.block(*node[1]):
                    yield from run_nodes(self, node[2])
            elif k in ("block0", "block4"):
                with self.block(*node[1], indent="" if k == "block0" else "    "):
                    yield from run_nodes(self, node[2])
            elif k == "block_if":
                with self.block_if(*node[1]):
                    yield from run_nodes(self, node[2])
            elif k == "multi":
                with self.multiblock(*node[1]):
                    yield from run_nodes(self, node[2])
    name = "ProgGen%d" % idx
    cls = _classes.get(name)
    if cls is None:
        cls = _classes[name] = type(name, (PartialGenerator,), {})
    g = cls(Storage())
    g.acl_huawei = lambda dev: acl_text
    g.run_huawei = lambda dev: run_nodes(g, prog)
    return g


def run_real(gens_spec, annotate=False):
    """gens_spec: [(prog, acl_text)] -> ("ok", tree) | ("generator-error", msg) | ("not-exclusive", msg) | ("other", repr);
    annotate: as `annet gen --annotate` runs the generators (rows carry 'module:line' notes, stripped before comparing)"""
    from annet import gen as ann_gen
    from annet.generators import GeneratorError
    from annet.annlib.patching import AclNotExclusiveError
    dev = device()
    gens = [make_gen(i, p, a) for i, (p, a) in enumerate(gens_spec)]
    args = types.SimpleNamespace(no_acl=False, acl_safe=False, no_acl_exclusive=False, profile=False,
                                 fail_on_empty_config=False, generators_context=None, filter_acl=None, filter_ifaces=None,
                                 filter_peers=None, filter_policies=None, required_packages_check=False)
    dg = ann_gen.DeviceGenerators(partial={dev: gens}, ref={dev: []})
    ctx = ann_gen.OldNewDeviceContext(
        config="empty", args=args, downloaded_files={}, failed_files={}, running={}, failed_running={}, no_new=False,
        stdin=None, add_annotations=bool(annotate), add_implicit=False, do_files_download=False, gens=dg, fetched_packages={},
        failed_packages={}, device_count=1, do_print_perf=False)
    try:
        r = env.call_private(ann_gen, "_old_new_per_device", ctx, dev, None)
    except GeneratorError as e:
        cause = e.__cause__
        return ("generator-error", "%s: %s" % (type(cause).__name__, cause))
    except AclNotExclusiveError as e:
        return ("not-exclusive", str(e))
    except Exception as e:  # noqa
        from mc import core
        if core.raised_in_harness(e):
            raise           # the stub call does not fit this tree's private parameter lists: not decided, not a finding
        return ("other", "%s: %s" % (type(e).__name__, e))
    if r.err:
        return ("other", "err=%r" % (r.err,))
    if annotate:
        from annet.annlib.lib import strip_annotation

        def strip(t):
            # the same row yielded by two generators carries two different notes: without the notes it is one row
            out, idx = [], {}
            for row, ch in t:
                row = strip_annotation(row)
                if row in idx:
                    out[idx[row]][1] = strip([[r2, c2] for r2, c2 in out[idx[row]][1]] + ch)
                else:
                    idx[row] = len(out)
                    out.append([row, strip(ch)])
            return out
        return ("ok", strip(env.tree_to_list(r.new)))
    return ("ok", env.tree_to_list(r.new))


def ref_outcome(specs):
    """specs: [(prog, [ARule])]"""
    trees = []
    for i, (prog, rules) in enumerate(specs):
        t = tree_of(interpret(prog))
        lvl = refacl.top(refacl.merge([("ProgGen%d" % i, rules)]))
        unc = refacl.first_uncovered(lvl, t, PREFIX)
        if unc is not None:
            return ("generator-error", unc)
        trees.append(t)
    merged_lvl = refacl.top(refacl.merge([("ProgGen%d" % i, rules) for i, (_, rules) in enumerate(specs)]))
    union = []
    for t in trees:
        union = refacl.union(union, t)

    def excl(level, cfg, path=()):
        for row, ch in cfg:
            dels = refacl.deletable_generators(level, row, PREFIX)
            if len(dels) > 1:
                return path + (row,), dels
            g = refacl.govern(level, row, PREFIX)
            if g is None:
                continue
            r = excl(g[2], ch, path + (row,))
            if r:
                return r
        return None
    e = excl(merged_lvl, union)
    if e:
        return ("not-exclusive", e)
    return ("ok", refacl.ref_filter(merged_lvl, union, PREFIX))


BASE_INDENT = {"ovl3": 8, "ovl-lit+glob": 12, "ovl-any": 4, "ovl-any-c": 8, "all": 8, "a-block": 12, "a-block-del": 8, "a-any": 4, "b-only": 12, "leafs": 8, "leafs-cd": 12, "empty": 0, "a-cd+any": 8}


def indent_text(text, n):
    return "\n" + "\n".join(" " * n + ln for ln in text.split("\n")) + "\n" + " " * max(0, n - 4)


def judge(specs, report):
    """specs: [(prog, acl_name)]"""
    acls = dict(acl_list())
    rs = [(p, acls[a]()) for p, a in specs]
    # generators return their ACL as an indented triple-quoted literal; the base indentation differs between
    # generators (method level, inside an `if`, ...) and must not matter
    real = run_real([(p, indent_text(refacl.text(r), BASE_INDENT.get(a, 8)) + "\n") for (p, r), (_, a) in zip(rs, specs)])
    ref = ref_outcome(rs)
    case = {"specs": [[p, a] for p, a in specs]}
    if real[0] != ref[0]:
        report({"kind": "outcome", "real": real[0], "reference": ref[0], "n_gens": len(specs)}, case,
               "real=%r reference=%r" % (real, ref))
    elif real[0] == "ok" and real[1] != ref[1]:
        report({"kind": "config-differs", "n_gens": len(specs)}, case, "real=%r reference=%r" % (real[1], ref[1]))
    elif real[0] == "generator-error" and ref[1][-1] not in real[1]:
        report({"kind": "error-names-wrong-row"}, case, "real=%r reference uncovered=%r" % (real, ref[1]))
    # the same run as `annet gen --annotate` makes it: the notes aside, nothing may change
    if len(specs) <= 2:
        noted = run_real([(p, indent_text(refacl.text(r), BASE_INDENT.get(a, 8)) + "\n") for (p, r), (_, a) in zip(rs, specs)], annotate=True)
        # (with notes two yields of one row are two different rows until the notes are taken off, so the ORDER in which
        #  merged rows come out may differ from the plain run; what must agree is which rows stand under which path)
        if noted[0] != real[0] or (real[0] == "ok" and unordered_tree(noted[1]) != unordered_tree(real[1])):
            report({"kind": "annotate-changes-result", "n_gens": len(specs)}, case, "plain=%r with --annotate=%r" % (real, noted))
    return real, ref


# ---------------------------------------------------------------------------------------------------
def bound_text(tier):
    if tier == "quick":
        return "1 generator: all programs <= 3 nodes x 9 ACLs; 2 generators: all program pairs (<=2,<=1) and (<=1,<=2) nodes x 20 ACL pairs; 3 generators: programs <= 1 node x 8 ACL triples"
    return "1 generator: all programs <= 4 nodes x 9 ACLs; 2 generators: all program pairs <= 2 nodes x 28 ACL pairs; 3 generators: programs <= 2 nodes x 27 ACL triples"


def setup():
    env.setup()


ACL_PAIRS_Q = [("all", "all"), ("all", "leafs"), ("a-block", "a-block"), ("a-block", "a-block-del"), ("a-block-del", "a-block-del"),
               ("a-any", "a-block"), ("leafs", "leafs"), ("leafs", "leafs-cd"), ("leafs-cd", "leafs-cd"), ("b-only", "a-block"),
               ("a-block", "leafs"), ("a-any", "all"), ("empty", "all"), ("a-block", "b-only"), ("leafs-cd", "a-block"), ("a-any", "a-any"),
               ("a-cd+any", "a-block-del"), ("a-block-del", "a-cd+any"), ("a-cd+any", "a-block"), ("a-cd+any", "a-cd+any"),
               ("ovl-lit+glob", "ovl-any"), ("ovl-any", "ovl-lit+glob"), ("ovl-lit+glob", "ovl-any-c")]


def blocks(tier, seed):
    out = []
    names = [n for n, _ in acl_list()]
    for a in names:
        for i in range(4):
            out.append({"n": 1, "acls": [a], "i": i, "of": 4})
    pairs = ACL_PAIRS_Q if tier == "quick" else ACL_PAIRS_Q + [p for p in itertools.product(names, repeat=2) if p not in ACL_PAIRS_Q][::8]
    for pa in pairs:
        out.append({"n": 2, "acls": list(pa), "i": 0, "of": 1})
    triples = [("a-block", "a-block", "leafs"), ("all", "leafs", "leafs-cd"), ("a-any", "a-block", "a-block-del"),
               ("leafs-cd", "leafs-cd", "leafs-cd"), ("a-block", "b-only", "all"), ("leafs", "leafs", "leafs"),
               ("a-block-del", "a-block", "a-block"), ("empty", "a-any", "leafs")]
    if tier == "thorough":
        triples += [t for t in itertools.product(["a-block", "leafs", "all"], repeat=3) if t not in triples]
    for t in triples:
        out.append({"n": 3, "acls": list(t), "i": 0, "of": 1})
    return out


def run_block(block, ctx):
    n = block["n"]
    q = ctx.tier == "quick"
    if n == 1:
        progs = programs(3 if q else 4, 3)[block["i"]::block["of"]]
        combos = ((p,) for p in progs)
    elif n == 2:
        if q:
            combos = itertools.chain(itertools.product(programs(2, 3), programs(1, 3)),
                                     itertools.product(programs(1, 3), programs(2, 3)))
        else:
            combos = itertools.product(programs(2, 3), programs(2, 3))
    else:
        p = programs(1 if q else 2, 2)
        combos = itertools.product(p, p, p)
    for combo in combos:
        if ctx.expired():
            return
        specs = list(zip(combo, block["acls"]))
        real, ref = judge(specs, ctx.violation)
        ctx.evals += 1
        ctx.states += 1
        blk = any(has_block(p) for p in combo)
        if blk and (real[0] != "ok" or len(real[1]) >= 1 and sum(1 for _ in walk(real[1])) >= 2):
            ctx.nontrivial += 1
        ctx.outcomes["%d-gen:%s" % (n, real[0])] += 1
        if len(ctx.samples) < 1 and blk and real[0] == "ok":
            ctx.sample({"programs": list(combo), "acls": block["acls"], "result": real[1]})


def unordered_tree(t):
    return sorted((r, unordered_tree(ch)) for r, ch in t)


def walk(t):
    for r, ch in t:
        yield r
        yield from walk(ch)


def _tup(prog):
    return [tuple([n[0], n[1]] + ([_tup(n[2])] if len(n) > 2 else [])) for n in prog]


def replay(case):
    out = []
    specs = [(_tup(p), a) for p, a in case["specs"]]
    judge(specs, lambda sig, c, d="": out.append((sig, d)))
    return out
