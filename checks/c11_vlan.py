"""C11 - VLAN-list commands change exactly the VLANs that differ.

part "pair": a universe V of VLAN ids; every ordered pair (S_old, S_new) of subsets; each set written as the vendor's
             range list (mc.ref.vlan.collapse - independent of annet) and cut over 1..3 config lines in every
             contiguous way; old/new config trees are pushed through the production pipeline
             annet.api._diff_and_patch (make_diff -> make_pre -> patch_from_pre) on the SHIPPED rulebook; the emitted rows are executed, in order, by
             the VLAN-set machine of mc.ref.vlan:  final set == S_new, and every intermediate set contains
             S_old & S_new.  Global lists are additionally explored next to a `vlan N` block (huawei vlan_diff,
             cisco block handling).
part "wide": the same oracle on long lists (4..62 range items) that cross the implementation's chunk sizes
             (huawei 10, cisco vlan 15, swtrunk 5); written on one line and wrapped at 8 items.
part "rt":   expand(collapse(S)) == S on the annet.annlib.lib helpers for every subset of a larger universe, both
             dialects (+ Catalyst tiny_ranges=False, huawei chunk_len), and - so that two compensating errors
             cannot hide - the collapsed text is also read by the reference parser and the reference text by expand.
"""
from __future__ import annotations

import itertools
import os
import re

from mc import env
from mc.ref import vlan

PID = "C11"
ENGINE = "E1 bounded-exhaustive enumeration (set pairs x line cuts x rule kinds) against a reference VLAN-set machine"
RULE = ("pair: one case = (rule kind, old config lines, new config lines[, vlan-block variant]); enumerated as every "
        "ordered pair of subsets of the tier's VLAN universe x every cut of each range list into 1..maxlines "
        "contiguous lines - distinct by construction; non-trivial = the patch contains at least one command of the "
        "VLAN list. wide: ordered pairs of a fixed family of long sets x {one line, wrapped at 8 items}. "
        "rt: one case = one non-empty subset of the round-trip universe.")
ASSUMPTIONS = [
    "the meaning of a command row is what mc/ref/vlan.py says (vendor CLI: add / undo|no .. remove / 'undo .. all' / "
    "'none' / bare 'switchport trunk allowed vlan L' replaces); annet's `no switchport trunk allowed vlan remove L` "
    "is accepted as the removal of L although a device may not accept that spelling",
    "`undo port hybrid tagged|untagged vlan L` is executed as removal from that list (the real CLI only has "
    "`undo port hybrid vlan L`)",
    "the order of execution is the order of rows in the PatchTree returned by make_patch (cmd_paths keeps it)",
    "a `vlan N` block appears in a config only if N is in that config's VLAN set; huawei/nexus list N in the batch "
    "line as well, catalyst does not (how the devices print it), and old and new config are printed the same way; "
    "a config in which a list line is spelled exactly like the header of its own vlan block (`vlan 3` twice) is "
    "skipped - a config tree cannot hold the same row twice",
    "rt: non-trivial = the set has at least one run of two or more ids",
    "huawei.vlandb.single is exercised with at most one line per side (the logic asserts that); several "
    "`instance N vlan` lines are explored and only classified, not judged",
    "rulebooks are compiled once per process (annet caches them); a sample of cases is re-run at the end of each "
    "block to detect order dependence",
]
BUDGET = {"quick": 240, "thorough": 1800}   # ~20 s / ~6 min on 16 idle cores (0.8 ms per case); generous: the box is shared

V4 = [2, 3, 6, 100]
V5 = [2, 3, 4, 6, 100]
V6 = [2, 3, 4, 6, 7, 100]
V7 = [2, 3, 4, 6, 7, 9, 100]
V8 = [2, 3, 4, 6, 7, 9, 100, 101]
VB4 = [1, 2, 5, 4094]           # the boundary ids: the default VLAN 1 and the last usable id, next to ordinary ones
VB5 = [1, 2, 5, 6, 4094]
RT_EXTRA = [1, 10, 11, 12, 4093, 4094, 50, 51, 53, 55]   # V8 + first k of these
WRAP = 8


class Kind:
    def __init__(self, name, hwname, dialect, prefix, logic, rulefile, ruleline, rulename, parent=None, ctx_rows=(),
                 mode="list", neg="undo", all_ok=False, clear_rows=(), extra_forms=(), maxlines=3, empty_alt=None,
                 blk_render=None, blk_states=()):
        self.name = name
        self.hwname = hwname
        self.dialect = dialect
        self.prefix = prefix
        self.logic = logic
        self.rulefile = rulefile
        self.ruleline = ruleline          # regexp that must match a line of the shipped rulebook text
        self.rulename = rulename          # the rule as named in violation signatures
        self.parent = parent
        self.ctx_rows = list(ctx_rows)
        self.swtrunk = mode == "swtrunk"
        self.maxlines = maxlines
        self.empty_alt = empty_alt        # a second way to write the empty set (`... none`)
        self.blk_render = blk_render      # None | "listed" | "unlisted"
        self.blk_states = list(blk_states)
        self.spec = vlan.Spec(dialect, [(prefix, mode)] + list(extra_forms), neg, all_ok=all_ok, clear_rows=clear_rows)


HW_IF = "interface GE1/0/1"
CS_IF = "interface Ethernet1/1"
SWT = "switchport trunk allowed vlan"
KINDS = {k.name: k for k in [
    Kind("hw-trunk", "huawei", "huawei", "port trunk allow-pass vlan", "huawei.vlandb.multi_all", "huawei.rul",
         r"^\s+port trunk allow-pass vlan\s+%logic=huawei\.vlandb\.multi_all\s*$", "interface * / port trunk allow-pass vlan",
         parent=HW_IF, all_ok=True),
    Kind("hw-hybrid-tagged", "huawei", "huawei", "port hybrid tagged vlan", "huawei.vlandb.multi_all", "huawei.rul",
         r"^\s+port hybrid tagged vlan\s+%logic=huawei\.vlandb\.multi_all\s*$", "interface * / port hybrid tagged vlan",
         parent=HW_IF, all_ok=True),
    Kind("hw-hybrid-untagged", "huawei", "huawei", "port hybrid untagged vlan", "huawei.vlandb.multi_all", "huawei.rul",
         r"^\s+port hybrid untagged vlan\s+%logic=huawei\.vlandb\.multi_all\s*$", "interface * / port hybrid untagged vlan",
         parent=HW_IF, all_ok=True),
    Kind("hw-batch", "huawei", "huawei", "vlan batch", "huawei.vlandb.multi", "huawei.rul",
         r"^vlan batch\s+%diff_logic=huawei\.vlandb\.vlan_diff\s+%logic=huawei\.vlandb\.multi\s*$", "vlan batch",
         extra_forms=[("vlan", "id")], blk_render="listed", blk_states=[None, "", "name x", "name y"]),
    Kind("hw-stp", "huawei", "huawei", "instance 1 vlan", "huawei.vlandb.single", "huawei.rul",
         r"^\s+instance \*\s+%logic=huawei\.vlandb\.single\s*$", "stp region-configuration / instance *",
         parent="stp region-configuration", clear_rows=["undo instance 1"], maxlines=1),
    Kind("hw-pool", "huawei", "huawei", "vlan", "huawei.vlandb.multi", "huawei.rul",
         r"^\s+vlan(?: \*)?\s+%logic=huawei\.vlandb\.multi\s*$", "vlan pool * / vlan *", parent="vlan pool p"),
    Kind("nx-vlan", "nexus", "nexus", "vlan", "cisco.vlandb.simple", "nexus.rul",
         r"^vlan\s+%logic=cisco\.vlandb\.simple\s*$", "vlan", neg="no",
         blk_render="listed", blk_states=[None, "name x", "name y"]),
    Kind("nx-vlangroup", "nexus", "nexus", "vlan group G vlan-list", "cisco.vlandb.simple", "nexus.rul",
         r"^vlan group \* vlan-list\s+%logic=cisco\.vlandb\.simple\s*$", "vlan group * vlan-list", neg="no"),
    Kind("nx-swtrunk", "nexus", "nexus", SWT, "cisco.vlandb.swtrunk", "nexus.rul",
         r"^\s+switchport trunk allowed vlan\s+%logic=cisco\.vlandb\.swtrunk\s*$", "interface * / switchport trunk allowed vlan",
         parent=CS_IF, mode="swtrunk", neg="no", empty_alt=SWT + " none"),
    Kind("cat-vlan", "catalyst", "catalyst", "vlan", "cisco.vlandb.simple", "cisco.rul",
         r"^vlan\s+%logic=cisco\.vlandb\.simple\s*$", "vlan", neg="no",
         blk_render="unlisted", blk_states=[None, "name x", "name y"]),
    Kind("cat-swtrunk", "catalyst", "catalyst", SWT, "cisco.vlandb.swtrunk", "cisco.rul",
         r"^\s+switchport trunk allowed vlan\s+%logic=cisco\.vlandb\.swtrunk\s*$", "interface * / switchport trunk allowed vlan",
         parent=CS_IF, mode="swtrunk", neg="no", empty_alt=SWT + " none"),
]}
BLK_IDS = [3, 100]

# (kind, universe, maxlines or None=kind default, with vlan-block variants?)
PLAN = {
    "quick": [
        ("hw-trunk", V6, None, False), ("hw-hybrid-tagged", V6, None, False), ("hw-hybrid-untagged", V5, None, False),
        ("hw-batch", V6, None, False), ("hw-stp", V6, None, False), ("hw-pool", V5, None, False),
        ("nx-vlan", V6, None, False), ("nx-swtrunk", V6, None, False), ("nx-vlangroup", V5, None, False),
        ("cat-vlan", V6, None, False), ("cat-swtrunk", V6, None, False),
        ("hw-batch", V4, None, True), ("nx-vlan", V4, None, True), ("cat-vlan", V4, None, True),
        ("hw-stp", V4, 2, False),
        # the same rule kinds over the boundary ids (rules or logics that treat VLAN 1 or 4094 specially)
        ("hw-trunk", VB4, None, False), ("hw-hybrid-tagged", VB4, None, False), ("hw-hybrid-untagged", VB4, None, False),
        ("hw-batch", VB4, None, False), ("hw-stp", VB4, None, False), ("hw-pool", VB4, None, False),
        ("nx-vlan", VB4, None, False), ("nx-swtrunk", VB4, None, False), ("nx-vlangroup", VB4, None, False),
        ("cat-vlan", VB4, None, False), ("cat-swtrunk", VB4, None, False),
    ],
    "thorough": [
        ("hw-trunk", V8, None, False), ("hw-hybrid-tagged", V7, None, False), ("hw-hybrid-untagged", V7, None, False),
        ("hw-batch", V8, None, False), ("hw-stp", V8, None, False), ("hw-pool", V6, None, False),
        ("nx-vlan", V8, None, False), ("nx-swtrunk", V8, None, False), ("nx-vlangroup", V6, None, False),
        ("cat-vlan", V7, None, False), ("cat-swtrunk", V7, None, False),
        ("hw-batch", V5, None, True), ("nx-vlan", V5, None, True), ("cat-vlan", V5, None, True),
        ("hw-stp", V5, 3, False),
        ("hw-trunk", VB5, None, False), ("hw-hybrid-tagged", VB5, None, False), ("hw-hybrid-untagged", VB5, None, False),
        ("hw-batch", VB5, None, False), ("hw-stp", VB5, None, False), ("hw-pool", VB5, None, False),
        ("nx-vlan", VB5, None, False), ("nx-swtrunk", VB5, None, False), ("nx-vlangroup", VB5, None, False),
        ("cat-vlan", VB5, None, False), ("cat-swtrunk", VB5, None, False),
    ],
}
WIDE_KINDS = ["hw-trunk", "hw-hybrid-tagged", "hw-batch", "nx-vlan", "nx-swtrunk", "cat-vlan", "cat-swtrunk"]
WIDE_NS = {"quick": [5, 6, 10, 11, 15, 16], "thorough": [4, 5, 6, 9, 10, 11, 14, 15, 16, 20, 21, 30, 31]}
RT_BITS = {"quick": 14, "thorough": 18}
RT_BLOCKS = 16


def bound_text(tier):
    parts = []
    for name, uni, ml, blk in PLAN[tier]:
        k = KINDS[name]
        parts.append("%s%s: all subset pairs of %s, <=%d lines" % (name, "+vlan-block" if blk else "", uni, ml or k.maxlines))
    return ("pair: " + "; ".join(parts) + ". wide: %s with n in %s. rt: all non-empty subsets of a %d-element universe"
            % (",".join(WIDE_KINDS), WIDE_NS[tier], RT_BITS[tier]))


def setup():
    env.setup()


_hw_cache = {}


def _hw(name):
    if name not in _hw_cache:
        if name == "catalyst":
            from annet.annlib.netdev.views.hardware import HardwareView
            h = HardwareView("Cisco Catalyst 2960", None)
            assert h.Catalyst, "hardware view for Catalyst is not a Catalyst"
            _hw_cache[name] = h
        else:
            _hw_cache[name] = env.hw(name)
    return _hw_cache[name]


_dev_cache = {}


def _dev(name, hw):
    if name not in _dev_cache:
        import types
        _dev_cache[name] = types.SimpleNamespace(hw=hw, hostname="dev-" + name, fqdn="dev-%s.example" % name, id=1,
                                                 breed=name, neighbours_ids=[])
    return _dev_cache[name]


# ---------------------------------------------------------------------------------------------------
# enumeration
def subsets(universe):
    out = []
    for r in range(len(universe) + 1):
        out.extend(itertools.combinations(universe, r))
    return out


def renderings(kind, s, maxlines):
    """every way the set s may be written in a config for this rule kind: list of line lists"""
    items = vlan.collapse(s, kind.dialect)
    out = [vlan.render(items, cut, kind.dialect, kind.prefix, kind.swtrunk) for cut in vlan.cuts(len(items), maxlines)]
    if kind.dialect in ("nexus", "catalyst") and len(items) >= 2:
        # the spelling some Cisco devices print: a blank after every comma of the list (annet normalises it)
        out.append([ln.replace(",", ", ") for ln in out[0]])
    if not s and kind.empty_alt:
        out.append([kind.empty_alt])
    return out


def blk_variants(kind):
    """(b, old state, new state); a state is None (no block), "" (block without children) or the child row.
    ("name y" only as the new state of a block that was "name x": renaming x<->y gives nothing new)"""
    out = []
    for b in BLK_IDS:
        for o in kind.blk_states:
            for n in kind.blk_states:
                if o is None and n is None:
                    continue
                if o == "name y" or (n == "name y" and o != "name x"):
                    continue
                out.append((b, o, n))
    return out


def plan_sizes(tier):
    out = []
    for name, uni, ml, blk in PLAN[tier]:
        k = KINDS[name]
        t = sum(len(renderings(k, s, ml or k.maxlines)) for s in subsets(uni))
        out.append(t * t * (len(blk_variants(k)) if blk else 1))
    return out


def plan_blocks(tier):
    """pair blocks: entry x (S_old index mod shards); shards proportional to the entry's size, about 220 in total"""
    sizes = plan_sizes(tier)
    total = sum(sizes)
    bl = []
    for idx, (name, uni, ml, blk) in enumerate(PLAN[tier]):
        shards = max(1, min(len(subsets(uni)), round(220 * sizes[idx] / total)))
        for j in range(shards):
            bl.append({"part": "pair", "entry": idx, "shard": j, "of": shards})
    return bl


def blocks(tier, seed):
    """cheap parts first, then the pair entries by ascending size: if the budget runs out on a loaded machine what
    is left unexplored is the tail of the largest entries, and the evidence says so"""
    bl = [{"part": "rules"}]
    for j in range(RT_BLOCKS):
        bl.append({"part": "rt", "shard": j, "of": RT_BLOCKS})
    for name in WIDE_KINDS:
        for j in range(2):
            bl.append({"part": "wide", "kind": name, "shard": j, "of": 2})
    sizes = plan_sizes(tier)
    bl.extend(sorted(plan_blocks(tier), key=lambda b: (sizes[b["entry"]], b["entry"], b["shard"])))
    return bl


KEEP_ORDER = True     # see blocks(); the verdict does not depend on the order, VERIF_SEED is not used at all


# ---------------------------------------------------------------------------------------------------
# one case
def build_tree(kind, lines, blk_b=None, blk_state=None):
    rows = [(l, []) for l in lines]
    if blk_state is not None:
        rows.append(("vlan %d" % blk_b, [(blk_state, [])] if blk_state else []))
    if kind.parent:
        return [(kind.parent, [(r, []) for r in kind.ctx_rows] + rows)]
    return rows


def emitted_rows(kind, old_tree, new_tree):
    """the production pipeline; returns the rows addressed to the VLAN list's context, in patch order"""
    from annet import api
    hw = _hw(kind.hwname)
    # the production composition (what `annet patch` / `annet deploy` run): make_diff -> make_pre -> patch_from_pre on the
    # rulebook the provider returns for this hardware; the VLAN logics read the unchanged rows of their key, so it matters
    # what the caller hands them
    _diff, pt = env.diff_and_patch(_dev(kind.hwname, hw), env.to_odict(old_tree), env.to_odict(new_tree), None, None, False)
    rows = []
    for it in pt.itms:
        if kind.parent:
            if it.row != kind.parent:
                rows.append("<outside %s> %s" % (kind.parent, it.row))
                continue
            if it.child:
                rows.extend(c.row for c in it.child.itms)
        else:
            rows.append(it.row)
    return rows


_LIST_TAIL = re.compile(r"(?:\s+(?:\d[\d,\-]*|to))+\s*$")


def cmd_kind(row):
    """the command with its VLAN list abstracted"""
    return _LIST_TAIL.sub(" <L>", " ".join(row.split()))


def line_shape(kind, old_lines, new_lines, blk):
    """the input class named in a signature.  Without a vlan block: which kinds of line the line-level diff has.
    With a vlan block: what happens to the block and in what kind of list line its id sits."""
    removed = [l for l in old_lines if l not in new_lines]
    added = [l for l in new_lines if l not in old_lines]
    unchanged = [l for l in old_lines if l in new_lines]
    if blk:
        def nm(x):
            return "absent" if x is None else ("empty" if x == "" else "named")

        def has(lines):
            return any(blk[0] in vlan.parse_list(l[len(kind.prefix) + 1:], kind.dialect) for l in lines)
        where = ("an unchanged list line" if has(unchanged) else
                 "changed list lines" if has(removed) or has(added) else "no list line")
        chg = "" if blk[1] == blk[2] or None in blk[1:] or "" in blk[1:] else " (child changed)"
        return "vlan block %s->%s%s ; block id in %s" % (nm(blk[1]), nm(blk[2]), chg, where)
    parts = []
    if removed:
        parts.append("removed line")
    if added:
        parts.append("added line")
    if unchanged:
        parts.append("unchanged sibling line")
    return " + ".join(parts) or "no line differs"


def run_case(kind, old_lines, new_lines, s_old, s_new, blk=None, judged=True, tag=""):
    """Returns (outcome label, nontrivial, emitted rows, None | (sig, detail))."""
    old_tree = build_tree(kind, old_lines, blk and blk[0], blk and blk[1])
    new_tree = build_tree(kind, new_lines, blk and blk[0], blk and blk[2])
    shape = line_shape(kind, old_lines, new_lines, blk)      # `tag` marks the wide family in the case only
    base = {"logic": kind.logic, "hw": kind.hwname, "rule": kind.rulename, "shape": shape}
    try:
        rows = emitted_rows(kind, old_tree, new_tree)
    except Exception as e:  # noqa
        label = "%s:exception %s" % (kind.name, type(e).__name__)
        if not judged:
            return label, False, None, None
        return label, False, None, (dict(base, cmd="-", op="-", effect="exception " + type(e).__name__),
                                    "old=%r new=%r -> %r" % (old_lines, new_lines, e))
    keep = set(s_old) & set(s_new)
    res = vlan.execute(kind.spec, s_old, rows, keep)
    ops = [op for _, op, _ in res["trace"]]
    label = "%s:%s" % (kind.name, "+".join(k for k, _ in itertools.groupby(ops)) or "noop")
    final = set(res["final"])
    problem = None
    if res["unparseable"]:
        i, msg = res["unparseable"]
        problem = (cmd_kind(rows[i]), "unparseable", "command not executable", msg)
    elif res["loss"]:
        i, op, lost = res["loss"]
        back = keep <= final
        problem = (cmd_kind(rows[i]), op,
                   "VLAN present in both sets removed " + ("transiently" if back else "and not restored"),
                   "row %d %r removes %s which are in both sets" % (i, rows[i], lost))
    elif final != set(s_new):
        missing, extra = sorted(set(s_new) - final), sorted(final - set(s_new))
        eff = " and ".join(x for x in ("lacks VLANs of the new set" if missing else "",
                                       "keeps VLANs not in the new set" if extra else "") if x)
        problem = ("-", "-", "final set " + eff, "missing=%s extra=%s" % (missing, extra))
    if problem is None:
        return label, bool(rows), rows, None
    if not judged:
        return label + " [" + problem[2] + "]", bool(rows), rows, None
    cmd, op, effect, why = problem
    detail = ("old lines %r\nnew lines %r\nS_old=%s S_new=%s keep=%s\nemitted %r\ntrace %s\nfinal %s: %s"
              % (old_lines, new_lines, sorted(s_old), sorted(s_new), sorted(keep), rows,
                 [(r, o, s) for r, o, s in res["trace"]], res["final"], why))
    if blk:
        detail += "\nvlan block id %d: old %r new %r" % blk
    return label + " [VIOLATION]", bool(rows), rows, (dict(base, cmd=cmd, op=op, effect=effect), detail)


def mk_case(part, kind, old_lines, new_lines, s_old, s_new, blk, judged=True, tag=""):
    return {"part": part, "kind": kind.name, "old": old_lines, "new": new_lines, "S_old": sorted(s_old),
            "S_new": sorted(s_new), "blk": list(blk) if blk else None, "judged": judged, "tag": tag}


class Runner:
    """bookkeeping shared by the pair and wide parts"""

    def __init__(self, ctx, part):
        self.ctx = ctx
        self.part = part
        self.first = []      # first cases of the block, re-run at the end

    def one(self, kind, old_lines, new_lines, s_old, s_new, blk=None, judged=True, tag=""):
        ctx = self.ctx
        label, nontrivial, rows, viol = run_case(kind, old_lines, new_lines, s_old, s_new, blk, judged, tag)
        ctx.evals += 1
        ctx.states += 1
        if not judged:
            label = "unjudged " + label
            ctx.extra["unjudged_cases"] += 1
        ctx.outcomes[label] += 1
        if nontrivial:
            ctx.nontrivial += 1
            if len(ctx.samples) < 2 and len(rows) > 1:
                ctx.sample({"kind": kind.name, "old": old_lines, "new": new_lines, "emitted": rows})
        if viol:
            ctx.violation(viol[0], mk_case(self.part, kind, old_lines, new_lines, s_old, s_new, blk, judged, tag), viol[1])
        if len(self.first) < 40 and nontrivial:
            self.first.append((kind, old_lines, new_lines, s_old, s_new, blk, judged, tag, rows))

    def rerun(self):
        """order dependence: the first non-trivial cases again, after everything else has run in this process"""
        for kind, old_lines, new_lines, s_old, s_new, blk, judged, tag, rows in self.first:
            _, _, rows2, _ = run_case(kind, old_lines, new_lines, s_old, s_new, blk, judged, tag)
            self.ctx.evals += 1
            self.ctx.extra["rerun_checked"] += 1
            if rows2 != rows:
                self.ctx.violation({"kind": "order-dependent-result", "logic": kind.logic},
                                   mk_case(self.part, kind, old_lines, new_lines, s_old, s_new, blk, judged, tag),
                                   "first run %r, later run %r" % (rows, rows2))


# ---------------------------------------------------------------------------------------------------
def run_block(block, ctx):
    part = block["part"]
    if part == "pair":
        run_pair(block, ctx)
    elif part == "wide":
        run_wide(block, ctx)
    elif part == "rt":
        run_rt(block, ctx)
    else:
        run_rules(ctx)


def run_pair(block, ctx):
    name, uni, ml, with_blk = PLAN[ctx.tier][block["entry"]]
    kind = KINDS[name]
    maxlines = ml or kind.maxlines
    judged = maxlines <= kind.maxlines       # more lines than the logic is written for: classified only
    subs = subsets(uni)
    rend = {s: renderings(kind, s, maxlines) for s in subs}
    variants = blk_variants(kind) if with_blk else [None]
    run = Runner(ctx, "pair")
    for i, s_old in enumerate(subs):
        if i % block["of"] != block["shard"]:
            continue
        for s_new in subs:
            for blk in variants:
                lo, ln = s_old, s_new
                if blk:
                    b, bo, bn = blk
                    if (bo is not None and b not in s_old) or (bn is not None and b not in s_new):
                        ctx.extra["blk_variant_skipped_id_not_in_set"] += 1
                        continue
                    if kind.blk_render == "unlisted":
                        lo = tuple(v for v in s_old if not (v == b and bo is not None))
                        ln = tuple(v for v in s_new if not (v == b and bn is not None))
                hdr = "vlan %d" % blk[0] if blk else None
                for old_lines in rend[lo]:
                    for new_lines in rend[ln]:
                        if hdr and ((blk[1] is not None and hdr in old_lines) or (blk[2] is not None and hdr in new_lines)):
                            # a list line spelled exactly like the block's header: one config cannot hold both rows
                            ctx.extra["blk_variant_skipped_line_equals_block_header"] += 1
                            continue
                        if not judged and len(old_lines) <= kind.maxlines and len(new_lines) <= kind.maxlines:
                            continue         # that part of the space belongs to the judged entry
                        if ctx.expired():
                            return
                        run.one(kind, old_lines, new_lines, s_old, s_new, blk, judged)
    run.rerun()


def wide_family(ns):
    fam = [()]
    for n in ns:
        a = tuple(200 + 2 * i for i in range(n))                          # n single ids
        b = tuple(1000 + 4 * i + d for i in range(n) for d in (0, 1, 2))     # n runs of three
        fam.append(a)
        fam.append(tuple(sorted(a + b)))
    return fam


def wide_renderings(kind, s):
    items = vlan.collapse(s, kind.dialect)
    out = []
    one_line = [(0, len(items))] if items else []
    for cut in (one_line, vlan.wrap(len(items), WRAP)):
        lines = vlan.render(items, cut, kind.dialect, kind.prefix, kind.swtrunk)
        if lines not in out:
            out.append(lines)
    return out


def run_wide(block, ctx):
    kind = KINDS[block["kind"]]
    fam = wide_family(WIDE_NS[ctx.tier])
    run = Runner(ctx, "wide")
    for i, s_old in enumerate(fam):
        if i % block["of"] != block["shard"]:
            continue
        for s_new in fam:
            for old_lines in wide_renderings(kind, s_old):
                for new_lines in wide_renderings(kind, s_new):
                    if ctx.expired():
                        return
                    run.one(kind, old_lines, new_lines, s_old, s_new, None, True, " (wide list)")
    run.rerun()


# ---------------------------------------------------------------------------------------------------
# round trip of the helpers
def run_shape(s):
    lens = {b - a + 1 for a, b in vlan.runs(s)}
    return "runs of " + ",".join(x for x, ok in (("1", 1 in lens), ("2", 2 in lens), ("3+", any(n >= 3 for n in lens))) if ok)


def rt_case(s):
    """-> (number of real calls, [(sig, detail)])"""
    from annet.annlib import lib
    s = set(s)
    out = []
    n = 0

    def bad(kind, dialect, detail):
        out.append(({"kind": kind, "dialect": dialect, "shape": run_shape(s)}, "S=%s: %s" % (sorted(s), detail)))

    for dialect, collapse, expand, sep in (
            ("huawei", lib.huawei_collapse_vlandb, lib.huawei_expand_vlandb, " "),
            ("nexus", lambda x: lib.cisco_collapse_vlandb(x, True), lib.cisco_expand_vlandb, ","),
            ("catalyst", lambda x: lib.cisco_collapse_vlandb(x, False), lib.cisco_expand_vlandb, ",")):
        try:
            items = collapse(set(s))
            text = sep.join(items)
            back = expand(text)
            n += 2
            if set(back) != s:
                bad("expand(collapse(S)) != S", dialect, "collapse=%r expand=%s" % (text, sorted(back)))
            try:
                ref_back = vlan.parse_list(text, dialect)
            except vlan.Unparseable as e:
                ref_back = "unparseable: %s" % e
            if ref_back != s:
                bad("collapsed text does not denote S", dialect, "collapse=%r denotes %s" % (text, ref_back if isinstance(ref_back, str) else sorted(ref_back)))
            ref_text = vlan.join_items(vlan.collapse(s, dialect), dialect)
            got = expand(ref_text)
            n += 1
            if set(got) != s:
                bad("expand of the vendor's text != S", dialect, "text=%r expand=%s" % (ref_text, sorted(got)))
            if dialect != "huawei":
                spaced = vlan.join_items(vlan.collapse(s, dialect), dialect, sep=", ")
                got = expand(spaced)
                n += 1
                if set(got) != s:
                    bad("expand of the vendor's text != S", dialect, "text=%r expand=%s" % (spaced, sorted(got)))
            else:
                for k in (1, 2, 3):
                    chunks = lib.huawei_collapse_vlandb(set(s), chunk_len=k)
                    n += 1
                    flat = [x for c in chunks for x in c]
                    if flat != items or any(not 1 <= len(c) <= k for c in chunks):
                        bad("chunked collapse loses or reorders items", dialect, "chunk_len=%d chunks=%r items=%r" % (k, chunks, items))
        except Exception as e:  # noqa
            bad("exception " + type(e).__name__, dialect, repr(e))
    return n, out


def rt_universe(tier):
    return sorted(V8 + RT_EXTRA[:RT_BITS[tier] - len(V8)])


def run_rt(block, ctx):
    uni = rt_universe(ctx.tier)
    nbits = len(uni)
    for mask in range(1 + block["shard"], 1 << nbits, block["of"]):
        if ctx.expired():
            return
        s = [uni[i] for i in range(nbits) if mask >> i & 1]
        n, viol = rt_case(s)
        ctx.evals += n
        ctx.states += 1
        ctx.nontrivial += 1 if len(vlan.runs(s)) < len(s) else 0
        ctx.outcomes["rt:" + ("ok" if not viol else "VIOLATION") + " " + run_shape(s)] += 1
        for sig, detail in viol:
            ctx.violation(sig, {"part": "rt", "S": s}, detail)


def run_rules(ctx):
    """the shipped rulebook texts still bind the explored rule lines to the logic functions named in KINDS"""
    for sig, detail in rules_case():
        ctx.violation(sig, {"part": "rules"}, detail)
    ctx.evals += len(KINDS)
    ctx.states += len(KINDS)
    ctx.outcomes["rules:checked"] += len(KINDS)


def rules_case():
    import annet.rulebook
    out = []
    base = os.path.join(os.path.dirname(annet.rulebook.__file__), "texts")
    for k in KINDS.values():
        text = open(os.path.join(base, k.rulefile)).read()
        if not any(re.match(k.ruleline, line) for line in text.splitlines()):
            out.append(({"kind": "rule-line-not-found", "file": k.rulefile, "logic": k.logic, "rule": k.rulename},
                        "no line of %s matches %r; the check no longer exercises what it says" % (k.rulefile, k.ruleline)))
    return out


# ---------------------------------------------------------------------------------------------------
def replay(case):
    part = case.get("part")
    if part == "rt":
        return rt_case(case["S"])[1]
    if part == "rules":
        return rules_case()
    kind = KINDS[case["kind"]]
    blk = tuple(case["blk"]) if case.get("blk") else None
    _, _, _, viol = run_case(kind, list(case["old"]), list(case["new"]), case["S_old"], case["S_new"], blk,
                             case.get("judged", True), case.get("tag", ""))
    return [viol] if viol else []
