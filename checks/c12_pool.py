"""C12 - the worker pool returns exactly one result per submitted device (all interleavings).

The real annet.parallel (Parallel.irun/run, _check_children, pool_worker/_pool_worker, invoke_retry, callbacks)
runs unmodified on virtual multiprocessing primitives under a controlled scheduler (mc/sched.py).
Two explorations per configuration:
  * full:  every interleaving, made finite by de-duplicating on the implementation's own state (queue contents,
           exit codes, the Python frames of parent and workers inside annet/parallel.py, delivered multiset);
  * pb(k): stateless, at most k preemptions (iterative context bounding), for larger configurations.
Part callers (E1): the production callers of the pool - annet.api.gen / patch / diff - over a three-device fabric (mc/e2e.py),
  for every ordered selection of its devices (diff: the ids handed in while the loader knows all three; gen / patch: a
  loader that knows exactly the selection), with and without the per-host progress callback: one outcome for every
  submitted id and for no other, failures (one device's generator raises; --tolerate-fails) under `fail`, the rest under `success`.
"""
from __future__ import annotations

import collections
import types

from mc import env
from mc.sched import (Abort, Killed, Scheduler, VMp, VTime, _Nop, stack_digest, suspended_generator_digest, crepr)

PID = "C12"
ENGINE = "E3 controlled scheduler over the unmodified annet.parallel on virtual processes/queues"
RULE = ("a case is one complete execution (schedule) of Parallel.irun/run for a configuration (n ids, pool size, "
        "max_tasks, raising ids, tolerate_fails, callback, api); 'full' mode explores all interleavings with state "
        "de-duplication (states = distinct canonical implementation states, transitions = (state,choice) steps "
        "executed), 'pb' mode explores all schedules with <= k preemptions; an execution is non-trivial when at "
        "least two virtual processes interleave (>=1 context switch with both still live); distinct = distinct "
        "choice sequences (every execution replays a different prefix)")
ASSUMPTIONS = [
    "multiprocessing flushes a process's queue buffer (joins the feeder) before the process is reported dead",
    "a timed Queue.get may raise Empty only while the pipe is empty; a blocking get returns items in pipe order",
    "workers only read fields of the Parallel object that the parent never writes after start() (enforced by a proxy)",
    "no worker is killed from outside; task bodies are pure functions of the id",
    "the 1800 s watchdog is replaced by hang detection: parent can only poll and nobody else can move = violation",
]
BUDGET = {"quick": 240, "thorough": 2400}
KEEP_ORDER = False


def bound_text(tier):
    if tier == "quick":
        return ("full interleavings (state-deduplicated, unbounded preemptions): n<=2, pool<=2, max_tasks in {1,25}, with/without a "
                "raising id, tolerate 0/1, api irun/run; preemption bound 2 (state-deduplicated): n in {3,4}, pool 2, max_tasks in "
                "{1,2,25}; preemption bound 1: pool 3 (n 3..4) and n=5; E4: TLC model + edge-cover conformance replay for n=2,pool=2,quota=1")
    return ("full interleavings: n<=2 complete grid and n=3, pool=2, max_tasks in {1,2,25}; preemption bound 3: n<=5, pool 2; bound 2: "
            "pool 3; bound 1: n<=6, pool<=4; E4 x 12 configurations (conformance replay up to n=3,pool=3); real-multiprocessing assumption tests")


def setup():
    env.setup()
    import annet.parallel  # noqa


# ---------------------------------------------------------------------------------------------------
class WorkerView:
    """what a forked worker sees of the Parallel object: a read-only snapshot"""

    def __init__(self, p):
        object.__setattr__(self, "_p", p)

    def __getattr__(self, k):
        if k == "tasks_done":
            raise AssertionError("worker reads Parallel.tasks_done, which the parent mutates after fork")
        return getattr(object.__getattribute__(self, "_p"), k)

    def __setattr__(self, k, v):
        raise AssertionError("worker writes Parallel.%s; a forked worker's write never reaches the parent" % k)


class TaskError(ValueError):
    pass


def expected_value(cfg, i):
    """what the task computes for id i (a generator task's value is the list of what one complete run yields)"""
    for j, _k, how in cfg.get("flaky", []):
        if int(j) == i and how.startswith("gen"):
            return [("part", i, 0), ("part", i, 1)]
    return payload(i)


def payload(i):
    return ("ok", i * 10 + 1)


class Unpicklable:
    """a task result that cannot cross a process boundary (it holds a function object, as a result carrying an open
    connection, a lock or a local class would)"""

    def __init__(self, i):
        self.i = i
        self.handle = lambda: i

    def __repr__(self):
        return "Unpicklable(%d)" % self.i

    def __eq__(self, other):
        return isinstance(other, Unpicklable) and other.i == self.i

    def __hash__(self):
        return hash(("Unpicklable", self.i))


class _OsView:
    """the os module with kill() disarmed (the pool kills stuck workers by pid; virtual processes have none)"""

    def __getattr__(self, name):
        import os
        return getattr(os, name)

    @staticmethod
    def kill(*a):
        return None


_POOL_MODULES = [None]


def pool_modules():
    """the modules the process pool is implemented in: annet.parallel and every other annet module that holds a reference to
    the multiprocessing module (a reorganisation may move the worker or the parent loop into private modules of their own)"""
    if _POOL_MODULES[0] is None:
        import multiprocessing
        import sys
        import annet.parallel as par
        mods = [par]
        for name, mod in sorted(sys.modules.items()):
            if mod is None or mod is par or not name.startswith("annet."):
                continue
            try:
                if any(v is multiprocessing for v in vars(mod).values()):
                    mods.append(mod)
            except Exception:  # noqa
                pass
        _POOL_MODULES[0] = mods
        # the frames of all these files are the implementation's state (state de-duplication, E4's abstraction)
        from mc import sched as sched_mod
        for m in mods:
            f = getattr(m, "__file__", None)
            if f and not sched_mod.in_pool_file(f):
                sched_mod.POOL_FILES.append(f)
    return _POOL_MODULES[0]


def substitute_primitives(vmp):
    """in every pool module, the names bound to multiprocessing / time / asyncio / faulthandler / os get the virtual ones;
    -> [(module, name, original)] for restoring"""
    import asyncio
    import faulthandler
    import multiprocessing
    import os
    import time
    repl = [(multiprocessing, vmp), (time, VTime()), (asyncio, _Nop()), (faulthandler, _Nop()), (os, _OsView())]
    saved = []
    for mod in pool_modules():
        for name, val in list(vars(mod).items()):
            for real, virtual in repl:
                if val is real:
                    saved.append((mod, name, val))
                    setattr(mod, name, virtual)
    return saved


class Execution:
    """one run of the real code under one schedule"""

    def __init__(self, cfg, prefix, hook=None):
        self.cfg = cfg
        self.delivered = []
        self.end = None
        self.run_result = None
        self.sched = Scheduler(prefix, state_hook=hook)
        self.vmp = None
        self.irun_gen = None
        self.callback_calls = 0

    def go(self):
        import annet.parallel as par
        cfg = self.cfg
        sched = self.sched

        def wrap(args):
            return (WorkerView(args[0]),) + tuple(args[1:])
        vmp = self.vmp = VMp(sched, wrap_args=wrap)
        saved = substitute_primitives(vmp)
        raising = set(cfg["raising"])
        flaky = {int(i): (k, how) for i, k, how in cfg.get("flaky", [])}
        attempts = collections.Counter()
        unpick = set(cfg.get("unpicklable", []))

        def f(dev_id):
            if dev_id in raising:
                raise TaskError("boom-%s" % dev_id)
            if dev_id in unpick:
                return {"value": payload(dev_id), "conn": Unpicklable(dev_id)}
            if dev_id in flaky:
                # a task whose connection drops: the first k attempts (k = -1: every attempt) end in a network error,
                # raised directly or as the context of another exception; annet retries such a task net_retry times
                k, how = flaky[dev_id]
                attempts[dev_id] += 1
                if how.startswith("gen"):
                    # a task written as a generator (as annet's own workers are): it hands out part of its result, then the
                    # connection drops; the value of the id is what the successful attempt alone yields
                    def parts(fail):
                        yield ("part", dev_id, 0)
                        if fail:
                            raise ConnectionResetError("net-%s" % dev_id)
                        yield ("part", dev_id, 1)
                    return parts(k < 0 or attempts[dev_id] <= k)
                if k < 0 or attempts[dev_id] <= k:
                    if how == "wrapped":
                        try:
                            raise BrokenPipeError("pipe-%s" % dev_id)
                        except BrokenPipeError:
                            raise TaskError("net-%s" % dev_id)
                    raise ConnectionResetError("net-%s" % dev_id)
            return payload(dev_id)

        cb_kind = cfg.get("callback")
        cb_fail = set(cfg.get("cb_fail", []))

        def cb_plain(pool, task_result):
            self.callback_calls += 1
            if cb_kind == "raise" and task_result.device_id in cb_fail:
                raise TaskError("cb-%s" % task_result.device_id)
            return task_result

        def cb_gen(pool, task_result):
            # a callback written as a generator: it hands the result on and may fail afterwards; a failing callback
            # turns the result into ONE failure (what it had handed on before is withdrawn)
            self.callback_calls += 1
            yield task_result
            if cb_kind == "gen-raise" and task_result.device_id in cb_fail:
                raise TaskError("cb-%s" % task_result.device_id)
        cb = cb_gen if cb_kind in ("gen", "gen-raise") else cb_plain

        def root():
            p = par.Parallel(f).tune(parallel=cfg["pool"], max_tasks=cfg["max_tasks"])
            self.net_retry = p.net_retry
            if cfg.get("callback"):
                p.add_callback(cb)
            if cfg.get("in_thread_callback") == "gen-raise":
                p.add_callback(cb_gen, in_thread=True)
            elif cfg.get("in_thread_callback"):
                p.add_callback(lambda pool, tr: tr, in_thread=True)
            ids = list(range(cfg["n"]))
            try:
                if cfg.get("api") == "run":
                    self.run_result = p.run(ids, tolerate_fails=bool(cfg["tolerate"]))
                    self.end = ("normal",)
                    return
                self.irun_gen = p.irun(ids, tolerate_fails=bool(cfg["tolerate"]))
                for r in self.irun_gen:
                    exc = r.exc
                    self.delivered.append((r.device_id, r.result,
                                           None if exc is None else getattr(exc, "orig_exc_msg", repr(exc))))
                    # the caller is busy with the result for as long as it likes: everybody else may move meanwhile
                    sched.point(("consume", r.device_id))
                self.end = ("normal",)
            except (Abort, Killed):
                raise
            except BaseException as e:  # noqa
                self.end = ("raised", type(e).__name__, getattr(e, "orig_exc_msg", str(e)))
        try:
            sched.run(root, "parent")
        finally:
            for mod, name, val in saved:
                setattr(mod, name, val)
        return self

    # -- oracle ------------------------------------------------------------------------------------
    def judge(self):
        """-> list of (sig, detail)"""
        cfg = self.cfg
        s = self.sched
        out = []
        ids = list(range(cfg["n"]))
        raising = set(cfg["raising"])
        if s.error is not None:
            out.append(({"kind": "harness-or-worker-error", "exc": type(s.error).__name__}, repr(s.error)))
            return out
        if s.verdict in ("pruned",):
            return out
        # a flaky task fails for good iff it needs more attempts than 1 + net_retry (the pool's documented retry count,
        # read from the Parallel object as data); its failure carries the network error's text
        nr = getattr(self, "net_retry", 3)
        net_fail = {int(i) for i, k, how in cfg.get("flaky", []) if k < 0 or k > nr}
        cb_fail = set(cfg.get("cb_fail", [])) if cfg.get("callback") in ("raise", "gen-raise") else set()
        raising = raising | net_fail | cb_fail
        if s.verdict == "deadlock":
            parked = sorted((t.name, t.op[0]) for t in s.threads if not t.done and not t.killed)
            kind = "hang" if any(op == "poll" for _, op in parked) else "deadlock"
            out.append(({"kind": kind, "parked": [list(x) for x in parked][:6]},
                        "no enabled thread; parked=%r delivered=%r" % (parked, self.delivered)))
            return out
        if s.verdict == "horizon":
            out.append(({"kind": "livelock-horizon"}, "more than %d scheduling points" % s.HORIZON))
            return out
        if s.verdict == "divergence":
            raise s.error
        if cfg.get("api") == "run":
            if self.end != ("normal",):
                if cfg["tolerate"] or not (raising or cfg.get("unpicklable")):
                    out.append(({"kind": "run-raised", "exc": self.end[1]}, repr(self.end)))
                return out
            succ, fail = self.run_result
            unpick = set(cfg.get("unpicklable", []))
            # an id whose result cannot be pickled has ONE outcome: the value itself (in-process path) or a failure
            for i in unpick:
                if (i in succ) == (i in fail):
                    out.append(({"kind": "run-result", "what": "unpicklable result has not exactly one outcome"},
                                "id %r: success=%r fail=%r" % (i, succ, sorted(fail))))
            succ = {i: v for i, v in succ.items() if i not in unpick}
            fail = {i: v for i, v in fail.items() if i not in unpick}
            exp_s = {i: expected_value(cfg, i) for i in ids if i not in raising and i not in unpick}
            if succ != exp_s or set(fail) != raising:
                out.append(({"kind": "run-result"},
                            "success=%r fail=%r expected success=%r fail ids=%r" % (succ, sorted(fail), exp_s, sorted(raising))))
            return out
        got_ids = [d[0] for d in self.delivered]
        unpick = set(cfg.get("unpicklable", []))
        for (i, res, exc) in self.delivered:
            if i in unpick:
                # the value itself (in-process path) or a failure, never a half of each
                ok_value = exc is None and isinstance(res, dict) and res.get("value") == payload(i)
                ok_failure = exc is not None and res is None
                if not (ok_value or ok_failure):
                    out.append(({"kind": "payload", "what": "unpicklable-result-neither-value-nor-failure"}, repr((i, res, exc))))
            elif i in raising:
                if i in cb_fail and i not in set(cfg["raising"]):
                    if "cb-%s" % i not in str(exc):
                        out.append(({"kind": "payload", "what": "callback-failure-not-reported"}, repr((i, res, exc))))
                elif exc != ("net-%s" if i in net_fail else "boom-%s") % i or res is not None:
                    out.append(({"kind": "payload", "what": "failure-not-reported"}, repr((i, res, exc))))
            elif res != expected_value(cfg, i) or exc is not None:
                out.append(({"kind": "payload", "what": "wrong-value"}, repr((i, res, exc))))
        dup = [i for i, c in collections.Counter(got_ids).items() if c > 1]
        if dup:
            out.append(({"kind": "duplicate-delivery"}, "ids %r delivered twice: %r" % (dup, got_ids)))
        if self.end == ("normal",):
            if sorted(got_ids) != ids:
                lost = sorted(set(ids) - set(got_ids))
                out.append(({"kind": "lost-results", "end": "normal-termination"},
                            "submitted %r delivered %r lost %r" % (ids, got_ids, lost)))
            if self.vmp.terminated:
                out.append(({"kind": "terminate-without-cause"}, repr(self.vmp.terminated)))
        else:
            # irun raised
            if cfg["tolerate"] or not (raising or unpick):
                out.append(({"kind": "irun-raised", "exc": self.end[1]}, repr(self.end)))
            elif unpick:
                pass        # the failure made of an unpicklable result may end a tolerate_fails=False run; its text is the pool's own
            else:
                msg = self.end[2]
                if self.end[1] != "PickleSafeException" or msg not in {("net-%s" if i in net_fail else "boom-%s") % i for i in raising}:
                    out.append(({"kind": "irun-raised-wrong-exception", "exc": self.end[1]}, repr(self.end)))
        return out

    def outcome_label(self):
        if self.sched.verdict:
            return self.sched.verdict
        if self.cfg.get("api") == "run":
            return "run:%s" % (self.end[0] if self.end else None)
        return "%s:delivered=%d/%d" % (self.end[0] if self.end else None, len(self.delivered), self.cfg["n"])

    def interleaved(self):
        sw = 0
        last = None
        for p in self.sched.trace:
            kind, what = p.choices[p.chosen]
            if kind == "t":
                if last is not None and what != last:
                    sw += 1
                last = what
        return sw


# ---------------------------------------------------------------------------------------------------
def state_key_fn(ex, visited, bound=None):
    """De-duplication on the implementation's own state.  With a preemption bound the number of preemptions
    already spent is part of the key (the remaining budget decides what is still explored from here)."""
    def hook(sched, me, choices):
        vmp = ex.vmp
        parts = [tuple(sorted(d[0] for d in ex.delivered)), ex.end]
        if vmp is not None:
            for q in vmp.queues:
                parts.append((q.name, tuple(crepr(x) for x in q.pipe),
                              tuple((k, tuple(crepr(x) for x in b)) for k, b in sorted(q.buffers.items()) if b)))
            latest = {}
            for p in vmp.processes:
                latest[p.name] = p
            parts.append(tuple((n, p._exitcode, p.terminated) for n, p in sorted(latest.items())))
        th = []
        for t in sched.threads:
            if t.done or t.killed:
                continue
            if not t.started:
                dg = "new"
            else:
                if t.dirty or t.digest is None:
                    t.digest = stack_digest(t.thread)
                    if t.proc is None and getattr(ex, "irun_gen", None) is not None:
                        # the caller holds a result: irun's frame is suspended, on nobody's stack - its locals are state all the same
                        t.digest += "|suspended:" + suspended_generator_digest(ex.irun_gen)
                    t.dirty = False
                dg = t.digest
            th.append((t.name, t.op, dg))
        parts.append(tuple(sorted(th)))
        parts.append(me.name if me is not None else None)
        parts.append(sched.progress)
        if bound is not None:
            parts.append(sched.preempt_count)
        key = hash(tuple(parts))
        if key in visited:
            return "prune"
        visited.add(key)
        return None
    return hook


def explore(cfg, bound, ctx, on_violation):
    """DFS over choice sequences by re-execution; bound=None explores every interleaving."""
    visited = set()
    stack = [[]]
    execs = 0
    while stack:
        if ctx.expired():
            return False, len(visited), execs
        prefix = stack.pop()
        ex = Execution(cfg, prefix)
        ex.sched.state_hook = state_key_fn(ex, visited, bound)
        ex.go()
        execs += 1
        account(ex, ctx, on_violation, prefix)
        tr = ex.sched.trace
        ctx.transitions += max(0, len(tr) - len(prefix)) + (1 if prefix else 0)
        pre = 0
        costs = []
        for p in tr:
            costs.append(pre)
            if p.running_enabled and p.chosen != 0:
                pre += 1
        for i in range(len(prefix), len(tr)):
            p = tr[i]
            if bound is not None and costs[i] + (1 if p.running_enabled else 0) > bound:
                continue
            for alt in range(1, len(p.choices)):
                stack.append([q.chosen for q in tr[:i]] + [alt])
    return True, len(visited), execs


def account(ex, ctx, on_violation, prefix):
    ctx.evals += 1
    if ex.sched.verdict != "pruned":
        ctx.outcomes[ex.outcome_label()] += 1
        if ex.interleaved() >= 2:
            ctx.nontrivial += 1
    else:
        ctx.extra["executions_pruned_at_visited_state"] += 1
    for sig, detail in ex.judge():
        sig = dict(sig, api=ex.cfg.get("api", "irun"))
        on_violation(sig, {"cfg": ex.cfg, "schedule": ex.sched.choices_taken()},
                     detail + " | schedule=%r" % (describe(ex),))


def describe(ex):
    out = []
    for p in ex.sched.trace:
        kind, what = p.choices[p.chosen]
        if kind == "t":
            t = ex.sched.threads[what]
            out.append(t.name)
        else:
            out.append("flush:%s" % (what[2],))
    # compress runs
    comp = []
    for x in out:
        if comp and comp[-1][0] == x:
            comp[-1][1] += 1
        else:
            comp.append([x, 1])
    return " ".join("%s*%d" % (a, b) if b > 1 else a for a, b in comp)


# ---------------------------------------------------------------------------------------------------
def cfgs(tier):
    """configurations per tier; sized from measured costs (executions are ~1-3 ms each; a loaded machine is ~3x slower)"""
    out = []

    def add(mode, n, pool, mt, raising=(), tolerate=1, **kw):
        c = {"mode": mode, "n": n, "pool": pool, "max_tasks": mt, "raising": list(raising), "tolerate": tolerate}
        c.update(kw)
        out.append(c)
    full, pb = ("full",), (lambda k: ("pb", k))
    # in-process path and empty input (n <= 1 or pool == 1): trivial but part of the claim
    for n, pool in ((0, 2), (1, 2), (2, 1), (3, 1)):
        add(full, n, pool, 25)
        add(full, n, pool, 1, raising=(0,) if n else ())
    # tasks whose connection drops: retried up to net_retry times (in-process path and pool path, success after a
    # transient error, failure when every attempt fails, error raised directly or as the context of another one)
    for pool in (1, 2):
        add(full, 2, pool, 25, flaky=[[0, 1, "direct"]])
        add(full, 2, pool, 25, flaky=[[1, -1, "direct"]])
        add(full, 2, pool, 25, flaky=[[0, -1, "wrapped"], [1, 3, "wrapped"]])
        add(full, 2, pool, 25, flaky=[[0, 4, "direct"]], tolerate=0)
    add(full, 2, 2, 1, flaky=[[1, -1, "direct"]], api="run")
    # generator tasks that yield part of their result before the connection drops
    for pool in (1, 2):
        add(full, 2, pool, 25, flaky=[[0, 1, "gen"], [1, 0, "gen"]])
        add(full, 2, pool, 1, flaky=[[1, 2, "gen"]])
    add(full, 2, 2, 25, flaky=[[0, 2, "gen"], [1, -1, "gen"]], api="run")
    # a task whose result cannot be pickled (the pool turns it into a failure before it is queued; in-process it is the value)
    for pool in (1, 2):
        add(full, 2, pool, 25, unpicklable=[1])
    add(full, 2, 2, 1, unpicklable=[0], tolerate=0)
    add(full, 2, 2, 25, unpicklable=[0], api="run")
    # callbacks that are generators, and callbacks that fail for one id (in the parent and in the worker thread)
    for pool in (1, 2):
        add(full, 2, pool, 25, callback="gen")
        add(full, 2, pool, 25, callback="gen-raise", cb_fail=[1])
        add(full, 2, pool, 25, callback="raise", cb_fail=[0])
    add(full, 2, 2, 25, callback="gen-raise", cb_fail=[0], api="run")
    add(full, 2, 2, 25, callback="gen-raise", cb_fail=[1], in_thread_callback="gen-raise")
    if tier == "quick":
        for mt in (1, 25):
            add(full, 2, 2, mt)
            add(full, 2, 2, mt, raising=(0,))
            add(full, 2, 2, mt, raising=(1,), tolerate=0)
        add(full, 2, 2, 25, api="run")
        for (n, pool, mt) in ((3, 2, 25), (3, 2, 1), (4, 2, 2), (4, 2, 25)):
            add(pb(2), n, pool, mt)
            add(pb(2), n, pool, mt, raising=(1,))
            add(pb(2), n, pool, mt, raising=(1,), tolerate=0)
        add(pb(2), 3, 2, 2, in_thread_callback=1, callback=1)
        add(pb(2), 4, 2, 2, raising=(2,), api="run")
        for (n, pool, mt) in ((3, 3, 1), (4, 3, 2), (3, 3, 25), (5, 2, 2)):
            add(pb(1), n, pool, mt)
        return out
    # ---- thorough ---------------------------------------------------------------------------------
    for mt in (1, 2, 25):
        for raising in [()] + [(i,) for i in range(2)]:
            for tol in (1, 0):
                if tol == 0 and not raising:
                    continue
                add(full, 2, 2, mt, raising, tol)
    add(full, 2, 2, 25, api="run")
    add(full, 2, 2, 1, raising=(1,), api="run")
    for mt in (1, 2, 25):
        add(full, 3, 2, mt)
        add(full, 3, 2, mt, raising=(1,))
    add(full, 3, 2, 2, raising=(2,), tolerate=0)
    add(full, 3, 2, 2, callback=1)
    for (n, pool, mt) in ((3, 2, 25), (3, 2, 1), (4, 2, 2), (4, 2, 25), (4, 2, 3), (5, 2, 2)):
        add(pb(3), n, pool, mt)
        add(pb(3), n, pool, mt, raising=(1,))
        add(pb(3), n, pool, mt, raising=(0, n - 1))
        add(pb(3), n, pool, mt, raising=(1,), tolerate=0)
    for (n, pool, mt) in ((3, 3, 1), (4, 3, 2), (3, 3, 25)):
        add(pb(2), n, pool, mt)
        add(pb(2), n, pool, mt, raising=(1,))
    for (n, pool, mt) in ((5, 3, 2), (4, 4, 2), (5, 3, 3), (6, 3, 2), (6, 2, 3)):
        add(pb(1), n, pool, mt)
    add(pb(3), 3, 2, 2, in_thread_callback=1, callback=1)
    add(pb(3), 4, 2, 25, api="run")
    add(pb(3), 4, 2, 2, raising=(2,), api="run")
    return out


def e4_cfgs(tier):
    """(N, PS, Q, replay all edges on the implementation?)"""
    if tier == "quick":
        return [(2, 2, 1, True)]
    return [(2, 2, 1, True), (2, 2, 25, True), (3, 2, 2, True), (3, 2, 25, True), (3, 3, 1, True), (4, 2, 2, False),
            (4, 3, 2, False), (5, 3, 2, False), (5, 2, 3, False), (6, 2, 25, False), (6, 2, 3, False), (4, 4, 2, False)]


def blocks(tier, seed):
    bl = cfgs(tier)
    bl += [{"mode": ("callers",), "api": a, "n": 3, "pool": 1, "max_tasks": 25} for a in ("diff", "gen", "patch")]
    bl += [{"mode": ("e4",), "n": n, "pool": ps, "max_tasks": q, "conform": cf, "raising": [], "tolerate": 1}
           for (n, ps, q, cf) in e4_cfgs(tier)]
    # heavy blocks first for load balancing
    def cost(c):
        m = c["mode"]
        base = (c["n"] + 1) ** 3 * (8 ** (c["pool"] - 2)) if c["pool"] >= 2 else 1
        if m[0] == "full":
            return base * 4 * (2 if c["max_tasks"] < 25 else 1)
        if m[0] == "e4":
            return base * 6
        if m[0] == "callers":
            return 50
        return base * (0.3, 1, 3, 9)[m[1]]
    bl.sort(key=lambda c: -cost(c))
    return bl


def run_e4(cfg, ctx):
    """E4: TLC on models/PoolProto.tla (+ conformance replay of every edge of its state graph on the real code)"""
    import tempfile
    from models import conform
    with tempfile.TemporaryDirectory(prefix="c12e4-") as d:
        if cfg["conform"]:
            r = conform.conform(cfg["n"], cfg["pool"], cfg["max_tasks"], d)
        else:
            ok, counts, out, dot = conform.run_tlc(cfg["n"], cfg["pool"], cfg["max_tasks"], d, dump=False)
            r = {"tlc_ok": ok, "tlc_generated": counts[0], "tlc_distinct": counts[1], "edges": 0, "paths": 0, "steps": 0,
                 "problems": [] if ok else [("tlc", out[-1500:])], "uncovered": 0}
    if r["problems"] and r["problems"][0][0] == "tlc" and str(r["problems"][0][1]).startswith("TLC-INCOMPLETE"):
        # the model checker did not finish (time limit): nothing was decided for this configuration
        ctx.capped = True
        ctx.notes.append("E4 %r: TLC did not finish within its time limit" % ((cfg["n"], cfg["pool"], cfg["max_tasks"]),))
        ctx.outcomes["e4:tlc-incomplete"] += 1
        return
    if any(pr[0] == "layout" for pr in r["problems"]):
        ctx.capped = True
        ctx.notes.append("E4 %r: conformance replay not run - %s" % ((cfg["n"], cfg["pool"], cfg["max_tasks"]),
                                                                      next(pr[1] for pr in r["problems"] if pr[0] == "layout")))
        ctx.outcomes["e4:abstraction-does-not-fit"] += 1
        return
    ctx.evals += r["paths"] + 1
    ctx.states += r["tlc_distinct"]
    ctx.transitions += r["tlc_generated"]
    ctx.extra["traces_validated"] += r["paths"]
    ctx.extra["e4_model_states"] += r["tlc_distinct"]
    ctx.extra["e4_model_edges_replayed_on_impl"] += r["edges"] - r.get("uncovered", 0) if cfg["conform"] else 0
    ctx.extra["e4_impl_steps_compared"] += r["steps"]
    ctx.outcomes["e4:%s" % ("model+conformance ok" if not r["problems"] else "problem")] += 1
    ctx.sample({"cfg": cfg, "tlc_states": r["tlc_distinct"], "edges": r["edges"], "paths_replayed": r["paths"]})
    case = {"cfg": {k: v for k, v in cfg.items() if k != "mode"}, "e4": True}
    for kind, detail in r["problems"][:2]:
        if kind in ("state-mismatch", "enabled-mismatch"):
            # the implementation left the model: the MODEL is not bound to this tree, so nothing the model checker found
            # for it transfers.  Whether the tree breaks the property is decided by E3, which explores every interleaving of
            # this very configuration on the real code with the property's own oracle (a lost or duplicated result shows
            # there); a benign re-ordering of internal steps shows only here.  Noted, run not exhaustive, never a finding.
            ctx.capped = True
            ctx.outcomes["e4:model-not-bound-to-this-tree"] += 1
            if len(ctx.notes) < 4:
                ctx.notes.append("E4 %r: conformance replay left the model (%s): %s" % ((cfg["n"], cfg["pool"], cfg["max_tasks"]), kind, repr(detail)[:600]))
        else:
            ctx.violation({"kind": "e4-" + kind, "api": "irun"}, case, repr(detail)[:1500])
    if r.get("uncovered") and not r["problems"]:
        ctx.capped = True
        ctx.notes.append("E4 %r: %d edges of the model graph were not replayed" % ((cfg["n"], cfg["pool"], cfg["max_tasks"]), r["uncovered"]))


CALLER_DEVICES = [
    {"hostname": "f1", "model": "Huawei CE6870-48S6CQ-EI", "old": [["sysname a", []]], "gens": [([["sysname b", []]], False)]},
    {"hostname": "f2", "model": "Huawei CE6870-48S6CQ-EI", "old": [["sysname a", []], ["vlan 5", []]], "gens": [([["sysname a", []]], False)]},
    {"hostname": "f3", "model": "Huawei CE6870-48S6CQ-EI", "old": [["sysname c", []]], "gens": [([["sysname c", []]], False)]},
]
CALLER_FAILS = 3        # the generator of this device raises


def caller_selections():
    import itertools
    return [list(sel) for n in (1, 2, 3) for sel in itertools.permutations((1, 2, 3), n)]


def judge_callers(api_name, sel, progress, fab):
    """-> [(sig, detail)] for one call of annet.api.<api_name> (pool of one process: the in-process path of Parallel)"""
    import logging
    from annet import api, cli_args
    from mc import e2e
    base = fab.loader

    class Restricted(type(base)):
        device_ids = property(lambda s_: list(sel))
        devices = property(lambda s_: [fab.devs[i] for i in sel])
        device_fqdns = property(lambda s_: {i: fab.devs[i].fqdn for i in sel})
    kw = dict(query=e2e._harness_query(), no_acl_exclusive=True, parallel=1, show_hosts_progress=progress, tolerate_fails=True)
    logging.getLogger("progress").disabled = True
    try:
        if api_name == "diff":
            args = cli_args.DiffOptions(config=fab.dir, **kw)
            success, fail = api.diff(args, base, list(sel))
        elif api_name == "gen":
            args = cli_args.ShowGenOptions(indent="  ", **kw)
            success, fail = api.gen(args, Restricted())
        else:
            args = cli_args.ShowPatchOptions(config=fab.dir, indent="  ", **kw)
            success, fail = api.patch(args, Restricted())
    except Exception as e:  # noqa
        from mc import core
        if core.raised_in_harness(e):
            raise
        return [({"kind": "caller-raised", "api": "api." + api_name, "exc": type(e).__name__}, repr(e)[:300])]
    out = []
    got = sorted(list(success) + list(fail), key=repr)
    if got != sorted(sel, key=repr):
        extra = [i for i in got if i not in sel]
        out.append(({"kind": "caller-outcomes-differ-from-submitted-ids", "api": "api." + api_name,
                     "shape": "outcomes for ids never submitted" if extra else "ids without outcome or delivered twice"},
                    "submitted %r, outcomes for %r (success %r, fail %r)" % (sel, got, sorted(success), sorted(fail))))
        return out
    want_fail = [i for i in sel if i == CALLER_FAILS]
    if sorted(fail) != want_fail:
        out.append(({"kind": "caller-failure-misreported", "api": "api." + api_name},
                    "submitted %r: failures reported for %r, the generator of %r raises" % (sel, sorted(fail), want_fail)))
    return out


_CALLER_FAB = []


def caller_fabric():
    if not _CALLER_FAB:
        from mc import e2e
        fab = e2e.Fabric(CALLER_DEVICES)
        dev = fab.devs[CALLER_FAILS]
        g = fab.gens[dev][0]

        def boom(device):
            raise TaskError("the generator of %s fails" % device.hostname)
            yield       # noqa
        setattr(g, "run_" + dev.hw.vendor, boom)
        _CALLER_FAB.append(fab)
    return _CALLER_FAB[0]


def run_callers(cfg, ctx):
    fab = caller_fabric()
    for sel in caller_selections():
        for progress in (False, True):
            probs = judge_callers(cfg["api"], sel, progress, fab)
            ctx.evals += 1
            ctx.states += 1
            ctx.nontrivial += int(len(sel) > 1)
            ctx.outcomes["callers:%s:%s" % (cfg["api"], "ok" if not probs else probs[0][0]["kind"])] += 1
            for sig, detail in probs[:1]:
                ctx.violation(sig, {"callers": {"api": cfg["api"], "sel": sel, "progress": progress}}, detail)
    ctx.sample({"part": "callers", "api": cfg["api"], "selections": len(caller_selections())})


def run_block(cfg, ctx):
    mode = cfg["mode"]
    if mode[0] == "e4":
        return run_e4(cfg, ctx)
    if mode[0] == "callers":
        return run_callers(cfg, ctx)
    c = {k: v for k, v in cfg.items() if k != "mode"}
    bound = None if mode[0] == "full" else mode[1]
    done, nstates, execs = explore(c, bound, ctx, ctx.violation)
    ctx.states += nstates
    ctx.extra["full_mode_configs_closed" if bound is None else "pb_mode_configs_completed"] += 1 if done else 0
    ctx.extra["executions"] += execs
    ctx.sample({"cfg": cfg, "states": nstates, "executions": execs, "closed": done})
    # determinism: replay one schedule per block twice and compare observations
    ex1 = Execution(c, []).go()
    ch = ex1.sched.choices_taken()
    ex2 = Execution(c, ch).go()
    if (ex1.delivered, ex1.end, ex1.sched.choices_taken()) != (ex2.delivered, ex2.end, ex2.sched.choices_taken()):
        ctx.violation({"kind": "harness-nondeterminism"}, {"cfg": c, "schedule": ch}, "two replays differ")
    ctx.extra["schedules_replayed_twice"] += 1
    ctx.samples.insert(0, {"cfg": cfg, "one_complete_schedule": describe(ex1), "choices": ch,
                           "delivered": [list(map(str, d)) for d in ex1.delivered], "end": list(ex1.end or ())})


def replay(case):
    if case.get("e4"):
        from mc.core import Ctx
        c = Ctx(1e18, "thorough", 0)
        run_e4(dict(case["cfg"], mode=("e4",)), c)
        return [(v["sig"], v["cases"][0]["detail"]) for v in c._viol.values()]
    if "callers" in case:
        c = case["callers"]
        return judge_callers(c["api"], c["sel"], c["progress"], caller_fabric())
    if "real" in case:
        rounds, bad = real_flush_before_exit(30)
        grid = real_pool_grid()
        out = []
        if bad:
            out.append(({"kind": "model-assumption-violated", "assumption": "flush-before-exit"}, "%d/%d" % (bad, rounds)))
        out += [({"kind": "real-pool-lost-results", "api": "irun"}, repr(g)) for g in grid if not g["ok"]]
        return out
    cfg = case["cfg"]
    ex = Execution(cfg, case["schedule"]).go()
    out = [(dict(sig, api=cfg.get("api", "irun")), detail + " | schedule=%s" % describe(ex)) for sig, detail in ex.judge()]
    return out


# ---------------------------------------------------------------------------------------------------
# Binding the virtual primitives to the real library (thorough tier, supplementary - runs in the driver process)

def _real_flush_child(q, k):
    for i in range(k):
        q.put(("item", i, "x" * 2000))


def real_flush_before_exit(rounds=60):
    """assumption (b): once a real child process is reported dead, everything it put is readable without waiting"""
    import multiprocessing as mp
    import queue as _q
    ctx = mp.get_context("fork")
    bad = 0
    for r in range(rounds):
        k = 1 + r % 7
        q = ctx.Queue()
        p = ctx.Process(target=_real_flush_child, args=(q, k))
        p.start()
        while p.exitcode is None:
            pass
        got = 0
        try:
            for _ in range(k):
                q.get(True, 0)
                got += 1
        except _q.Empty:
            bad += 1
        p.join()
        q.close()
    return rounds, bad


def _real_task(i):
    return ("ok", i * 10 + 1)


def real_pool_grid():
    """(c) the real pool with real processes, once per grid point, slow consumer"""
    import time
    import annet.parallel as par
    out = []
    for n in (2, 6, 40):
        for pool in (2, 8):
            ids = list(range(n))
            got = []
            for r in par.Parallel(_real_task).tune(parallel=pool, max_tasks=3).irun(ids):
                if len(got) < 3:
                    time.sleep(0.05)
                got.append((r.device_id, r.result))
            out.append({"n": n, "pool": pool, "delivered": len(got),
                        "ok": sorted(got) == [(i, _real_task(i)) for i in ids]})
    return out


def finish(merged, tier):
    if tier != "thorough":
        return
    rounds, bad = real_flush_before_exit()
    merged["extra"]["real_mp_flush_before_exit_rounds"] += rounds
    merged["extra"]["real_mp_flush_before_exit_failures"] += bad
    if bad:
        merged["viol"]["model-assumption"] = {"sig": {"kind": "model-assumption-violated", "assumption": "flush-before-exit"},
                                              "count": bad, "cases": [{"case": {"real": "flush"}, "detail": "%d of %d rounds: item not readable after exitcode was set" % (bad, rounds)}]}
    grid = real_pool_grid()
    merged["extra"]["real_pool_grid_points"] += len(grid)
    merged["notes"].append("real multiprocessing grid (supplementary, non-deciding): %r" % grid)
    for g in grid:
        if not g["ok"]:
            merged["viol"]["real-pool-%d-%d" % (g["n"], g["pool"])] = {
                "sig": {"kind": "real-pool-lost-results", "api": "irun"}, "count": 1,
                "cases": [{"case": {"real": g}, "detail": repr(g)}]}
