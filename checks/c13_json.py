"""C13 - JSON fragments stay inside their pointers; JSON patches reproduce the target.

Part F  r = apply_json_fragment(old, f, acl) for every (old, f) of one schema and every pointer list of <= 2 glob
        patterns: on the selected parts r equals f (absent in f => absent in r), elsewhere r equals old, and merging
        again changes nothing.  Judged by mc.ref.jsonref.judge_fragment (flattened path sets).
Part P  json.loads(apply_patch(dumps(old), dumps(make_patch(old, new)))) == new for every ordered pair of one schema; and
        the production caller annet.api.PCDeployerJob.parse_result queues, for a JSON-fragment file, exactly the text
        of that patch, iff the documents differ, together with the file's reload command.
Part A  apply_acl_filters(d, F) is a sub-document of d lying inside the parts F selects.
Part C  RunGeneratorResult.new_json_fragment_files with two generators over one file, in both orders (plus a third
        generator on another file, running last, first and between the two): equals the two merges done one after the other, the second merge is judged by the
        reference, and generators with disjoint selections commute.
"""
from __future__ import annotations

import functools
import itertools
import json

from mc import env
from mc.ref import jsonref as R

PID = "C13"
ENGINE = "E1 bounded-exhaustive enumeration (schema-compatible document pairs x pointer lists) against a set-theoretic reference"
RULE = ("A case is (old, fragment, pointer list) [part F], an ordered pair (old, new) [P], (document, filter list) [A] or "
        "(old|absent, generator1, generator2, order) [C]. Pairs of documents are enumerated jointly, slot by slot, so that "
        "a path has one kind (object / array / scalar) in both; every case is distinct by construction (families are "
        "disjoint: by number of filled leaf slots and by the special key having to occur). Non-trivial: F - the pointer "
        "list selects a part on which fragment and old differ; P - old != new; A - the filter keeps some but not all "
        "leaves; C - both generators select something.")
ASSUMPTIONS = [
    "apply_json_fragment is deterministic: when r == old the re-application for idempotence is the identical call and is skipped",
    "selection semantics of a glob pointer: objects offer their keys, arrays their indices, scalars (strings included) nothing; "
    "'*' any run of characters, tokens are RFC 6901 unescaped before matching",
    "selecting single array elements can demand a hole in an array (e.g. remove index 0, keep index 1); such cases are "
    "unsatisfiable by any implementation and are counted, not judged",
    "a pointer into an array that the old document lacks may be materialised as an object with the index as key; paths are "
    "compared as RFC 6901 pointer strings, so this is counted (kind_mismatch) but not a violation",
    "argument mutation is counted; a rewritten `old` argument is judged by its consequence for the callers, who build the "
    "uploaded patch from the very object they passed in (make_patch(old, merged) must still turn the device document into "
    "the merged one)",
    "the filter clause is read as: every leaf of the result is a leaf of d AND lies inside a part selected by the filters",
]
BUDGET = {"quick": 600, "thorough": 3600}

SCAL4 = [0, 1, "s", None]
SCAL2 = [0, "s"]
SPECIAL = ["a/b", "m~n", "x|y", "*"]
PATH = "/etc/c13.json"
OTHER = "/etc/c13-other.json"


def _arrays(elems, n):
    out = []
    for k in range(n + 1):
        out.extend(list(t) for t in itertools.product(elems, repeat=k))
    return out


VALS = {
    "full": (SCAL4, _arrays(SCAL4, 3)),          # 4 scalars, 85 arrays
    "mid": (SCAL4, _arrays(SCAL2, 3)),           # 4 scalars, 15 arrays
    "small": (SCAL2, _arrays(SCAL2, 2)),         # 2 scalars, 7 arrays
    "tiny": (SCAL2, [[], [0]]),
    "fmid": (SCAL4, [[], [0], ["s"], [0, "s"], ["s", 0, 0]]),   # part F: lengths 0..3, both element types
    "fsmall": (SCAL2, [[], [0], [0, "s"]]),
    # values that Python's == holds equal and JSON does not: 1 / true / 1.0, 0 / false
    "twins": ([0, 1, True, False, 1.0], [[], [1], [True]]),
}

# family: part, keys, depth, lo<=slots<=hi, value alphabet, must (a key that has to occur or None), m (sub-blocks)
FAMILIES = {
    "quick": [
        dict(part="F", keys=["a", "b"], depth=3, lo=0, hi=1, vals="fmid", must=None, m=12),
        dict(part="F", keys=["a", "b"], depth=2, lo=2, hi=2, vals="tiny", must=None, m=40),
    ] + [dict(part="F", keys=["a", k], depth=3, lo=0, hi=1, vals="fmid", must=k, m=6) for k in SPECIAL] + [
        # two sibling members of which one has a special key (a key spelled like a glob next to a key the glob matches)
        dict(part="F", keys=["a", k], depth=2, lo=2, hi=2, vals="tiny", must=k, m=8) for k in ("*",)] + [
        dict(part="A", keys=["a", "*"], depth=2, lo=2, hi=2, vals="tiny", must="*", m=2),
        dict(part="P", keys=["a", "b"], depth=3, lo=0, hi=1, vals="full", must=None, m=12),
        dict(part="P", keys=["a", "b"], depth=2, lo=2, hi=2, vals="small", must=None, m=12),
        dict(part="P", keys=["a", "b"], depth=2, lo=0, hi=2, vals="twins", must=None, m=8),
        dict(part="F", keys=["a", "b"], depth=2, lo=0, hi=1, vals="twins", must=None, m=4),
    ] + [dict(part="P", keys=["a", k], depth=2, lo=0, hi=1, vals="full", must=k, m=3) for k in SPECIAL] + [
        dict(part="A", keys=["a", "b"], depth=3, lo=0, hi=2, vals="fsmall", must=None, m=12),
    ] + [dict(part="A", keys=["a", k], depth=3, lo=0, hi=1, vals="fmid", must=k, m=1) for k in SPECIAL] + [
        dict(part="C", keys=["a", "b"], depth=2, lo=0, hi=1, vals="tiny", must=None, m=16, npat=4),
    ],
    "thorough": [
        dict(part="F", keys=["a", "b"], depth=3, lo=0, hi=1, vals="mid", must=None, m=16),
        dict(part="F", keys=["a", "b"], depth=3, lo=2, hi=2, vals="tiny", must=None, m=96),
        dict(part="F", keys=["a", "b", "a/b"], depth=2, lo=0, hi=2, vals="tiny", must="a/b", m=24),
    ] + [dict(part="F", keys=["a", k], depth=3, lo=0, hi=1, vals="mid", must=k, m=8) for k in SPECIAL]
      + [dict(part="F", keys=["a", k], depth=2, lo=2, hi=2, vals="fsmall", must=k, m=16) for k in SPECIAL] + [
        dict(part="P", keys=["a", "b"], depth=3, lo=0, hi=1, vals="full", must=None, m=8),
        dict(part="P", keys=["a", "b"], depth=3, lo=2, hi=2, vals="small", must=None, m=48),
        dict(part="P", keys=["a", "b"], depth=2, lo=3, hi=3, vals="small", must=None, m=48),
        dict(part="P", keys=["a", "b"], depth=3, lo=0, hi=2, vals="twins", must=None, m=16),
        dict(part="F", keys=["a", "b"], depth=3, lo=0, hi=2, vals="twins", must=None, m=16),
    ] + [dict(part="P", keys=["a", k], depth=2, lo=0, hi=2, vals="small", must=k, m=8) for k in SPECIAL] + [
        dict(part="A", keys=["a", "b"], depth=3, lo=0, hi=2, vals="small", must=None, m=24),
        dict(part="A", keys=["a", "b", "a/b"], depth=2, lo=0, hi=2, vals="tiny", must="a/b", m=2),
    ] + [dict(part="A", keys=["a", k], depth=3, lo=0, hi=2, vals="fsmall", must=k, m=4) for k in SPECIAL] + [
        dict(part="C", keys=["a", "b"], depth=2, lo=0, hi=1, vals="tiny", must=None, m=32, npat=9),
    ],
}


def bound_text(tier):
    out = []
    for fam in FAMILIES[tier]:
        sc, ar = VALS[fam["vals"]]
        out.append("%s: keys %s depth<=%d slots %d..%d scalars %d arrays %d%s" % (
            fam["part"], "/".join(repr(k) for k in fam["keys"]), fam["depth"], fam["lo"], fam["hi"], len(sc), len(ar),
            (" (key %r occurs)" % fam["must"]) if fam["must"] else ""))
    return ("document pairs enumerated jointly with <= 'slots' leaf slots in the union of both documents (an array is one "
            "slot); F: x all lists of 1..2 distinct patterns out of <= 13 per key set; P: all ordered pairs "
            "(each also through PCDeployerJob.parse_result); A: all "
            "documents x the same lists; C: all compatible triples x pattern pairs x 2 orders x 3 positions of another file's "
            "generator. Families: " + "; ".join(out))


def setup():
    env.setup()
    env.install_harness_deploy_driver()
    import annet.annlib.jsontools  # noqa: F401
    import annet.generators.result  # noqa: F401


# ------------------------------------------------------------------------------------------------ enumeration
ABS = R.ABSENT


def _slot_options(keys, depth, budget, po, pf, vals):
    """all (vo, vf, used) for one member: at least one side present, a side only if its parent exists (po / pf),
    both sides of the same kind.  depth = further object nesting allowed."""
    return _slot_options_c(tuple(keys), depth, budget, po, pf, vals)


@functools.lru_cache(maxsize=None)
def _slot_options_c(keys, depth, budget, po, pf, vals):
    if budget < 1:
        return ()
    scal, arrs = VALS[vals]
    out = []
    so = list(scal) if po else []
    sf = list(scal) if pf else []
    for vo in so + [ABS]:
        for vf in sf + [ABS]:
            if vo is ABS and vf is ABS:
                continue
            out.append((vo, vf, 1))
    ao = list(arrs) if po else []
    af = list(arrs) if pf else []
    for vo in ao + [ABS]:
        for vf in af + [ABS]:
            if vo is ABS and vf is ABS:
                continue
            out.append((vo, vf, 1))
    if depth > 0:
        for oo in ([True] if po else []) + [False]:
            for of in ([True] if pf else []) + [False]:
                if not oo and not of:
                    continue
                for co, cf, u in _obj_options(keys, keys, depth, budget, oo, of, vals):
                    out.append((co if oo else ABS, cf if of else ABS, max(u, 1)))
    return tuple(out)


def _obj_options(top_keys, keys, depth, budget, oo, of, vals, first=None):
    """joint objects (dict_old, dict_f, used); members of top_keys take values of nesting depth-1.
    `first` restricts the options of the first key (used to partition the space into blocks)."""
    res = [({}, {}, 0)]
    for n, k in enumerate(top_keys):
        new = []
        for do, df, u in res:
            opts = [None] + list(_slot_options(keys, depth - 1, budget - u, oo, of, vals))
            if n == 0 and first is not None:
                j, m = first
                opts = opts[j::m]
            for opt in opts:
                if opt is None:
                    new.append((do, df, u))
                    continue
                vo, vf, uu = opt
                if u + uu > budget:
                    continue
                d1, d2 = dict(do), dict(df)
                if vo is not ABS:
                    d1[k] = vo
                if vf is not ABS:
                    d2[k] = vf
                new.append((d1, d2, u + uu))
        res = new
    return res


def _uses_key(doc, key):
    if isinstance(doc, dict):
        return any(k == key or _uses_key(v, key) for k, v in doc.items())
    return False


def pairs_of(fam, j):
    """block j of the family's schema-compatible (old, other) pairs, simplest first"""
    raw = _obj_options(fam["keys"], fam["keys"], fam["depth"], fam["hi"], True, True, fam["vals"], first=(j, fam["m"]))
    out = []
    for do, df, u in raw:
        if not fam["lo"] <= u <= fam["hi"]:
            continue
        if fam["must"] and not (_uses_key(do, fam["must"]) or _uses_key(df, fam["must"])):
            continue
        out.append((u, len(repr(do)) + len(repr(df)), do, df))
    out.sort(key=lambda t: (t[0], t[1]))
    return [(do, df) for _, _, do, df in out]


def docs_of(fam, j):
    raw = _obj_options(fam["keys"], fam["keys"], fam["depth"], fam["hi"], True, False, fam["vals"], first=(j, fam["m"]))
    out = []
    for do, _, u in raw:
        if not fam["lo"] <= u <= fam["hi"]:
            continue
        if fam["must"] and not _uses_key(do, fam["must"]):
            continue
        out.append((u, len(repr(do)), do))
    out.sort(key=lambda t: (t[0], t[1]))
    return [d for _, _, d in out]


def patterns_for(keys):
    e = [R.escape(k) for k in keys]
    k1, k2 = e[0], e[1] if len(e) > 1 else e[0]
    pats = ["/" + k for k in e] + [
        "/*", "/%s/*" % k1, "/*/%s" % k2, "/%s/%s" % (k1, k2), "/*/*", "/%s/*" % k2,
        "/%s/%s/0" % (k1, k2), "/%s/%s/*" % (k1, k2), "/%s/*/1" % k1, "/*/*/*", "/%s*" % k1[0],
    ]
    out = []
    for p in pats:
        if p not in out:
            out.append(p)
    return out


def acl_lists(pats):
    return [[p] for p in pats] + [[p, q] for p in pats for q in pats if p != q]


def blocks(tier, seed):
    bl = []
    for i, fam in enumerate(FAMILIES[tier]):
        for j in range(fam["m"]):
            bl.append({"part": fam["part"], "fam": i, "j": j})
    return bl


# ------------------------------------------------------------------------------------------------ judging real code
def _exc_class(e):
    msg = str(e)
    for needle, name in (("not found in", "member-not-found"), ("invalid escape", "invalid-escape"),
                         ("does not support indexing", "index-into-scalar"), ("not a valid sequence index", "bad-index"),
                         ("out of bounds", "index-out-of-bounds"), ("out of range", "index-out-of-range"),
                         ("item assignment", "item-assignment"), ("indices must be", "list-index-type"),
                         ("can't replace", "cannot-replace"), ("can't remove", "cannot-remove"),
                         ("non-existent", "non-existent-object")):
        if needle in msg:
            return name
    return "other"


def _no_strings(v):
    if isinstance(v, dict):
        return {k: _no_strings(x) for k, x in v.items()}
    if isinstance(v, list):
        return [_no_strings(x) for x in v]
    return 7 if isinstance(v, str) else v


def _rename_keys(v, chars):
    if isinstance(v, dict):
        return {_rename(k, chars): _rename_keys(x, chars) for k, x in v.items()}
    if isinstance(v, list):
        return [_rename_keys(x, chars) for x in v]
    return v


def _rename(key, chars):
    for c in chars:
        key = key.replace(c, "_")
    return key


def _rename_pattern(pat, chars):
    return R.format_pointer([_rename(t, chars) for t in R.parse_pointer(pat.strip())])


def _needs(still_fails, acl, docs):
    """Label a violation by the input feature it needs.  A feature is blamed only if the same case with that feature
    neutralised (string scalars turned into the number 7; '/' and '~' in keys and patterns turned into '_') no longer
    shows the same symptom: still_fails(docs', acl') -> bool re-runs the real code.  Used for the signature only, never
    for the verdict."""
    ft = R.features(acl, *docs)
    if ft["string"] and not still_fails([_no_strings(d) for d in docs], acl):
        return "string scalar below a pattern"
    for chars in list(ft["special"]) + ([ft["special"]] if len(ft["special"]) > 1 else []):
        if not still_fails([_rename_keys(d, chars) for d in docs], [_rename_pattern(p, chars) for p in acl]):
            return "key containing " + " or ".join(repr(c) for c in chars)
    if ft["string"] and ft["special"]:
        if not still_fails([_no_strings(_rename_keys(d, ft["special"])) for d in docs],
                           [_rename_pattern(p, ft["special"]) for p in acl]):
            return "string scalar below a pattern + key containing '/' or '~'"
    return "array element selected" if ft["element"] else "none"


def _finish(raw, rerun, acl, docs):
    """raw violations [(kind, fine, detail)] -> [(sig, detail)].  `fine` (exception type, first discrepancy...) is the symptom;
    the blamed feature is the one whose neutralisation makes this very symptom disappear."""
    out = []
    for kind, fine, detail in raw:
        sym = (kind, sorted(fine.items()))
        n = _needs(lambda d2, a2: any((k, sorted(fi.items())) == sym for k, fi, _ in rerun(d2, a2)), acl, docs)
        site, symptom = kind.split(":")
        sig = {"kind": site, "needs": n}
        if n in ("array element selected", "none"):
            sig["symptom"] = symptom
            sig.update(fine)
        out.append((sig, "[%s] %s" % (symptom, detail)))
    return out


def fragment_case(old, f, acl):
    """-> (label, nontrivial, violations[(sig, detail)], evals, counters)"""
    label, nontrivial, raw, evals, counters = _fragment_raw(old, f, acl)
    viol = _finish(raw, lambda d2, a2: _fragment_raw(d2[0], d2[1], a2)[2], acl, [old, f]) if raw else []
    return label, nontrivial, viol, evals, counters


def _fragment_raw(old, f, acl):
    from annet.annlib import jsontools as jt
    viol, counters = [], {}
    sel = R.selection(acl, f, old)
    nontrivial = any(not R.same_value(R.get(f, p), R.get(old, p)) for p in sel)
    sat = R.array_selection_satisfiable(old, f, sel)
    a_old, a_f, a_acl = R.clone(old), R.clone(f), list(acl)
    evals = 1
    try:
        r = jt.apply_json_fragment(a_old, a_f, a_acl)
    except Exception as e:  # noqa
        label = "F:%s:exception:%s" % ("judged" if sat else "unsat", type(e).__name__)
        if sat:
            viol.append(("fragment:exception", {"exc": type(e).__name__, "msg": _exc_class(e)},
                         "apply_json_fragment(%s, %s, %s) raised %s: %s; the reference selects %s" % (
                json.dumps(old), json.dumps(f), json.dumps(acl), type(e).__name__, e,
                sorted(R.format_pointer(p) for p in sel))))
        return label, nontrivial, viol, evals, counters
    if not (R.same_value(a_old, old) and R.same_value(a_f, f) and a_acl == list(acl)):
        counters["argument_mutated"] = 1
    if r is a_old:
        counters["result_is_argument"] = 1
    if not R.same_value(a_old, old):
        # the callers (RunGeneratorResult.new_json_fragment_files -> api._patch_worker / PCDeployerJob.parse_result) keep the
        # very object they passed as `old` and build the patch from it: if the merge wrote into it, is the patch they
        # build still the one that turns the device's document into the merged one?
        try:
            pt = jt.make_patch(a_old, r)
            applied = json.loads(jt.apply_patch(json.dumps(old).encode(), json.dumps(pt).encode()))
            stale = not R.same_value(applied, R.clone(r))
        except Exception as e:  # noqa
            stale, pt, applied = True, None, "%s: %s" % (type(e).__name__, e)
        evals += 2
        if stale:
            viol.append(("fragment:old-document-rewritten", {"effect": "the callers' patch no longer reproduces the target"},
                         "apply_json_fragment(%s, %s, %s) rewrote its `old` argument to %s; make_patch(old as the caller "
                         "holds it, result) = %s, applied to the device document gives %s instead of %s" % (
                json.dumps(old), json.dumps(f), json.dumps(acl), json.dumps(a_old), json.dumps(pt), json.dumps(applied),
                json.dumps(R.clone(r)))))
            return "F:old-rewritten", nontrivial, viol, evals, counters
    r = R.clone(r)
    status, problems, info = R.judge_fragment(old, f, acl, r, sel)
    if info["kind_mismatch"]:
        counters["kind_mismatch"] = 1
    changed = not R.same_value(r, old)
    label = "F:%s:%s:%s" % ("unsat" if status == "unsat" else "viol" if problems else "ok",
                            "sel" if sel else "nosel", "changed" if changed else "same")
    if status == "unsat":
        return label, nontrivial, viol, evals, counters
    if problems:
        p0 = problems[0]
        viol.append(("fragment:wrong-result", {"how": p0["code"], "where": p0.get("where", "-")},
                     "apply_json_fragment(%s, %s, %s) = %s; %s" % (
            json.dumps(old), json.dumps(f), json.dumps(acl), json.dumps(r), json.dumps(problems[:4]))))
        return label, nontrivial, viol, evals, counters
    if changed:
        evals += 1
        try:
            r2 = jt.apply_json_fragment(R.clone(r), R.clone(f), list(acl))
        except Exception as e:  # noqa
            viol.append(("fragment:not-idempotent", {"how": "exception:" + type(e).__name__},
                         "apply_json_fragment(%s, %s, %s) = %s; applying again raised %s: %s" % (
                json.dumps(old), json.dumps(f), json.dumps(acl), json.dumps(r), type(e).__name__, e)))
            return label + ":idem-exc", nontrivial, viol, evals, counters
        if not R.same_value(r2, r):
            viol.append(("fragment:not-idempotent", {"how": "result changes"},
                         "apply_json_fragment(%s, %s, %s) = %s; applying again gives %s" % (
                json.dumps(old), json.dumps(f), json.dumps(acl), json.dumps(r), json.dumps(r2))))
            label += ":idem-diff"
    return label, nontrivial, viol, evals, counters


def _touches_array(ops, old, new):
    for op in ops:
        for key in ("path", "from"):
            if key in op:
                parent = tuple(R.parse_pointer(op[key]))[:-1]
                if isinstance(R.get(old, parent), list) or isinstance(R.get(new, parent), list):
                    return True
    return False


def patch_case(old, new):
    from annet.annlib import jsontools as jt
    import jsonpatch
    viol = []
    a_old, a_new = R.clone(old), R.clone(new)
    try:
        patch = jt.make_patch(a_old, a_new)
    except Exception as e:  # noqa
        viol.append(({"kind": "make_patch-exception", "exc": type(e).__name__},
                     "make_patch(%s, %s) raised %s: %s" % (json.dumps(old), json.dumps(new), type(e).__name__, e)))
        return "P:make-exception", False, viol, 1, {}
    counters = {}
    if not (R.same_value(a_old, old) and R.same_value(a_new, new)):
        counters["argument_mutated"] = 1
    ops = "+".join(sorted({op["op"] for op in patch})) or "none"
    label = "P:%d:%s" % (len(patch), ops)
    got, exc = None, None
    try:
        out = jt.apply_patch(json.dumps(old).encode(), json.dumps(patch).encode())
        got = json.loads(out)
    except Exception as e:  # noqa
        exc = e
    if exc is None and R.same_value(got, new):
        return label, bool(patch), viol, 2, counters
    # diagnosis only: is it the order annet gives the operations?
    lib = jsonpatch.make_patch(R.clone(old), R.clone(new)).patch
    try:
        lib_ok = R.same_value(jsonpatch.JsonPatch(R.clone(lib)).apply(R.clone(old)), new)
    except Exception:  # noqa
        lib_ok = False
    # one signature per root cause: the library's operation list works and annet's re-ordered list does not, or the
    # library's own list is already wrong
    sig = {"kind": "make_patch-roundtrip", "shape": "array" if _touches_array(patch, old, new) else "object",
           "cause": ("operations re-ordered by make_patch's sort" if lib_ok and lib != patch else
                     "jsonpatch's own operation list does not reproduce the target" if not lib_ok else "unknown")}
    viol.append((sig, "old=%s new=%s patch=%s applied=%s; jsonpatch's own order %s gives %s" % (
        json.dumps(old), json.dumps(new), json.dumps(patch),
        json.dumps(got) if exc is None else "%s: %s" % (type(exc).__name__, exc), json.dumps(lib),
        "new" if lib_ok else "something else")))
    return label + ":viol", bool(patch), viol, 2, counters


_JOB_DEV = {}


def job_case(old, new):
    """part P, production caller: annet.api.PCDeployerJob.parse_result for one JSON-fragment file - what it queues for
    upload must be the text of make_patch(old, new), queued iff the documents differ, with the reload command"""
    import types
    from collections import OrderedDict as odict
    from annet import api, cli_args
    from annet.annlib import jsontools as jt
    from annet.types import OldNewResult
    viol = []
    if "dev" not in _JOB_DEV:
        class Dev(types.SimpleNamespace):
            __hash__ = object.__hash__
        _JOB_DEV["dev"] = Dev(hw=env.hw("pc"), hostname="h", fqdn="h.example", id=1, breed="pc")
        _JOB_DEV["args"] = env.deploy_options(entire_reload=cli_args.EntireReloadFlag("yes"))
    dev = _JOB_DEV["dev"]
    res = OldNewResult(device=dev, old=odict(), new=odict(), acl_rules=None, old_files={}, new_files={}, partial_result=[],
                       entire_result=[], old_json_fragment_files={PATH: (None if old is None else R.clone(old))},
                       new_json_fragment_files={PATH: (R.clone(new), "reload-x")}, json_fragment_result={}, implicit_rules=None,
                       perf={}, acl_safe_rules=None, safe_old=odict(), safe_new=odict(), safe_new_files={},
                       safe_new_json_fragment_files={}, filter_acl_rules=None)
    job = api.DeployerJob.from_device(dev, _JOB_DEV["args"])
    txt = "old=%s new=%s" % (json.dumps(old), json.dumps(new))
    if old is None:
        # the file does not exist on the device yet (annet.gen hands None for it): the patch that is uploaded must build the
        # generated document out of nothing - judged by applying it, as the receiving side does (apply_patch(None, patch))
        try:
            job.parse_result(res)
        except Exception as e:  # noqa
            viol.append(({"kind": "job-absent-file", "what": "exception", "exc": type(e).__name__}, "%s: %s: %s" % (txt, type(e).__name__, e)))
            return viol
        entry = job.deploy_cmds.get(dev)
        if entry is None or set(entry["files"]) != {PATH}:
            viol.append(({"kind": "job-absent-file", "what": "not-queued"}, "%s queued=%r" % (txt, entry and entry["files"])))
            return viol
        try:
            got = json.loads(jt.apply_patch(None, entry["files"][PATH]))
        except Exception as e:  # noqa
            viol.append(({"kind": "job-absent-file", "what": "uploaded patch does not apply to a missing file", "exc": type(e).__name__},
                         "%s patch=%r: %s: %s" % (txt, entry["files"][PATH], type(e).__name__, e)))
            return viol
        if not R.same_value(got, new):
            viol.append(({"kind": "job-absent-file", "what": "uploaded patch builds another document"},
                         "%s patch=%r gives %s" % (txt, entry["files"][PATH], json.dumps(got))))
        return viol
    try:
        job.parse_result(res)
        want = jt.format_json(jt.make_patch(R.clone(old), R.clone(new))).encode()
    except Exception as e:  # noqa  (make_patch's own failures are judged by patch_case)
        return viol
    entry = job.deploy_cmds.get(dev)
    differs = not R.same_value(old, new)
    if differs != (entry is not None):
        viol.append(({"kind": "job-upload-decision", "documents_differ": differs, "queued": entry is not None}, txt))
    elif entry is not None:
        if set(entry["files"]) != {PATH} or entry["files"][PATH] != want:
            viol.append(({"kind": "job-uploads-other-patch"}, "%s queued=%r make_patch text=%r" % (txt, entry["files"], want)))
        if entry["cmds"].get(PATH) != b"reload-x":
            viol.append(({"kind": "job-reload-command"}, "%s cmds=%r" % (txt, entry["cmds"])))
    return viol


def filter_case(doc, filters):
    label, nontrivial, raw, evals, counters = _filter_raw(doc, filters)
    viol = _finish(raw, lambda d2, f2: _filter_raw(d2[0], f2)[2], [x for x in filters if x.strip()], [doc]) if raw else []
    return label, nontrivial, viol, evals, counters


def _filter_raw(doc, filters):
    from annet.annlib import jsontools as jt
    viol, counters = [], {}
    a_doc, a_f = R.clone(doc), list(filters)
    try:
        res = jt.apply_acl_filters(a_doc, a_f)
    except Exception as e:  # noqa
        viol.append(("acl-filter:exception", {"exc": type(e).__name__, "msg": _exc_class(e)},
                     "apply_acl_filters(%s, %s) raised %s: %s" % (json.dumps(doc), json.dumps(filters), type(e).__name__, e)))
        return "A:exception:" + type(e).__name__, False, viol, 1, counters
    if not R.same_value(a_doc, doc):
        counters["argument_mutated"] = 1
    res = R.clone(res)
    problems, info = R.judge_filter(doc, filters, res)
    nontrivial = 0 < info["leaves_kept"] < info["leaves_doc"]
    label = "A:%s:%s:%s" % ("viol" if problems else "ok", "sel" if info["selected"] else "nosel",
                            "exact" if info["exact"] else "partial")
    if problems:
        viol.append(("acl-filter:wrong-result", {"how": problems[0]["code"]},
                     "apply_acl_filters(%s, %s) = %s; %s" % (json.dumps(doc), json.dumps(filters), json.dumps(res),
                                                             json.dumps(problems[:4]))))
    return label, nontrivial, viol, 1, counters


def _gen_result(name, path, frag, acl, prio):
    from annet.types import GeneratorJSONFragmentResult
    return GeneratorJSONFragmentResult(name=name, tags=[], path=path, acl=list(acl), acl_safe=list(acl),
                                       config=R.clone(frag), reload="reload-" + name, perf=None, reload_prio=prio)


def _run_chain(old, gens, with_other=True, other_pos=None, prios="asc"):
    """gens = [(name, frag, acl)] in running order -> (files dict, generator results); a generator for another file
    runs at position other_pos (default: last) among them"""
    from annet.generators.result import RunGeneratorResult
    rr = RunGeneratorResult()
    grs = []
    if other_pos is None:
        other_pos = len(gens)
    for n, (name, frag, acl) in enumerate(gens):
        if with_other and n == other_pos:
            rr.add_json_fragment(_gen_result("other", OTHER, gens[0][1], gens[0][2], 5))
        gr = _gen_result(name, PATH, frag, acl, {"asc": 10 + n, "desc": 20 - n, "equal": 10, "default": 100}[prios])
        rr.add_json_fragment(gr)
        grs.append(gr)
    if with_other and other_pos >= len(gens):
        rr.add_json_fragment(_gen_result("other", OTHER, gens[0][1], gens[0][2], 5))
    old_files = {PATH: R.clone(old)}
    return rr.new_json_fragment_files(old_files), grs


def _disjoint(s1, s2):
    return not any(R.is_prefix(p, q) or R.is_prefix(q, p) for p in s1 for q in s2)


def chain_case(old, g1, g2):
    """old: document or None (file absent); g = {"frag":..., "acl":[...]}.  Both orders are run."""
    from annet.annlib import jsontools as jt
    viol, counters = [], {}
    evals = 0
    base = {} if old is None else old
    results = {}
    labels = []
    for order in ("12", "21"):
        first, second = (g1, g2) if order == "12" else (g2, g1)
        names = ("g1", "g2") if order == "12" else ("g2", "g1")
        # the two merges done by hand, each on fresh copies
        seq_exc, r1, r2 = None, None, None
        try:
            r1 = R.clone(jt.apply_json_fragment(R.clone(base), R.clone(first["frag"]), list(first["acl"])))
            r2 = R.clone(jt.apply_json_fragment(R.clone(r1), R.clone(second["frag"]), list(second["acl"])))
        except Exception as e:  # noqa
            seq_exc = e
        evals += 2
        chain_exc, files, grs = None, None, None
        chain = [(names[0], first["frag"], first["acl"]), (names[1], second["frag"], second["acl"])]
        try:
            files, grs = _run_chain(old, chain)
        except Exception as e:  # noqa
            chain_exc = e
        evals += 1
        # the other file's generator running first, or between the two: the result for both files must be the same
        if chain_exc is None:
            for pos in (0, 1):
                try:
                    files_p, _ = _run_chain(old, chain, other_pos=pos)
                    same = set(files_p) == set(files) and all(R.same_value(files_p[k][0], files[k][0]) and files_p[k][1] == files[k][1]
                                                             for k in files)
                    how = "" if same else "files=%s" % json.dumps({k: v[0] for k, v in files_p.items()}, default=repr)
                except Exception as e:  # noqa
                    same, how = False, repr(e)
                evals += 1
                if not same:
                    viol.append(({"kind": "chain-depends-on-other-files-generator-position", "position": ["first", "between"][pos]},
                                 "old=%s %s=%s %s=%s: with the other file's generator last: %s; %s: %s" % (
                                     json.dumps(old), names[0], json.dumps(first), names[1], json.dumps(second),
                                     json.dumps({k: v[0] for k, v in files.items()}, default=repr), ["first", "between"][pos], how)))
            # the generators' reload priorities (ascending so far) decide the reload command, never the documents
            for pr in ("desc", "equal", "default"):
                try:
                    files_p, _ = _run_chain(old, chain, prios=pr)
                    same = set(files_p) == set(files) and all(R.same_value(files_p[k][0], files[k][0]) for k in files)
                    how = "" if same else "files=%s" % json.dumps({k: v[0] for k, v in files_p.items()}, default=repr)
                except Exception as e:  # noqa
                    same, how = False, repr(e)
                evals += 1
                if not same:
                    viol.append(({"kind": "chain-depends-on-reload-priorities", "priorities": pr},
                                 "old=%s %s=%s %s=%s: with ascending reload priorities: %s; %s: %s" % (
                                     json.dumps(old), names[0], json.dumps(first), names[1], json.dumps(second),
                                     json.dumps({k: v[0] for k, v in files.items()}, default=repr), pr, how)))
        case_txt = "old=%s %s=%s %s=%s" % (json.dumps(old), names[0], json.dumps(first), names[1], json.dumps(second))
        if seq_exc is not None or chain_exc is not None:
            if (seq_exc is None) != (chain_exc is None):
                viol.append(({"kind": "chain-differs-from-sequential-merges", "how": "exception on one side only"},
                             "%s: sequential %r, new_json_fragment_files %r" % (case_txt, seq_exc, chain_exc)))
            labels.append("exc")
            continue
        got = R.clone(files.get(PATH, (R.ABSENT, None))[0])
        if set(files) != {PATH, OTHER}:
            viol.append(({"kind": "chain-file-set"}, "%s: files %r" % (case_txt, sorted(files))))
        else:
            try:
                other_want = jt.apply_json_fragment({}, R.clone(first["frag"]), list(first["acl"]))
                if not R.same_value(files[OTHER][0], other_want):
                    viol.append(({"kind": "chain-files-mixed"}, "%s: other file %s, expected %s" % (
                        case_txt, json.dumps(files[OTHER][0]), json.dumps(other_want))))
            except Exception:  # noqa
                pass
        if any(not R.same_value(gr.config, g["frag"]) for gr, g in zip(grs, (first, second))):
            counters["argument_mutated"] = counters.get("argument_mutated", 0) + 1
        if not R.same_value(got, r2):
            viol.append(({"kind": "chain-differs-from-sequential-merges", "how": "document"},
                         "%s: sequential %s, new_json_fragment_files %s" % (case_txt, json.dumps(r2), json.dumps(got))))
            labels.append("glue-diff")
            continue
        # both merges judged by the reference (the second one on the observable result); only clean runs take part in
        # the commutation clause - a discrepancy here is a part-F finding and is reported there
        st1, pr1, _ = R.judge_fragment(base, first["frag"], first["acl"], r1)
        clean = st1 == "ok" and not pr1 and R.compatible(r1, second["frag"])
        if clean:
            st2, pr2, _ = R.judge_fragment(r1, second["frag"], second["acl"], got)
            clean = st2 == "ok" and not pr2
        if clean:
            results[order] = (r1, got)
            labels.append("ok" if not R.same_value(got, base) else "ok-same")
        else:
            labels.append("merge-not-clean")
    nontrivial = False
    if "12" in results and "21" in results:
        docs = [base, g1["frag"], g2["frag"], results["12"][0], results["12"][1], results["21"][0], results["21"][1]]
        s1 = R.selection(g1["acl"], *docs)
        s2 = R.selection(g2["acl"], *docs)
        nontrivial = bool(s1) and bool(s2)
        if _disjoint(s1, s2):
            labels.append("disjoint")
            if not R.same_value(results["12"][1], results["21"][1]):
                viol.append(({"kind": "chain-order-dependent", "selections": "disjoint"},
                             "old=%s g1=%s g2=%s: g1,g2 -> %s; g2,g1 -> %s" % (
                                 json.dumps(old), json.dumps(g1), json.dumps(g2), json.dumps(results["12"][1]),
                                 json.dumps(results["21"][1]))))
        else:
            labels.append("overlap-same" if R.same_value(results["12"][1], results["21"][1]) else "overlap-order-matters")
    return "C:" + "/".join(labels), nontrivial, viol, evals, counters


# ------------------------------------------------------------------------------------------------ blocks
def _account(ctx, label, nontrivial, viol, evals, counters, case):
    ctx.states += 1
    ctx.evals += evals
    ctx.outcomes[label] += 1
    if nontrivial:
        ctx.nontrivial += 1
    for k, v in counters.items():
        ctx.extra[case["part"] + "_" + k] += v
    for sig, detail in viol:
        ctx.violation(sig, case, detail)


def run_block(block, ctx):
    fam = FAMILIES[ctx.tier][block["fam"]]
    part, j = block["part"], block["j"]
    if part in ("F", "P"):
        prs = pairs_of(fam, j)
        ctx.extra[part + "_pairs"] += len(prs)
        if part == "F":
            lists = acl_lists(patterns_for(fam["keys"]))
            for old, f in prs:
                for acl in lists:
                    if ctx.expired():
                        return
                    case = {"part": "F", "old": old, "frag": f, "acl": acl}
                    res = fragment_case(old, f, acl)
                    _account(ctx, *res, case)
                    if res[1] and len(ctx.samples) < 2 and len(acl) == 2:
                        ctx.sample(dict(case, outcome=res[0]))
        else:
            absent_done = set()
            for old, new in prs:
                if ctx.expired():
                    return
                case = {"part": "P", "old": old, "new": new}
                res = patch_case(old, new)
                res[2].extend(job_case(old, new))
                _account(ctx, *res, case)
                k = json.dumps(new, sort_keys=True)
                if k not in absent_done:
                    # the same generated document for a file the device does not have yet
                    absent_done.add(k)
                    va = job_case(None, new)
                    _account(ctx, "P:absent-file" + (":viol" if va else ""), True, va, 2, {}, {"part": "P", "old": None, "new": new, "absent": 1})
                if res[1] and len(ctx.samples) < 2 and res[0].startswith("P:2"):
                    ctx.sample(dict(case, outcome=res[0]))
    elif part == "A":
        lists = acl_lists(patterns_for(fam["keys"]))
        lists += [["", lists[0][0]], [" %s " % lists[1][0]]]
        for doc in docs_of(fam, j):
            ctx.extra["A_docs"] += 1
            for fl in lists:
                if ctx.expired():
                    return
                case = {"part": "A", "doc": doc, "filters": fl}
                res = filter_case(doc, fl)
                _account(ctx, *res, case)
                if res[1] and len(ctx.samples) < 1:
                    ctx.sample(dict(case, outcome=res[0]))
    elif part == "C":
        all_docs = docs_of(dict(fam, m=1), 0)
        pats = patterns_for(fam["keys"])[:fam["npat"]]
        olds = [None] + all_docs
        n = 0
        for old in olds:
            base = {} if old is None else old
            for f1 in all_docs:
                if not R.compatible(base, f1):
                    continue
                for f2 in all_docs:
                    if not (R.compatible(base, f2) and R.compatible(f1, f2)):
                        continue
                    n += 1
                    if n % fam["m"] != j:
                        continue
                    ctx.extra["C_triples"] += 1
                    for p1 in pats:
                        for p2 in pats:
                            if ctx.expired():
                                return
                            case = {"part": "C", "old": old, "g1": {"frag": f1, "acl": [p1]}, "g2": {"frag": f2, "acl": [p2]}}
                            res = chain_case(old, case["g1"], case["g2"])
                            _account(ctx, *res, case)
                            if res[1] and len(ctx.samples) < 1:
                                ctx.sample(dict(case, outcome=res[0]))


def replay(case):
    part = case["part"]
    if part == "F":
        res = fragment_case(case["old"], case["frag"], case["acl"])
    elif part == "P" and case.get("absent"):
        res = ("P:absent-file", True, job_case(None, case["new"]))
    elif part == "P":
        res = patch_case(case["old"], case["new"])
        res[2].extend(job_case(case["old"], case["new"]))
    elif part == "A":
        res = filter_case(case["doc"], case["filters"])
    else:
        res = chain_case(case["old"], case["g1"], case["g2"])
    return [(sig, detail) for sig, detail in res[2]]
