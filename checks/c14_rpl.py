"""C14 - shipped routing-policy generators emit ACL-covered, self-consistent config.

A *program* is a RouteMap built through the real builder API (annet.rpl: R.* factories, route(...), rule.* methods)
from a JSON descriptor, plus a fixed set of named entities (community lists, prefix lists, as-path and RD filters)
whose community attributes (logic, use_regex, member count) are a parameter of the case.  For huawei and arista the
five shipped generator classes are subclassed exactly as docs/rpl describes and run through
annet.generators._run_partial_generator(gen, GeneratorPartialRunArgs(device, use_acl=True)); for cumulus
CumulusPolicyGenerator.generate_cumulus_rpl(device) is consumed.

Oracles (reference code in mc/ref/rplref.py, nothing of annet's is reused there):
 (1) no AclError: a run succeeds or fails with a non-ACL cause; on success the ACL-filtered tree equals the parsed
     output (nothing silently dropped);
 (2) parse_to_tree(output) == the nesting recorded by a tracing subclass of block() while the program ran
     (cumulus: the indent-token nesting of the yielded rows == what the generic indentation parser reads);
 (3) names referenced by policy lines (per-vendor line grammar) are defined, under the same kind and name, by the
     list generator responsible for that kind, fed the same inputs;
 (4) error discipline on the raw run_<vendor>(device) stream consumed with next(): for every statement the chain of
     truncations (no conditions/no actions), (+cond 1), ..., (+action 1), ... is run; if the run with element x appended
     raises while the run without x did not, the items beyond the common prefix of the two runs were emitted for x
     and there must be none.
"""
from __future__ import annotations

import contextlib
import itertools
import operator
import traceback
import warnings

from mc import env
from mc.ref import rplref as ref

PID = "C14"
ENGINE = "E1 bounded-exhaustive enumeration of RouteMap programs over the documented R.*/rule.* alphabet, judged by line grammars, a block trace and differential stream attribution"
RULE = ("a case is (vendor, entity variant, program); programs are enumerated canonically from the condition alphabet "
        "(every R.* factory x every operator it accepts x list arities 1..3 / or_longer in {(None,None),(24,None),(None,32),"
        "(16,24)}) and the action alphabet (every rule.* builder method, alone and in same-builder pairs such as "
        "community add+remove or as_path prepend+expand), distinct by construction; non-trivial = some generator emitted "
        "a line that refers to or defines a named list, or some element of the program was rejected by a back-end")
ASSUMPTIONS = [
    "domain: a community condition/action on field F names only community lists of F's type (community->BASIC, "
    "large_community->LARGE, extcommunity_rt->RT, extcommunity_soo->SOO, extcommunity->RT|SOO), match_v4/v6 name "
    "prefix lists of their family; every name used is present in the entity set (a dangling name is a user error)",
    "a non-ACL exception of any type (NotImplementedError, RuntimeError, KeyError, AttributeError, ValueError, "
    "InvalidValueFromGenerator) counts as 'rejected with an error'; only its position relative to emitted items is judged",
    "when a list generator rejects the entity set (e.g. several regex members) the names it owns are not judged for that case",
    "the action list of a statement is statement.then as the real StatementBuilder built it (one SingleAction per builder "
    "family); differential truncation is applied to the built statement, the program itself is built only through the public API",
    "vendor formatters collapse inner runs of blanks; the traced rows are normalised the same way before comparison",
    "cumulus: the list section and the policy section come from one stream; items before the first 'route-map' item are "
    "list definitions and are not attributed to a statement element; 'bgp extcommunity <standard|expanded> NAME' is read "
    "as a definition although FRR spells it extcommunity-list (spelling is outside the property)",
    "hardware: HardwareView('Huawei'), HardwareView('Arista') (vendor property memoised by the harness); cumulus needs no hardware",
    "entity objects are shared between the cases of a process; their repr is compared after every case to show they were not modified",
]
BUDGET = {"quick": 90, "thorough": 900}

VENDORS = ["huawei", "arista", "cumulus"]
EVS = [[lg, rx, n] for lg in ("OR", "AND") for rx in (0, 1) for n in (1, 2)]      # EVS[0] = OR, literal, 1 member
OR_LONGER = [[None, None], [24, None], [None, 32], [16, 24]]
RESULTS = ["allow", "deny", "next", "next_policy", None]       # None = no result call (builder default NEXT)
TYPE_OF = {"community": "B", "large_community": "L", "extcommunity_rt": "R", "extcommunity_soo": "S"}
TYPE_NAME = {"B": "BASIC", "R": "RT", "S": "SOO", "L": "LARGE"}


# ---------------------------------------------------------------------------------------------------
# alphabet
def cname(t, i):
    """name of community list i of type t: the index comes first, so that in name order (the order in which the list
    generators walk the used lists) lists of different types alternate: C1B, C1L, C1R, C1S, C2B, ..."""
    return "C%s%s" % (i, t)


def all_conds():
    out = []
    for f, t in TYPE_OF.items():
        for op in ("has", "has_any"):
            for k in (1, 2, 3):
                out.append(["set", f, op, [cname(t, i) for i in range(1, k + 1)]])
        out.append(["set", f, "has_any", [cname(t, 1), cname(t, "X")]])      # lists with different use_regex
    for op in ("has", "has_any"):
        for names in (["RD1"], ["RD1", "RD2"]):
            out.append(["set", "rd", op, names])
    out += [["cmp", "as_path_length", "==", 3], ["cmp", "as_path_length", ">=", 2], ["cmp", "as_path_length", "<=", 5],
            ["cmp", "as_path_length", "between_included", [1, 5]],
            ["cmp", "interface", "==", "eth0"], ["cmp", "protocol", "==", "bgp"], ["cmp", "metric", "==", 10],
            ["cmp", "net_len", "==", 24], ["cmp", "net_len", "!=", 24], ["cmp", "family", "==", 4], ["cmp", "local_pref", "<", 100],
            ["aspf", "ASP1"], ["aspf", "ASP2"]]
    for fn, a, b in (("match_v4", "PLA4", "PLB4"), ("match_v6", "PLA6", "PLB6")):
        for names in ([a], [a, b]):
            for ol in OR_LONGER:
                out.append(["pfx", fn, names, ol])
    out.append(["custom", "some_custom_field_name", "==", "v"])
    return out


def all_acts():
    out = []
    for fam, t in TYPE_OF.items():
        a, b = cname(t, 1), cname(t, 2)
        for calls in ([["add", [a]]], [["add", [a, b]]], [["remove", [a]]], [["remove", [a, b]]],
                      [["set", []]], [["set", [a]]], [["set", [a, b]]],
                      [["add", [a]], ["remove", [b]]], [["set", [a]], ["add", [b]]], [["set", [a]], ["remove", [b]]]):
            out.append([fam, calls])
    a, b = cname("R", 1), cname("S", 1)
    for calls in ([["add", [a]]], [["add", [b]]], [["add", [a, b]]], [["remove", [a]]], [["remove", [b]]],
                  [["set", []]], [["set", [a]]], [["set", [b]]], [["set", [a, b]]],
                  [["add", [a]], ["remove", [b]]], [["set", [a]], ["add", [b]]]):
        out.append(["extcommunity", calls])
    P, D, E, L = ["prepend", [65001]], ["delete", [65002]], ["expand", [65003]], ["expand_last_as", [2]]
    for calls in ([P], [["prepend", [65001, "65004"]]], [D], [["delete", [65002, 65005]]], [E], [L],
                  [["set", []]], [["set", [65001]]], [["set", [65001, "65004"]]],
                  [["set", [65001]], P], [["set", [65001]], D], [["set", [65001]], E], [["set", [65001]], L],
                  [P, D], [P, E], [P, L], [D, E], [D, L], [E, L]):
        out.append(["as_path", calls])
    for calls in ([["self", []]], [["peer", []]], [["discard", []]], [["ipv4_addr", ["192.0.2.1"]]],
                  [["ipv6_addr", ["2001:db8::1"]]], [["mapped_ipv4", ["192.0.2.1"]]]):
        out.append(["next_hop", calls])
    for calls in ([["set_local_pref", [100]]], [["set_metric_type", ["type-1"]]], [["set_metric", [100]]],
                  [["add_metric", [5]]], [["set_metric", [100]], ["add_metric", [5]]], [["add_metric", [5]], ["add_metric", [7]]],
                  [["set_rpki_valid_state", ["valid"]]], [["set_resolution", ["ip"]]], [["set_mpls_label", []]],
                  [["set_origin", ["igp"]]], [["set_tag", [7]]], [["set_next_hop", ["self"]]], [["set_next_hop", ["peer"]]],
                  [["add_as_path", [65001]]]):
        out.append(["rule", calls])
    out.append(["custom", [["some_custom_field_name", "custom", "v"]]])
    out.append(["custom", [["metric", "delete", 5]]])
    return out


CONDS = all_conds()


def order_variants(conds):
    """the same name lists written in another order: every condition naming >= 2 lists (community HAS / HAS_ANY, rd,
    match_v4 / match_v6) once reversed and, for 3 names, once rotated by one. The set of lists is unchanged, so whatever
    a back-end derives from a name list (a united list name, the order of definitions) is exercised in every order."""
    out = []
    for c in conds:
        pos = {"set": 3, "pfx": 2}.get(c[0])
        if pos is None or len(c[pos]) < 2:
            continue
        names = c[pos]
        for perm in [names[::-1]] + ([names[1:] + names[:1]] if len(names) > 2 else []):
            v = list(c)
            v[pos] = perm
            if v not in conds and v not in out:
                out.append(v)
    return out


COND_ORDER = order_variants(CONDS)
ACTS = all_acts()


def cond_is_comm(c):
    return c[0] == "set" and c[1] in TYPE_OF


def act_is_comm(a):
    return a[0] in TYPE_OF or a[0] == "extcommunity"


def cond_factory(c):
    return c[1] if c[0] in ("set", "cmp", "pfx") else c[0]


def act_method_key(a):
    return (a[0],) + tuple(m for m, _ in a[1]) if a[0] != "custom" else ("custom", a[1][0][0])


def _first_per(items, key):
    seen, out = set(), []
    for x in items:
        k = key(x)
        if k not in seen:
            seen.add(k)
            out.append(x)
    return out


COND_REP = _first_per(CONDS, cond_factory)                       # one condition per R.* factory
ACT_REP = _first_per([a for a in ACTS if len(a[1]) == 1], lambda a: (a[0], a[1][0][0]) if a[0] != "custom" else ("custom", a[1][0][0]))


def bound_text(tier):
    q = ("one-statement space complete: (%d conditions + none) x (%d actions + none) x {huawei, arista, cumulus}, result "
         "allow, entity variant (OR, literal, 1 member); every single condition and every single action x 8 entity variants "
         "(logic AND/OR x use_regex x 1-2 members; community-dependent elements only beyond the base variant) x results "
         "{allow, deny, next, next_policy, <none>}; statement number None x every single element; empty statement, empty "
         "policy, no policy; %d order variants (name lists of >= 2 names reversed, 3 names also rotated) of the multi-list "
         "conditions, each alone; same entity used twice: every ordered pair of entity-referencing conditions (order variants "
         "included) that share a list name, as two statements of one policy and as two policies"
         % (len(CONDS), len(ACTS), len(COND_ORDER)))
    if tier == "quick":
        return q + "; complete"
    return (q + "; plus: every order variant x every action; for the other 7 entity variants every one-statement (condition, "
            "action) pair with a community-dependent element; (base variant) one-statement cross x the 4 other result forms; two-condition statements: all "
            "ordered condition pairs x no action and all unordered pairs x %d actions (one per rule.* method); two-action "
            "statements: all action pairs (unordered, ordered where both are immediate rule.set_* calls) x (none + %d "
            "conditions, one per R.* factory); two-statement policies and two one-statement policies with each statement a "
            "single condition or a single action (%d^2 each); complete" % (len(ACT_REP), len(COND_REP), len(CONDS) + len(ACTS)))


# ---------------------------------------------------------------------------------------------------
# entities
def _members(t, i, rx, n):
    out = []
    for j in range(n):
        m = {"B": "6500%s:%d", "R": "6500%s:%d", "S": "6500%s:%d", "L": "6500%s:%d:0"}[t] % (i, (j + 1) if t in "BL" else 100 + j)
        out.append(m + "." if rx else m)
    return out


_ENT = {}


def entities(ev):
    """the entity set of a variant; built once per process and variant, its repr is re-checked after every case
    (the generators must not modify their inputs; if one did, the cases would stop being independent)"""
    k = tuple(ev)
    if k not in _ENT:
        e = _entities(ev)
        _ENT[k] = (e, repr(e))
    return _ENT[k][0]


def entities_unmodified(ev):
    e, r = _ENT[tuple(ev)]
    return repr(e) == r


def _entities(ev):
    from annet.rpl_generators import (AsPathFilter, CommunityList, CommunityLogic, CommunityType, IpPrefixListMember,
                                      RDFilter, ip_prefix_list)
    lg, rx, n = ev
    comms = []
    for t in "BRSL":
        for i in (1, 2, 3):
            comms.append(CommunityList(cname(t, i), _members(t, i, rx, n), CommunityType[TYPE_NAME[t]],
                                       CommunityLogic[lg], bool(rx)))
        comms.append(CommunityList(cname(t, "X"), _members(t, 9, 1 - rx, 1), CommunityType[TYPE_NAME[t]],
                                   CommunityLogic[lg], not rx))
    plists = [
        ip_prefix_list("PLA4", ["10.0.0.0/8"]),
        ip_prefix_list("PLB4", ["10.1.0.0/16", IpPrefixListMember("10.2.0.0/16", (17, 24))], (None, 24)),
        ip_prefix_list("PLA6", ["2001:db8::/32"]),
        ip_prefix_list("PLB6", ["2001:db8:1::/48", "2001:db8:2::/48"], (48, 64)),
    ]
    asps = [AsPathFilter("ASP1", ["123"]), AsPathFilter("ASP2", [".*", "456", "789"])]
    rds = [RDFilter("RD1", 1, ["100:1"]), RDFilter("RD2", 2, ["100:2", "200:2"])]
    return {"comms": comms, "plists": plists, "asps": asps, "rds": rds}


# ---------------------------------------------------------------------------------------------------
# building a program through the public API
_OPS = {"==": operator.eq, "!=": operator.ne, ">=": operator.ge, "<=": operator.le, "<": operator.lt, ">": operator.gt}


def mk_cond(c):
    from annet.rpl import R, ConditionOperator, SingleCondition
    kind = c[0]
    if kind == "set":
        return getattr(getattr(R, c[1]), c[2])(*c[3])
    if kind == "cmp":
        fac, op, val = getattr(R, c[1]), c[2], c[3]
        if op in _OPS:
            return _OPS[op](fac, val)
        return getattr(fac, op)(tuple(val) if isinstance(val, list) else val)
    if kind == "aspf":
        return R.as_path_filter(c[1])
    if kind == "pfx":
        return getattr(R, c[1])(*c[2], or_longer=tuple(c[3]))
    if kind == "custom":
        return SingleCondition(field=c[1], operator=ConditionOperator(c[2]), value=c[3])
    raise ValueError(c)


def apply_act(rule, a):
    from annet.rpl import ActionType, SingleAction
    fam, calls = a
    if fam == "custom":
        for field, typ, val in calls:
            rule.custom_action(SingleAction(field=field, type=ActionType(typ), value=val))
        return
    for meth, args in calls:
        target = rule if fam == "rule" else getattr(rule, fam)
        getattr(target, meth)(*args)


def build_routemap(policies):
    from annet.rpl import RouteMap
    rm = RouteMap()
    for pol in policies:
        def handler(device, route, pol=pol):
            for st in pol["stmts"]:
                conds = [mk_cond(c) for c in st["conds"]]
                with route(*conds, number=st["number"], name=("n%s" % st["number"])) as rule:
                    for a in st["acts"]:
                        apply_act(rule, a)
                    if st["result"] is not None:
                        getattr(rule, st["result"])()
        rm(handler, name=pol["name"])
    return rm


# ---------------------------------------------------------------------------------------------------
# generators under test, subclassed as docs/rpl tells the user to
class _Storage:
    def flush_perf(self):
        return None


_STORAGE = _Storage()
_G = {}


def gen_classes():
    if _G:
        return _G
    from annet.rpl_generators import (AsPathFilterGenerator, CommunityListGenerator, CumulusPolicyGenerator,
                                      PrefixListFilterGenerator, RDFilterFilterGenerator, RoutingPolicyGenerator)

    class Trace:
        """records (depth of open block() contexts, row) for every row appended"""
        inp = None

        def __init__(self, storage):
            super().__init__(storage)
            self._t_depth = 0
            self._t_rows = []

        @contextlib.contextmanager
        def block(self, *tokens, indent=None):
            with super().block(*tokens, indent=indent):
                self._t_depth += 1
                try:
                    yield
                finally:
                    self._t_depth -= 1

        def _append_text_cb(self, text, row_cb=None):
            for row in (text.split("\n") if "\n" in text else [text]):
                self._t_rows.append((self._t_depth, row))
            super()._append_text_cb(text, row_cb)

        def get_policies(self, device):
            return self.inp["policies"](device)

        def get_prefix_lists(self, device):
            return self.inp["plists"]

        def get_community_lists(self, device):
            return self.inp["comms"]

        def get_as_path_filters(self, device):
            return self.inp["asps"]

        def get_rd_filters(self, device):
            return self.inp["rds"]

    class Policy(Trace, RoutingPolicyGenerator):
        pass

    class Prefix(Trace, PrefixListFilterGenerator):
        pass

    class Community(Trace, CommunityListGenerator):
        pass

    class AsPath(Trace, AsPathFilterGenerator):
        pass

    class Rd(Trace, RDFilterFilterGenerator):
        pass

    class Cumulus(CumulusPolicyGenerator):
        inp = None
        get_policies = Trace.get_policies
        get_prefix_lists = Trace.get_prefix_lists
        get_community_lists = Trace.get_community_lists
        get_as_path_filters = Trace.get_as_path_filters

    for cls, base in ((Policy, RoutingPolicyGenerator), (Prefix, PrefixListFilterGenerator), (Community, CommunityListGenerator),
                      (AsPath, AsPathFilterGenerator), (Rd, RDFilterFilterGenerator)):
        cls.__name__ = cls.__qualname__ = "Traced" + base.__name__
        cls.shipped = base.__name__
    _G.update({"policy": Policy, ref.PREFIX: Prefix, ref.COMMUNITY: Community, ref.ASPATH: AsPath, ref.RD: Rd,
               "cumulus": Cumulus})
    return _G


LIST_GENS = [ref.PREFIX, ref.COMMUNITY, ref.ASPATH, ref.RD]
_DEV = {}
_FMT = {}


def setup():
    env.setup()
    warnings.simplefilter("ignore", DeprecationWarning)
    from annet.annlib.netdev.views.hardware import HardwareView
    from annet.vendors import registry_connector

    class HW(HardwareView):
        """HardwareView whose .vendor (a pure function of the model, recomputed by a registry scan on every read) is
        computed once by the real property"""
        @property
        def vendor(self):
            v = self.__dict__.get("_c14_vendor")
            if v is None:
                v = self.__dict__["_c14_vendor"] = HardwareView.vendor.fget(self)
            return v

    for v, soft in (("huawei", None), ("arista", None), ("cumulus", "Cumulus Linux 5.4.0")):
        _DEV[v] = env.device(v if v != "cumulus" else "pc")
        _DEV[v].hw = HW(env.HW_MODEL[v if v != "cumulus" else "pc"], soft)
    for v in ("huawei", "arista"):
        assert _DEV[v].hw.vendor == v, (v, _DEV[v].hw.vendor)
        _FMT[v] = registry_connector.get().match(_DEV[v].hw).make_formatter()
    gen_classes()


def exc_label(e):
    return type(e).__name__


def raised_in(e):
    tb = traceback.extract_tb(e.__traceback__)
    return tb[-1].name if tb else "?"


def norm_item(item):
    from annet.annlib.lib import flatten  # only to read nested tuples the way both front ends do
    if isinstance(item, str):
        return item
    try:
        return tuple(str(x) for x in flatten(item))
    except TypeError:
        return repr(item)


# ---------------------------------------------------------------------------------------------------
# running
def run_partial(key, vendor, inp):
    """one shipped PartialGenerator through _run_partial_generator with use_acl=True
    -> dict(status, text, trace, config, exc)   status: ok | unsupported | acl | rejected:<Exc>"""
    from annet.annlib.patching import AclError
    from annet import generators as ann_generators
    from annet.generators.exceptions import GeneratorError
    from annet.types import GeneratorPartialRunArgs
    cls = gen_classes()[key]
    g = cls(_STORAGE)
    g.inp = inp
    dev = _DEV[vendor]
    try:
        res = env.call_private(ann_generators, "_run_partial_generator", g, GeneratorPartialRunArgs(dev, use_acl=True))
    except GeneratorError as e:
        cause = e.__cause__
        if isinstance(cause, AclError):
            g2 = cls(_STORAGE)
            g2.inp = inp
            return {"status": "acl", "text": g2(dev), "trace": g2._t_rows, "config": None, "exc": cause, "gen": cls.shipped}
        return {"status": "rejected:" + exc_label(cause if cause is not None else e), "text": None, "trace": None,
                "config": None, "exc": cause or e, "gen": cls.shipped}
    if res is None:
        return {"status": "unsupported", "text": None, "trace": None, "config": None, "exc": None, "gen": cls.shipped}
    return {"status": "ok", "text": res.output, "trace": g._t_rows, "config": res.config, "exc": None, "gen": cls.shipped}


def raw_stream(vendor, inp):
    """the raw generator consumed item by item -> (items, exception or None)"""
    if vendor == "cumulus":
        g = gen_classes()["cumulus"]()
        g.inp = inp
        it = g.generate_cumulus_rpl(_DEV[vendor])
    else:
        g = gen_classes()["policy"](_STORAGE)
        g.inp = inp
        it = getattr(g, "run_" + vendor)(_DEV[vendor])
    items, err = [], None
    while True:
        try:
            item = next(it)
        except StopIteration:
            break
        except Exception as e:  # noqa: any exception is a rejection; its position is what is judged
            err = e
            break
        items.append(norm_item(item))
    if vendor == "cumulus":
        start = next((i for i, x in enumerate(items) if not isinstance(x, str) and x and x[0] == "route-map"), len(items))
        head, items = items[:start], items[start:]
    return items, err


def text_rows(text):
    return [ref.norm_row(x) for x in text.split("\n") if x.strip()]


def truncated(stmt, nc, na):
    from annet.rpl import Action, AndCondition, RoutingPolicyStatement
    act = Action()
    for x in stmt.then.actions[:na]:
        act.append(x)
    return RoutingPolicyStatement(name=stmt.name, number=stmt.number, match=AndCondition(*stmt.match.conditions[:nc]),
                                  then=act, result=stmt.result)


def field_name(x):
    f = x.field
    return getattr(f, "value", None) or str(f)


def judge_discipline(vendor, ents, policy_name, stmt, out):
    """oracle (4) on one built statement in isolation"""
    from annet.rpl import RoutingPolicy
    conds, acts = stmt.match.conditions, stmt.then.actions
    steps = [(0, 0, None, None)] + [(i + 1, 0, "condition", conds[i]) for i in range(len(conds))] + \
            [(len(conds), j + 1, "action", acts[j]) for j in range(len(acts))]
    prev = None
    for nc, na, what, elem in steps:
        pols = [RoutingPolicy(policy_name, [truncated(stmt, nc, na)])]
        inp = dict(ents, policies=lambda device, pols=pols: pols)
        items, err = raw_stream(vendor, inp)
        out["evals"] += 1
        if what is None:
            if err is not None:
                out["labels"].append("%s statement frame rejected:%s" % (vendor, exc_label(err)))
                return
            prev = items
            continue
        fname = field_name(elem)
        if err is None:
            out["labels"].append("%s %s accepted, %s" % (vendor, what, "no item" if len(items) == len(prev) else "items"))
            prev = items
            continue
        n = len(items) - ref.lcp(items, prev)
        out["rejected"] = True
        if n > 0:
            out["labels"].append("%s %s rejected after items" % (vendor, what))
            out["viol"].append((
                {"kind": "error-after-output", "vendor": vendor, what: fname, "raised_in": raised_in(err), "exc": exc_label(err)},
                "%s %s %r of statement %s/%s: run without it gave %d items and no error; with it: %d further item(s) %r and then %s: %s"
                % (vendor, what, elem, policy_name, stmt.number, len(prev), n, items[-n:], exc_label(err), err)))
        else:
            out["labels"].append("%s %s rejected before any item:%s" % (vendor, what, exc_label(err)))
        return      # later elements of this statement cannot be attributed any more


def judge(case):
    vendor, ev, policies_desc = case["vendor"], case["ev"], case["policies"]
    out = {"viol": [], "labels": [], "evals": 0, "rejected": False, "named": False, "sample": None}
    ents = entities(ev)
    rm = build_routemap(policies_desc)
    dev = _DEV[vendor]
    try:
        built = rm.apply(dev)
    except Exception as e:  # noqa: the builder refused the program (e.g. two conditions on one field)
        out["labels"].append("builder rejected:" + exc_label(e))
        out["evals"] += 1
        return out
    out["evals"] += 1
    inp = dict(ents, policies=rm.apply)

    if vendor == "cumulus":
        judge_cumulus(inp, out)
    else:
        judge_partial(vendor, inp, out)
    for pol in built:
        for stmt in pol.statements:
            judge_discipline(vendor, ents, pol.name, stmt, out)
    if not entities_unmodified(ev):
        out["viol"].append(({"kind": "harness-entities-modified", "vendor": vendor}, "a generator modified the entity objects it was given"))
    return out


def judge_partial(vendor, inp, out):
    import annet.annlib.tabparser as tabparser
    runs = {}
    for key in ["policy"] + LIST_GENS:
        r = runs[key] = run_partial(key, vendor, inp)
        out["evals"] += 1
        out["labels"].append("%s %s %s" % (vendor, key, r["status"]))
        if r["status"].startswith("rejected"):
            out["rejected"] = True
        if r["status"] == "acl":                                                          # oracle (1)
            row = str(r["exc"]).split(" / ")[-1]
            out["viol"].append(({"kind": "acl-uncovered", "vendor": vendor, "generator": r["gen"], "line_head": ref.line_head(row)},
                                "AclError(%s); acl_%s of %s = %r; output:\n%s" % (
                                    r["exc"], vendor, r["gen"], getattr(gen_classes()[key](_STORAGE), "acl_" + vendor)(None), r["text"])))
        if r["text"] is None:
            continue
        parsed = tabparser.parse_to_tree(text=r["text"], splitter=_FMT[vendor].split)        # oracle (2)
        got = env.tree_to_list(parsed)
        try:
            exp = ref.as_list(ref.tree_from_trace(r["trace"]))
        except ValueError as e:
            exp = "trace error: %s" % e
        if got != exp:
            out["viol"].append(({"kind": "nesting", "vendor": vendor, "generator": r["gen"]},
                                "parsed=%r\nyielded=%r\ntext:\n%s" % (got, exp, r["text"])))
        if r["status"] == "ok" and env.tree_to_list(r["config"]) != got:
            out["viol"].append(({"kind": "acl-dropped", "vendor": vendor, "generator": r["gen"]},
                                "after ACL=%r\nparsed=%r" % (env.tree_to_list(r["config"]), got)))
    pol = runs["policy"]
    if pol["text"] is not None:                                                           # oracle (3)
        refs = ref.collect(ref.REFS[vendor], text_rows(pol["text"]))
        defs = {}
        for key in LIST_GENS:
            if runs[key]["text"] is not None:
                defs[key] = ref.collect(ref.DEFS[vendor], text_rows(runs[key]["text"]))
        judge_names(vendor, refs, defs, runs, out, pol["text"])
        if out["sample"] is None and refs:
            out["sample"] = {"policy_output": pol["text"], "refs": refs, "defs": defs}


def judge_names(vendor, refs, defs, runs, out, policy_text):
    alldefs = [d for v in defs.values() for d in v]
    if refs or alldefs:
        out["named"] = True
    for kind, name in refs:
        owner = ref.KIND_OWNER[vendor][kind]
        st = runs[owner]["status"] if runs is not None else "ok"
        if st.startswith("rejected") or st == "unsupported" and owner not in defs:
            if st == "unsupported":
                out["viol"].append(({"kind": "undefined-name", "vendor": vendor, "ref": kind, "why": "no generator for this vendor"},
                                    "policy refers to %s %r but %s has no run_%s" % (kind, name, runs[owner]["gen"], vendor)))
            else:
                out["labels"].append("%s names of %s not judged: list generator %s" % (vendor, owner, st))
            continue
        if (kind, name) in defs.get(owner, []):
            continue
        other = sorted({k for k, n in alldefs if n == name})
        out["viol"].append(({"kind": "undefined-name", "vendor": vendor, "ref": kind,
                             "defined_as": other[0] if other else None},
                            "policy refers to %s %r; the %s list generator defines %r (same name under other kinds: %r)\npolicy output:\n%s"
                            % (kind, name, owner, defs.get(owner), other, policy_text)))


def judge_cumulus(inp, out):
    import annet.annlib.tabparser as tabparser
    from annet.annlib.tabparser import CommonFormatter
    g = gen_classes()["cumulus"]()
    g.inp = inp
    out["evals"] += 1
    try:
        items = [norm_item(x) for x in g.generate_cumulus_rpl(_DEV["cumulus"])]
    except Exception as e:  # noqa
        out["labels"].append("cumulus stream rejected:" + exc_label(e))
        out["rejected"] = True
        return
    out["labels"].append("cumulus stream ok")
    text = "\n".join(x if isinstance(x, str) else " ".join(x) for x in items)            # what Entire.__call__ writes
    exp_tree, orphans = ref.tree_from_indent(items)
    try:
        got = env.tree_to_list(tabparser.parse_to_tree(text=text, splitter=CommonFormatter().split))
    except tabparser.ParserError as e:
        got = "ParserError: %s" % e
    if orphans or got != ref.as_list(exp_tree):
        out["viol"].append(({"kind": "nesting", "vendor": "cumulus", "generator": "CumulusPolicyGenerator"},
                            "parsed=%r\nyielded=%r orphans=%r" % (got, ref.as_list(exp_tree), orphans)))
    pol_rows = [r for k, v in exp_tree.items() if k.startswith("route-map ") for r in v]
    top_rows = [k for k in exp_tree if not k.startswith("route-map ")]
    refs = ref.collect(ref.REFS["cumulus"], pol_rows)
    d = ref.collect(ref.DEFS["cumulus"], top_rows)
    defs = {}
    for kind, name in d:
        defs.setdefault(ref.KIND_OWNER["cumulus"][kind], []).append((kind, name))
    for owner in (ref.PREFIX, ref.COMMUNITY, ref.ASPATH):
        defs.setdefault(owner, [])
    judge_names("cumulus", refs, defs, None, out, text)
    if out["sample"] is None and refs:
        out["sample"] = {"cumulus_output": text, "refs": refs}


# ---------------------------------------------------------------------------------------------------
# enumeration
def stmt(conds, acts, result="allow", number=10):
    return {"number": number, "conds": conds, "acts": acts, "result": result}


def one_policy(stmts):
    return [{"name": "P1", "stmts": stmts}]


def opt(xs):
    return [None] + list(xs)


def _l(x):
    return [] if x is None else [x]


def act_pair_ok(a, b, ia, ib):
    """canonical action pairs: same-builder pairs are already in the alphabet as one action; builders that only
    register at __exit__ give the same statement in either call order, so only index order is kept for them"""
    imm = ("rule", "custom")
    if a[0] == b[0] and a[0] not in imm:
        return False
    if a[0] in imm and b[0] in imm:
        return ia != ib
    return ia < ib


def programs(part, evi):
    """canonical enumeration of the policies descriptors of one part for entity variant index evi"""
    base = evi == 0
    if part == "1s":
        for c in opt(CONDS):
            for a in opt(ACTS):
                if base or (c is not None and cond_is_comm(c)) or (a is not None and act_is_comm(a)):
                    yield one_policy([stmt(_l(c), _l(a))])
        for c in COND_ORDER:                                     # order variants: alone (crossed with actions in 1o)
            if base or cond_is_comm(c):
                yield one_policy([stmt([c], [])])
    elif part == "1o":
        for c in COND_ORDER:
            for a in ACTS:
                yield one_policy([stmt([c], [a])])
    elif part == "1r":
        singles = [(c, None) for c in CONDS] + [(None, a) for a in ACTS]
        for c, a in singles:
            if base or (c is not None and cond_is_comm(c)) or (a is not None and act_is_comm(a)):
                for r in (RESULTS[1:] if base else RESULTS):      # base variant: 'allow' singles are in part 1s
                    yield one_policy([stmt(_l(c), _l(a), r)])
                if base:
                    yield one_policy([stmt(_l(c), _l(a), "allow", None)])
        if base:
            for r in RESULTS[1:]:
                yield one_policy([stmt([], [], r)])
            yield one_policy([stmt([], [], "allow", None)])
            yield []
            yield one_policy([])
    elif part == "1sr":
        for c in CONDS:
            for a in ACTS:
                for r in RESULTS[1:]:
                    yield one_policy([stmt([c], [a], r)])
    elif part == "2c":
        for i, c1 in enumerate(CONDS):
            for j, c2 in enumerate(CONDS):
                if i == j:
                    continue
                yield one_policy([stmt([c1, c2], [])])
                if i < j:
                    for a in ACT_REP:
                        yield one_policy([stmt([c1, c2], [a])])
    elif part == "2a":
        for i, a1 in enumerate(ACTS):
            for j, a2 in enumerate(ACTS):
                if act_pair_ok(a1, a2, i, j):
                    for c in opt(COND_REP):
                        yield one_policy([stmt(_l(c), [a1, a2])])
    elif part == "2e":
        # the same entity used twice: ordered pairs of entity-referencing conditions that share a list name, as two
        # statements of one policy and as two policies (first use may fix how a list is emitted for later uses)
        def names_of(c):
            if c[0] == "pfx":
                return {(c[1], n) for n in c[2]}
            if c[0] == "set":
                return {(c[1], n) for n in c[3]}
            if c[0] == "aspf":
                return {("aspf", c[1])}
            return set()
        ent = [c for c in CONDS + COND_ORDER if names_of(c)]
        for c1 in ent:
            for c2 in ent:
                if c1 is not c2 and names_of(c1) & names_of(c2):
                    yield one_policy([stmt([c1], [], "allow", 10), stmt([c2], [], "allow", 20)])
                    yield [{"name": "P1", "stmts": [stmt([c1], [])]}, {"name": "P2", "stmts": [stmt([c2], [])]}]
    elif part in ("2s", "2p"):
        singles = [([c], []) for c in CONDS] + [([], [a]) for a in ACTS]
        for c1, a1 in singles:
            for c2, a2 in singles:
                if part == "2s":
                    yield one_policy([stmt(c1, a1, "allow", 10), stmt(c2, a2, "allow", 20)])
                else:
                    yield [{"name": "P1", "stmts": [stmt(c1, a1)]}, {"name": "P2", "stmts": [stmt(c2, a2)]}]
    else:
        raise ValueError(part)


def blocks(tier, seed):
    bl = []
    for v in range(len(VENDORS)):
        bl += [{"part": "1s", "vendor": v, "ev": 0, "k": k, "n": 12} for k in range(12)]
        for evi in range(len(EVS)):
            bl.append({"part": "1r", "vendor": v, "ev": evi, "k": 0, "n": 1})
        bl += [{"part": "2e", "vendor": v, "ev": 0, "k": k, "n": 4} for k in range(4)]
    if tier == "thorough":
        for v in range(len(VENDORS)):
            for evi in range(1, len(EVS)):
                bl += [{"part": "1s", "vendor": v, "ev": evi, "k": k, "n": 2} for k in range(2)]
            for part, n in (("1o", 2), ("1sr", 6), ("2c", 12), ("2a", 14), ("2s", 6), ("2p", 6)):
                bl += [{"part": part, "vendor": v, "ev": 0, "k": k, "n": n} for k in range(n)]
    return bl


def run_block(block, ctx):
    vendor, ev = VENDORS[block["vendor"]], EVS[block["ev"]]
    for pols in itertools.islice(programs(block["part"], block["ev"]), block["k"], None, block["n"]):
        if ctx.expired():
            return
        case = {"vendor": vendor, "ev": ev, "policies": pols}
        res = judge(case)
        ctx.states += 1
        ctx.evals += res["evals"]
        ctx.extra["programs:" + block["part"]] += 1
        if res["named"] or res["rejected"]:
            ctx.nontrivial += 1
        for lab in set(res["labels"]):
            ctx.outcomes[lab] += 1
        for sig, detail in res["viol"]:
            ctx.violation(sig, case, detail)
        if res["sample"] is not None and len(ctx.samples) < 2:
            ctx.sample({"case": case, "observed": res["sample"]})


def replay(case):
    return judge(case)["viol"]
