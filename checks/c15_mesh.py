"""C15 - mesh sessions are mirrored on both ends; handler data merges without loss.

Part A (executor).  A case is (topology, registry of <= 3 rules).  For every device of the topology the real
`MeshExecutor(registry, storage).execute_for(device)` is run on a fresh fake storage (written here; it records every
make_lag / add_subif / add_svi / add_addr call) for every variant of registering the same rules (all permutations,
plus nestings through `include`).  Three oracles:
  ref     variant 0 against mc.ref.meshref.ref_execute: status (ok / refused), the peers (addr, remote_as, local_as,
          families, vrf, per-side options, interface), the recorded interface operations, the assigned global options;
  mirror  reference-free: the results of two devices A and B are compared with each other - a perfect matching
          between A's peers for B and B's peers for A in which addr is an address put on the other side's interface,
          remote_as == the other side's local_as, families / vrf / session options are equal;
  shared  one MeshExecutor (and storage) serving all devices of the topology, in every order of the devices (<= 3
          devices; three orders otherwise): each device gets exactly what a fresh executor gives it;
  order   every registration variant gives the same normalised BgpConfig and the same interface operations (peers and
          concatenated tuples as multisets), or all variants are refused with ValueError / MergeForbiddenError.
Part B (merger laws).  Every merger class and every field of every BaseMeshModel subclass of annet.mesh: pair laws and
associativity over small value domains against mc.ref.meshref.ref_merge_value.
"""
from __future__ import annotations

import collections
import itertools
import json

from mc import env
from mc.ref import meshref as ref

PID = "C15"
ENGINE = ("E1 bounded-exhaustive enumeration (topologies x rule registries x registration variants; merger value "
          "domains) against a reference executor, a mirrored-view differential oracle and reference merge laws")
RULE = ("part A: a case is a (topology, multiset of <= 3 rule descriptors) pair, distinct by construction of the "
        "enumerator (rules are drawn as combinations with repetition from a per-kind alphabet of matcher x port "
        "processor x handler table); it is executed for every device and every registration variant; non-trivial = "
        "the reference expects a peer or an assigned global option on some device, or refuses. part B: a case is "
        "(merger | model class, field), an ordered triple of values from the field's domain incl. NOT_SET; "
        "non-trivial = at least two of the three values are set.")
ASSUMPTIONS = [
    "sessions are identified the way the executor documents it: by (neighbour, neighbour address as written, vrf); "
    "handler results for one session must agree on every single-valued field and on the port set",
    "the order of BgpConfig.peers and of recorded interface operations is not significant (compared as multisets), "
    "like the element order of concatenated tuples",
    "DirectPeer.all_connected_ports of a peer is the set of that peer's own port names over all links of the pair "
    "(docs: 'all interconnections'); handler tables with 'acp' derive the subnet from it",
    "handler tables put families, vrf, bfd on the session object only (the property does not say which side's "
    "per-peer families/vrf a peer shows); addresses, asnum, mtu, lag/subif/svi/ifname are per side",
    "a filter expression that cannot be evaluated (int compared with str ...) does not match",
    "indirect rules of the alphabet never match a device with itself (every same-template rule carries a filter); "
    "what a self pair should give is not stated by the property",
    "device names contain no regex-special characters, so template literals mean themselves",
    "errors: the reference says 'refused' when any conflict or misuse exists; the implementation must then raise "
    "ValueError or MergeForbiddenError (other exception classes are reported under their own signature)",
    "the local side of a virtual pair takes from the session what a VirtualLocal can carry (asnum, shared options)",
    "handlers assign shared constant objects (one set object per value and process), as a rulebook author writing a "
    "module-level default would; annet altering such an object shows as a wrong result of a later session",
    "part B: the expected merger of every field is restated in mc.ref.meshref (DECLARED); a field whose declared merger "
    "differs from that table is reported; values are compared with ==; argument mutation is counted, not judged",
]
BUDGET = {"quick": 180, "thorough": 1500}

FAMS = ["ipv4_unicast", "ipv6_unicast"]


def bound_text(tier):
    return _bound_text(tier)


def setup():
    env.setup()
    import annet.mesh  # noqa: F401
    import annet.mesh.executor  # noqa: F401
    import annet.mesh.device_models  # noqa: F401


# ---------------------------------------------------------------------------------------------------
# fake storage (same interface as tests/annet/test_mesh/fakes.py, own recording)
class FakeInterface:
    def __init__(self, name, neighbor_fqdn, neighbor_port, log):
        self._name = name
        self.neighbor_fqdn = neighbor_fqdn
        self.neighbor_port = neighbor_port
        self.addrs = []
        self._log = log

    @property
    def name(self):
        return self._name

    def add_addr(self, address_mask, vrf):
        self.addrs.append((address_mask, vrf))
        self._log.append(["add_addr", self._name, address_mask, vrf])


class FakeDevice:
    def __init__(self, name):
        self._name = name
        self.interfaces = []
        self.log = []
        self.storage = None

    id = property(lambda self: self._name)
    fqdn = property(lambda self: self._name)
    hostname = property(lambda self: self._name)
    hw = property(lambda self: None)
    breed = property(lambda self: None)

    def __hash__(self):
        return hash(self._name)

    def __eq__(self, other):
        return isinstance(other, FakeDevice) and other._name == self._name

    def is_pc(self):
        return False

    @property
    def neighbours_fqdns(self):
        out = []
        for i in self.interfaces:
            if i.neighbor_fqdn and i.neighbor_fqdn not in out:
                out.append(i.neighbor_fqdn)
        return out

    neighbours_ids = neighbours_fqdns

    def _new(self, name):
        iface = FakeInterface(name, None, None, self.log)
        self.interfaces.append(iface)
        return iface

    def make_lag(self, lag, ports, lag_min_links):
        self.log.append(["make_lag", lag, sorted(ports), lag_min_links])
        return self._new("Trunk%s" % lag)

    def add_svi(self, svi):
        self.log.append(["add_svi", svi])
        return self._new("Vlan%s" % svi)

    def add_subif(self, interface, subif):
        self.log.append(["add_subif", interface, subif])
        return self._new("%s.%s" % (interface, subif))

    def find_interface(self, name):
        for iface in self.interfaces:
            if iface.name == name:
                return iface
        return None


_StorageBase = None


def storage_class():
    global _StorageBase
    if _StorageBase is None:
        from annet.storage import Storage

        class FakeStorage(Storage):
            def __init__(self):
                self.devices = []

            def __enter__(self):
                return self

            def __exit__(self, *a):
                return None

            def resolve_object_ids_by_query(self, query):
                return [d.id for d in self.devices if d.fqdn in query]

            def resolve_fdnds_by_query(self, query):
                return [d.fqdn for d in self.devices if d.fqdn in query]

            def resolve_all_fdnds(self):
                return [d.fqdn for d in self.devices]

            def make_devices(self, query, preload_neighbors=False, use_mesh=None, preload_extra_fields=False, **kw):
                return [d for d in self.devices if d.fqdn in query]

            def get_device(self, obj_id, preload_neighbors=False, use_mesh=None, **kw):
                return next(d for d in self.devices if d.id == obj_id)

            def flush_perf(self):
                return None

            def search_connections(self, device, neighbor):
                res = []
                for lp in device.interfaces:
                    if lp.neighbor_fqdn == neighbor.fqdn:
                        for rp in neighbor.interfaces:
                            if rp.name == lp.neighbor_port and rp.neighbor_fqdn == device.fqdn:
                                res.append((lp, rp))
                return res
        _StorageBase = FakeStorage
    return _StorageBase


def build_storage(topo):
    ifaces, _ = ref.topo_ports(topo)          # plain data: which port of whom is cabled to which
    st = storage_class()()
    devs = {}
    for name in topo["devices"]:
        d = FakeDevice(name)
        d.storage = st
        for port, nbr, nport in ifaces[name]:
            d.interfaces.append(FakeInterface(port, nbr, nport, d.log))
        st.devices.append(d)
        devs[name] = d
    return st, devs


# ---------------------------------------------------------------------------------------------------
# real registries from rule descriptors
_CONSTANTS = {}


def _conv(v):
    """handler tables hold frozensets; a handler assigns a set.  Like a fabric-wide default written once at module level,
    the set object for one value is created once per process and assigned again on every call - annet must not write
    into what a handler assigned (its merges build new values)."""
    if isinstance(v, frozenset):
        s = _CONSTANTS.get(v)
        if s is None or s != v:
            # (a constant that annet has altered is replaced, so that one leak is reported once, where it happens,
            #  and does not poison every later case of the block)
            s = _CONSTANTS[v] = set(v)
        return s
    return v


def _pair_filter(name):
    from annet.mesh import Left, Right
    return {
        "": [],
        "lt": [Left.n < Right.n],
        "le": [Left.n <= Right.n],
        "eq": [Left.n == Right.n],
        "ne": [Left.n != Right.n],
        "eqc": [Left.n == Right.n.cast_(int)],
        "role_ne": [Left.role != Right.role],
        "role_ne_lt": [Left.role != Right.role, Left.n <= Right.n],
        "rin1": [Right.n.in_([1])],
    }[name]


def _single_filter(name):
    from annet.mesh import Match
    return {"": [], "m1": [Match.n == 1], "mlt2": [Match.n < 2]}[name]


def make_pair_handler(kind, table):
    def handler(left, right, session):
        pairs = sorted(zip(left.ports, right.ports)) if kind == "direct" else None
        acp = (frozenset(left.all_connected_ports), frozenset(right.all_connected_ports)) if kind == "direct" else None
        lf, rf, sf = ref.eval_pair_handler(kind, table, dict(vars(left.match)), dict(vars(right.match)), pairs, acp)
        for obj, fields in ((left, lf), (right, rf), (session, sf)):
            for k, v in fields.items():
                setattr(obj, k, _conv(v))
    handler.__qualname__ = "table_%s_%s" % (kind, json.dumps(table, sort_keys=True))
    return handler


def make_virtual_handler(table):
    def handler(local, virtual, session):
        lf, vf, sf = ref.eval_virtual_handler(table, dict(vars(local.match)), virtual.num)
        for obj, fields in ((local, lf), (virtual, vf), (session, sf)):
            for k, v in fields.items():
                setattr(obj, k, _conv(v))
    return handler


def make_device_handler(table):
    def handler(device):
        for path, value in ref.eval_device_handler(table, dict(vars(device.match))):
            obj = device
            for step in path[:-1]:
                obj = obj[step] if isinstance(obj, dict) else getattr(obj, step)
            setattr(obj, path[-1], _conv(value))
    return handler


def build_registry(desc, short=False):
    from annet.mesh import MeshRulesRegistry, separate_ports, united_ports
    short = short or bool(desc.get("short"))
    reg = MeshRulesRegistry(match_short_name=True) if short else MeshRulesRegistry()
    for rule in desc.get("rules", []):
        k = rule["k"]
        if k == "direct":
            reg.direct(rule["l"], rule["r"], *_pair_filter(rule.get("f", "")),
                       port_processor=united_ports if rule.get("pp", "u") == "u" else separate_ports)(
                make_pair_handler("direct", rule["h"]))
        elif k == "indirect":
            reg.indirect(rule["l"], rule["r"], *_pair_filter(rule.get("f", "")))(make_pair_handler("indirect", rule["h"]))
        elif k == "virtual":
            reg.virtual(rule["l"], list(rule["nums"]), *_single_filter(rule.get("f", "")))(make_virtual_handler(rule["h"]))
        elif k == "device":
            reg.device(rule["l"], *_single_filter(rule.get("f", "")))(make_device_handler(rule["h"]))
        else:
            raise AssertionError(k)
    for sub in desc.get("nested", []):
        reg.include(build_registry(sub, short))
    return reg


# ---------------------------------------------------------------------------------------------------
# normalisation of the real result
_CONCAT_NAMES = set(ref.CONCAT_FIELDS)


_DC_FIELDS = {}


def _dc_fields(cls):
    f = _DC_FIELDS.get(cls)
    if f is None:
        import dataclasses
        f = _DC_FIELDS[cls] = ([x.name for x in dataclasses.fields(cls)] if dataclasses.is_dataclass(cls) else None)
    return f


def norm(obj, name=""):
    if obj is None or isinstance(obj, (bool, str)):
        return obj
    if isinstance(obj, int):
        return int(obj)
    fields = _dc_fields(type(obj))
    if fields is not None:
        if name == "options":          # PeerOptions: ~45 optional fields, keep the assigned ones
            return {f: norm(v, f) for f in fields for v in (getattr(obj, f),) if v is not None}
        return {f: norm(getattr(obj, f), f) for f in fields}
    if isinstance(obj, (set, frozenset)):
        return sorted(norm(x) for x in obj)
    if isinstance(obj, dict):
        return {str(k): norm(v, name) for k, v in obj.items()}
    if isinstance(obj, (list, tuple)):
        items = [norm(x) for x in obj]
        if name in _CONCAT_NAMES or name == "groups":
            items.sort(key=lambda x: json.dumps(x, sort_keys=True))
        return items
    if type(obj).__name__ == "VidCollection":
        return str(obj)
    return repr(obj)


def norm_config(cfg):
    peers = sorted((norm(p) for p in cfg.peers), key=lambda p: json.dumps(p, sort_keys=True))
    return {"global": norm(cfg.global_options), "peers": peers}


CONFLICT_EXC = ("ValueError", "MergeForbiddenError")


def run_impl(topo, desc, dev):
    """-> {"status": "ok", "cfg": normalised, "peers_in_order": [...], "ops": [...]} | {"status": "error", "exc", "msg"}"""
    from annet.mesh import MeshExecutor
    st, devs = build_storage(topo)
    reg = build_registry(desc, bool(topo.get("short")))
    try:
        cfg = MeshExecutor(reg, st).execute_for(devs[dev])
    except Exception as e:  # noqa: classified by the callers
        return {"status": "error", "exc": type(e).__name__, "msg": str(e)[:300]}
    out = norm_config(cfg)
    return {"status": "ok", "cfg": out, "ops": devs[dev].log,
            "order": [[p.hostname, p.addr] for p in cfg.peers]}


def run_impl_shared(topo, desc, order):
    """ONE executor and ONE storage for all devices, execute_for called in `order` (as a generator run over a fabric
    does) -> {dev: result as run_impl gives it}"""
    from annet.mesh import MeshExecutor
    st, devs = build_storage(topo)
    ex = MeshExecutor(build_registry(desc, bool(topo.get("short"))), st)
    res = {}
    for dev in order:
        before = len(devs[dev].log)
        try:
            cfg = ex.execute_for(devs[dev])
        except Exception as e:  # noqa
            res[dev] = {"status": "error", "exc": type(e).__name__, "msg": str(e)[:300]}
            continue
        res[dev] = {"status": "ok", "cfg": norm_config(cfg), "ops": devs[dev].log[before:],
                    "order": [[p.hostname, p.addr] for p in cfg.peers]}
    return res


# ---------------------------------------------------------------------------------------------------
# registration variants
def variants(rules):
    """[(label, registry descriptor)] - variant 0 is the flat registry in the given order"""
    n = len(rules)
    out = []
    for perm in itertools.permutations(range(n)):
        out.append(("flat" + "".join(map(str, perm)), {"rules": [rules[i] for i in perm], "nested": []}))
    if n == 1:
        out.append(("nest[]+[0]", {"rules": [], "nested": [{"rules": [rules[0]], "nested": []}]}))
    elif n == 2:
        out.append(("nest[0]+[1]", {"rules": [rules[0]], "nested": [{"rules": [rules[1]], "nested": []}]}))
        out.append(("nest[]+[1]+[0]", {"rules": [], "nested": [{"rules": [rules[1]], "nested": []},
                                                             {"rules": [rules[0]], "nested": []}]}))
    elif n == 3:
        out.append(("nest[0]+[1,2]", {"rules": [rules[0]], "nested": [{"rules": [rules[1], rules[2]], "nested": []}]}))
        out.append(("nest[]+[2]+[0,1]", {"rules": [], "nested": [{"rules": [rules[2]], "nested": []},
                                                               {"rules": [rules[0], rules[1]], "nested": []}]}))
        out.append(("nest[1]+[0]+[[2]]", {"rules": [rules[1]], "nested": [
            {"rules": [rules[0]], "nested": [{"rules": [rules[2]], "nested": []}]}]}))
    return out


# ---------------------------------------------------------------------------------------------------
# oracles
def _kinds(rules):
    return "+".join(sorted({r["k"] for r in rules}))


def _get_path(glob, path):
    """walk the normalised GlobalOptions along a reference path; groups are lists of PeerGroup keyed by name"""
    obj = glob
    i = 0
    while i < len(path):
        step = path[i]
        if step == "groups":
            name = path[i + 1]
            obj = next((g for g in obj["groups"] if g["name"] == name), None)
            if obj is None:
                return "<missing group>"
            i += 2
            continue
        if not isinstance(obj, dict) or step not in obj:
            return "<missing>"
        obj = obj[step]
        i += 1
    return obj


def _norm_ref_value(path, value):
    if isinstance(value, frozenset):
        return sorted(value)
    if isinstance(value, tuple):
        return sorted(value) if path[-1] in _CONCAT_NAMES else list(value)
    return value


def _ops_multiset(ops):
    return sorted(json.dumps(o, sort_keys=True) for o in ops)


def judge_ref(topo, rules, dev, impl, exp):
    """variant 0 of the real code against the reference -> [(sig, detail)]"""
    out = []
    kinds = _kinds(rules)
    if exp["status"] == "error":
        if impl["status"] == "ok":
            out.append(({"kind": "ref-status", "rules": kinds, "ref": "refused", "impl": "ok",
                         "reason": exp["why"].split(":")[0]},
                        "device %s: reference refuses (%s), executor returned %d peers" % (dev, exp["why"], len(impl["cfg"]["peers"]))))
        elif impl["exc"] not in CONFLICT_EXC:
            out.append(({"kind": "error-class", "rules": kinds, "exc": impl["exc"], "reason": exp["why"].split(":")[0]},
                        "device %s: %s: %s" % (dev, impl["exc"], impl["msg"])))
        return out
    if impl["status"] != "ok":
        out.append(({"kind": "ref-status", "rules": kinds, "ref": "ok", "impl": impl["exc"]},
                    "device %s: reference expects %d peers, executor raised %s: %s" % (dev, len(exp["peers"]), impl["exc"], impl["msg"])))
        return out
    got = collections.defaultdict(list)
    for p in impl["cfg"]["peers"]:
        got[(p["hostname"], p["addr"], p["vrf_name"])].append(p)
    want = collections.defaultdict(list)
    for p in exp["peers"]:
        want[(p["hostname"], p["addr"], p["vrf_name"])].append(p)
    for key in sorted(set(got) | set(want)):
        g, w = got.get(key, []), want.get(key, [])
        if len(g) != len(w):
            rp = (w or [None])[0]
            out.append(({"kind": "ref-peer-missing" if len(g) < len(w) else "ref-peer-extra",
                         "rule": rp["kind"] if rp else kinds, "orientation": rp["roles"] if rp else "?"},
                        "device %s peer %r: executor has %d, reference %d; executor peers: %r" % (
                            dev, key, len(g), len(w), sorted(got))))
            continue
        # several peers with one key happen for virtual peers only (same addr is not produced twice); compare sorted
        def proj(p):
            o = p["options"] or {}
            return json.dumps([p["interface"], p["remote_as"], p["families"], o.get("local_as")] +
                              [o.get(f) for f in ref.PEER_OPTION_FIELDS])
        g, w = sorted(g, key=proj), sorted(w, key=proj)
        for gp, wp in zip(g, w):
            opts = gp["options"] or {}
            pairs = [
                ("interface", gp["interface"], wp["interface"]),
                ("remote_as", gp["remote_as"], wp["remote_as"]),
                ("families", gp["families"], wp["families"]),
                ("options.local_as", opts.get("local_as"), wp["options"]["local_as"]),
            ] + [("options." + f, opts.get(f), wp["options"][f]) for f in ref.PEER_OPTION_FIELDS]
            for field, a, b in pairs:
                if a != b:
                    out.append(({"kind": "ref-peer-field", "rule": wp["kind"], "field": field, "orientation": wp["roles"]},
                                "device %s peer %r: %s = %r, reference %r" % (dev, key, field, a, b)))
            extra = sorted(k for k, v in opts.items() if v is not None and k not in ("local_as",) + ref.PEER_OPTION_FIELDS)
            if extra:
                out.append(({"kind": "ref-peer-field", "rule": wp["kind"], "field": "options.<unassigned>",
                             "orientation": wp["roles"]}, "device %s peer %r: options nobody assigned: %r" % (dev, key, extra)))
    if _ops_multiset(impl["ops"]) != _ops_multiset(exp["ops"]):
        a, b = collections.Counter(_ops_multiset(impl["ops"])), collections.Counter(_ops_multiset(exp["ops"]))
        diff = sorted((a - b).elements()) + sorted((b - a).elements())
        out.append(({"kind": "ref-iface-ops", "rules": _kinds([r for r in rules if r["k"] != "device"]), "op": json.loads(diff[0])[0]},
                    "device %s: interface operations %r, reference %r" % (dev, impl["ops"], exp["ops"])))
    for path, value in sorted(exp["global"].items()):
        g = _get_path(impl["cfg"]["global"], path)
        if path[-1] in _CONCAT_NAMES and isinstance(g, list):
            g = sorted(g)
        if g != _norm_ref_value(path, value):
            gen = "/".join("*" if i and path[i - 1] in ("vrf", "groups") and s not in ("groups",) else s for i, s in enumerate(path))
            out.append(({"kind": "ref-global", "path": gen},
                        "device %s: global option %s = %r, reference %r" % (dev, "/".join(path), g, _norm_ref_value(path, value))))
    for dpath in (("vrf",), ("groups",)):
        want_keys = sorted(exp["dict_keys"].get(dpath, ()))
        node = impl["cfg"]["global"][dpath[0]]
        got_keys = sorted(node) if isinstance(node, dict) else sorted(g["name"] for g in node)
        if got_keys != want_keys:
            out.append(({"kind": "ref-global-keys", "path": dpath[0]},
                        "device %s: %s keys %r, reference %r" % (dev, dpath[0], got_keys, want_keys)))
    return out


def _addr_ips(ops, ifname):
    import ipaddress
    return {str(ipaddress.ip_interface(o[2]).ip) for o in ops if o[0] == "add_addr" and o[1] == ifname}


SESSION_OPTS = ("bfd",)


def _mirror_diff(p, q, ops_a, ops_b, check_addr=True):
    """fields in which peer p (on A, towards B) and q (on B, towards A) are not mirror images"""
    bad = []
    po, qo = p["options"] or {}, q["options"] or {}
    if p["vrf_name"] != q["vrf_name"]:
        bad.append("vrf_name")
    if p["families"] != q["families"]:
        bad.append("families")
    if p["remote_as"] != qo.get("local_as"):
        bad.append("remote_as")
    if q["remote_as"] != po.get("local_as"):
        bad.append("remote_as")
    for f in SESSION_OPTS:
        if po.get(f) != qo.get(f):
            bad.append("options." + f)
    if check_addr:
        if q["interface"] is not None and p["addr"] not in _addr_ips(ops_b, q["interface"]):
            bad.append("addr")
        if p["interface"] is not None and q["addr"] not in _addr_ips(ops_a, p["interface"]):
            bad.append("addr")
    return sorted(set(bad))


def _perfect_matching(pa, pb, ok):
    match_b = {}

    def try_(i, seen):
        for j in range(len(pb)):
            if ok(i, j) and j not in seen:
                seen.add(j)
                if j not in match_b or try_(match_b[j], seen):
                    match_b[j] = i
                    return True
        return False
    return all(try_(i, set()) for i in range(len(pa))) and len(match_b) == len(pb)


def judge_mirror(topo, rules, impl_by_dev, exp_by_dev):
    """reference-free comparison of the two ends of every pair -> ([(sig, detail)], counters)"""
    out, counters = [], collections.Counter()
    devs = topo["devices"]
    kinds = _kinds([r for r in rules if r["k"] in ("direct", "indirect")]) or "none"

    def info(dev, p):        # rule kind / orientation of a peer, from the reference where it has the peer
        e = exp_by_dev.get(dev)
        if e and e["status"] == "ok":
            for rp in e["peers"]:
                if (rp["hostname"], rp["addr"], rp["vrf_name"]) == (p["hostname"], p["addr"], p["vrf_name"]):
                    return rp["kind"], rp["roles"]
        return kinds, "?"
    for a, b in itertools.combinations(devs, 2):
        ia, ib = impl_by_dev[a], impl_by_dev[b]
        if ia["status"] != "ok" or ib["status"] != "ok":
            if ia["status"] != ib["status"]:
                ok_side = ia if ia["status"] == "ok" else ib
                other = b if ia["status"] == "ok" else a
                if any(p["hostname"] == other for p in ok_side["cfg"]["peers"]):
                    counters["mirror:one side refused, other side has the peer"] += 1
            continue
        pa = [p for p in ia["cfg"]["peers"] if p["hostname"] == b]
        pb = [p for p in ib["cfg"]["peers"] if p["hostname"] == a]
        if not pa and not pb:
            continue
        counters["mirror:pairs compared"] += 1
        if len(pa) != len(pb):
            more, side, dev = (pa, "B lacks", a) if len(pa) > len(pb) else (pb, "A lacks", b)
            k, roles = info(dev, more[0])
            out.append(({"kind": "mirror", "rule": k, "field": "missing-peer", "orientation": roles},
                        "%s has %d peers for %s, %s has %d for %s: %r / %r" % (
                            a, len(pa), b, b, len(pb), a, [p["addr"] for p in pa], [p["addr"] for p in pb])))
            continue
        if _perfect_matching(pa, pb, lambda i, j: not _mirror_diff(pa[i], pb[j], ia["ops"], ib["ops"])):
            counters["mirror:sessions matched"] += len(pa)
            continue
        # explain: pair by address only, then name the fields
        fields = set()
        for p in pa:
            cands = [q for q in pb if "addr" not in _mirror_diff(p, q, ia["ops"], ib["ops"])]
            if not cands:
                fields.add("addr")
            else:
                fields.update(min((_mirror_diff(p, q, ia["ops"], ib["ops"]) for q in cands), key=len))
        k, roles = info(a, pa[0])
        for f in sorted(fields) or ["matching"]:
            out.append(({"kind": "mirror", "rule": k, "field": f, "orientation": roles},
                        "%s -> %s peers %r ; %s -> %s peers %r ; ops %r / %r" % (a, b, pa, b, a, pb, ia["ops"], ib["ops"])))
    return out, counters


def _first_diff(a, b, path=""):
    if type(a) is not type(b):
        return path or "/"
    if isinstance(a, dict):
        for k in sorted(set(a) | set(b)):
            if a.get(k) != b.get(k):
                return _first_diff(a.get(k), b.get(k), path + "/" + str(k))
    if isinstance(a, list):
        if len(a) != len(b):
            return path + "[len]"
        for x, y in zip(a, b):
            if x != y:
                return _first_diff(x, y, path + "[]")
    return path


def judge_order(rules, dev, base, other, label):
    kinds = _kinds(rules)
    shape = "nested" if label.startswith("nest") else "flat"
    sa = base["status"] if base["status"] == "ok" else ("refused" if base["exc"] in CONFLICT_EXC else base["exc"])
    sb = other["status"] if other["status"] == "ok" else ("refused" if other["exc"] in CONFLICT_EXC else other["exc"])
    if sa != sb:
        return [({"kind": "order", "rules": kinds, "what": "status", "first": sa, "variant": sb, "shape": shape},
                 "device %s: registration %s gives %s, the given order %s (%s | %s)" % (
                     dev, label, sb, sa, other.get("msg", ""), base.get("msg", "")))]
    if sa != "ok":
        return []
    out = []
    if base["cfg"] != other["cfg"]:
        where = _first_diff(base["cfg"], other["cfg"])
        gen = "/".join("*" if (s and i and where.split("/")[i - 1] in ("vrf",)) else s for i, s in enumerate(where.split("/")))
        out.append(({"kind": "order", "rules": kinds, "what": "config", "where": gen, "shape": shape},
                    "device %s: registration %s differs at %s" % (dev, label, where)))
    if _ops_multiset(base["ops"]) != _ops_multiset(other["ops"]):
        out.append(({"kind": "order", "rules": kinds, "what": "interface-ops", "shape": shape},
                    "device %s: registration %s: ops %r vs %r" % (dev, label, other["ops"], base["ops"])))
    return out


def check_case(topo, rules, full=True):
    """one (topology, rules) case -> (violations [(sig, detail)], outcome label, nontrivial, evals, counters)"""
    out, counters = [], collections.Counter()
    evals = 0
    vs = variants(rules)
    impl0, exps = {}, {}
    flat = ref.flatten(vs[0][1])
    labels = []
    nontrivial = False
    for dev in topo["devices"]:
        exp = exps[dev] = ref.ref_execute(topo, flat, dev)
        impl = impl0[dev] = run_impl(topo, vs[0][1], dev)
        evals += 1
        out.extend(judge_ref(topo, rules, dev, impl, exp))
        if exp["status"] == "ok":
            labels.append("ok")
            if exp["peers"] or exp["global"]:
                nontrivial = True
            counters["ref peers expected"] += len(exp["peers"])
            for p in exp["peers"]:
                counters["peer:%s:%s" % (p["kind"], (p["interface"] or "none").rstrip("0123456789"))] += 1
        else:
            nontrivial = True
            labels.append("conflict" if exp["conflict"] else "misuse")
            counters["refused:" + exp["why"].split(":")[0]] += 1
    mout, mc = judge_mirror(topo, rules, impl0, exps)
    out.extend(mout)
    counters.update(mc)
    # one executor serving the whole fabric, devices in several orders: every device must get what a fresh executor gives
    devs_ = list(topo["devices"])
    orders = list(itertools.permutations(devs_)) if len(devs_) <= 3 else [tuple(devs_), tuple(reversed(devs_)), tuple(devs_[1:] + devs_[:1])]
    for order in (orders if full else orders[:2]):
        shared = run_impl_shared(topo, vs[0][1], order)
        evals += len(order)
        for dev in order:
            a, b = impl0[dev], shared[dev]
            if a["status"] != b["status"] or (a["status"] == "ok" and (a["cfg"] != b["cfg"] or _ops_multiset(a["ops"]) != _ops_multiset(b["ops"]))):
                if a["status"] == "error" and b["status"] == "error":
                    continue
                out.append(({"kind": "shared-executor-differs", "kinds": _kinds(rules),
                             "what": "status" if a["status"] != b["status"] else ("config" if a["cfg"] != b["cfg"] else "interface-ops")},
                            "device %s after %r on one MeshExecutor: %s; with a fresh executor: %s"
                            % (dev, list(order[:order.index(dev)]), _first_diff(a.get("cfg"), b.get("cfg")) if a["status"] == b["status"] == "ok" else (a["status"], b["status"]),
                               "ops %r vs %r" % (a.get("ops"), b.get("ops")) if a.get("cfg") == b.get("cfg") else "")))
                break
    if full:
        for label, desc in vs[1:]:
            for dev in topo["devices"]:
                other = run_impl(topo, desc, dev)
                evals += 1
                if other["status"] == "ok" and impl0[dev]["status"] == "ok" and other["order"] != impl0[dev]["order"]:
                    counters["order:peer list order differs between variants (not judged)"] += 1
                out.extend(judge_order(rules, dev, impl0[dev], other, label))
    c = collections.Counter(labels)
    label = "%s: %s" % (_kinds(rules), " ".join("%s=%d" % (k, c[k]) for k in sorted(c)))
    return out, label, nontrivial, evals, counters


# ---------------------------------------------------------------------------------------------------
# part A: alphabets and enumeration
S1, S2, T1, T2, T3 = "spine-1", "spine-2", "tor-1", "tor-2", "tor-3"
GEN = "{role:[a-z]+}-{n}"

ATTRS = {
    "A0": {"as": "s0", "fam": "4"},
    "A1": {"as": "side", "fam": "6", "mtu": "L1"},
    "A2": {"as": "s0", "fam": "4", "vrf": "v", "bfd": "1"},
    "A3": {"as": "s1", "fam": "4"},
    "A4": {"as": "s0", "fam": "6", "mtu": "L2", "bfd": "0"},
    "A5": {"as": "side", "fam": "4", "mtu": "R1", "vrf": "v"},
    "A6": {"as": "s0", "fam": "4", "guard": "lt"},
    "A7": {"as": "dot", "fam": "46", "mtu": "B1"},
    "A8": {"as": "selfconf", "fam": "4"},
}
ATTR_DIMS = [("as", ["s0", "s1", "side", "dot"]), ("fam", ["4", "6", "46"]), ("mtu", ["", "L1", "L2", "R1", "B1"]),
             ("vrf", ["", "v"]), ("bfd", ["", "1", "0"]), ("guard", ["", "lt"])]

D_MATCHERS = {
    "D0": ("spine-{n}", "tor-{n}", ""),
    "D1": ("tor-{n}", "spine-{n}", ""),
    "D2": ("spine-{n}", "tor-{n:\\d+}", "eqc"),
    "D3": ("spine-{n}", "tor-{n}", "le"),
    "D4": (GEN, GEN, "role_ne"),
    "D5": (GEN, GEN, "role_ne_lt"),
    "D6": ("spine-{n}", "spine-{n}", "lt"),
    "D7": ("spine-{n}", "tor-{n}", "rin1"),
    "D8": ("spine-{n}", "tor-{n:\\d+}", "lt"),       # int < str: the filter cannot be evaluated
}
D_IFS = ["port", "lag", "lagmin", "subif", "lagsub", "svi", "Llag", "Rsvi", "lagsvi", "svisub"]
I_MATCHERS = {
    "I0": ("spine-{n}", "tor-{n}", ""),
    "I1": ("tor-{n}", "spine-{n}", ""),
    "I2": (GEN, GEN, "role_ne"),
    "I3": ("spine-{n}", "spine-{n}", "lt"),
    "I4": (GEN, GEN, "ne"),
    "I5": ("tor-{n}", "tor-{n:\\d+}", "eqc"),        # would pair a device with itself: counted, excluded from judging
    "I6": ("tor-{n}", "tor-{n}", "ne"),
}
I_IFS = ["none", "lo", "losub", "svi", "Llo", "Rsvi", "nolo", "svisub"]
S_MATCHERS = {"M0": ("tor-{n}", ""), "M1": (GEN, "m1"), "M2": ("spine-{n}", "mlt2"), "M3": (GEN, "")}


ACP_MODES = ["lmin", "rmin", "lname", "rname"]       # handler reads left/right .all_connected_ports


def rule_direct(m, pp, sel, plan, attrs, acp=""):
    l, r, f = D_MATCHERS[m]
    h = dict(attrs, plan=plan, **{"if": sel})
    if acp:
        h["acp"] = acp
    return {"k": "direct", "l": l, "r": r, "f": f, "pp": pp, "h": h}


def rule_indirect(m, sel, plan, attrs):
    l, r, f = I_MATCHERS[m]
    return {"k": "indirect", "l": l, "r": r, "f": f, "h": dict(attrs, plan=plan, **{"if": sel})}


def rule_virtual(m, nums, h):
    l, f = S_MATCHERS[m]
    return {"k": "virtual", "l": l, "f": f, "nums": list(nums), "h": h}


def rule_device(m, h):
    l, f = S_MATCHERS[m]
    return {"k": "device", "l": l, "f": f, "h": h}


def topo(devs, *links, base=None):
    t = {"devices": list(devs), "links": [list(x) for x in links]}
    if base:
        t["base"] = dict(base)
    return t


def offsets(devs, step=2, first=0):
    """port numbering bases so that the two ends of every link use different port names"""
    return {d: first + step * i for i, d in enumerate(devs) if first + step * i}


def _uniq(seq):
    seen, out = set(), []
    for x in seq:
        k = json.dumps(x, sort_keys=True)
        if k not in seen:
            seen.add(k)
            out.append(x)
    return out


def attr_product():
    names = [n for n, _ in ATTR_DIMS]
    return [dict(zip(names, vals)) for vals in itertools.product(*[v for _, v in ATTR_DIMS])]


def topologies(tier):
    """named topology sets"""
    t = {}
    two = []
    for a, b in ((S1, T1), (S1, T2), (S2, T1), (S1, S2)):
        # port numbering: same names on both ends / second end shifted by one (overlapping names) / disjoint names /
        # the first end carries the higher numbers
        for k, x, base in ((1, 0, None), (2, 0, {b: 1}), (2, 1, {b: 3}), (3, 1, {a: 2})) + (
                ((3, 0, None),) if tier == "thorough" else ()):
            two.append(topo([a, b], [a, b, k, x], base=base))
    two.append(topo([T1, T2], [T1, T2, 1, 0]))
    two.append(topo([T1, S1], [T1, S1, 2, 1], base={S1: 1}))   # the tor listed (and cabled) first
    two.append(topo([S1, T1]))                           # not linked
    three = [
        topo([S1, T1, T2], [S1, T1, 2, 1], [S1, T2, 1, 0], base=offsets([S1, T1, T2])),
        topo([S1, S2, T1], [S1, T1, 1, 0], [S2, T1, 2, 0], [S1, S2, 1, 0], base=offsets([S1, S2, T1])),
    ]
    four = [
        topo([S1, S2, T1, T2], [S1, T1, 1, 0], [S1, T2, 1, 0], [S2, T1, 1, 0], [S2, T2, 1, 0]),
        topo([S1, S2, T1, T2], [S1, T1, 2, 1], [S2, T2, 3, 1], [T1, T2, 1, 0], [S1, S2, 1, 0], [S2, T1, 1, 0],
             base=offsets([S1, S2, T1, T2], step=1)),
    ]
    # fully qualified names, two devices sharing their short host name; the registry compares names without the domain part
    # (match_short_name=True)
    S1F, T1A, T1B, S2F = "spine-1.dc1.example", "tor-1.dc1.example", "tor-1.dc2.example", "spine-2.dc2.example"
    fq = [topo([S1F, T1A, T1B], [S1F, T1A, 1, 0], [S1F, T1B, 1, 0], base=offsets([S1F, T1A, T1B])),
          topo([S1F, S2F, T1A, T1B], [S1F, T1A, 2, 1], [S1F, T1B, 1, 0], [S2F, T1B, 1, 0], base=offsets([S1F, S2F, T1A, T1B], step=1))]
    for f in fq:
        f["short"] = True
    t["fqdn"] = fq
    t["d_single"] = two + three + four
    t["d_pair"] = [topo([S1, T1], [S1, T1, 1, 0]), topo([S1, T1], [S1, T1, 2, 1], base={T1: 1}),
                   topo([S1, T2], [S1, T2, 1, 0]), three[0]]
    t["d_triple"] = [topo([S1, T1], [S1, T1, 1, 0]), topo([S1, T2], [S1, T2, 2, 1], base={T2: 2})]
    sets2 = [[S1, T1], [S1, T2], [S2, T1], [S1, S2], [T1, T2], [T2, S1]]
    t["i_single"] = [topo(s) for s in sets2] + [topo([S1, T1, T2]), topo([S1, S2, T1], [S1, T1, 1, 0]),
                                                topo([S1, S2, T1, T2], [S1, T1, 1, 0], [S2, T2, 2, 0])]
    t["i_pair"] = [topo([S1, T1]), topo([S1, T2]), topo([S1, S2, T1])]
    t["s_single"] = [topo([S1, T1]), topo([T2, S2, T1], [T2, S2, 1, 0])]
    t["mixed"] = [topo([S1, T1], [S1, T1, 2, 1], base={T1: 1}), four[0]]
    if tier == "thorough":
        five = [S1, S2, T1, T2, T3]
        t["d_single"] += [
            topo(five, *[[s, tt, 1, 0] for s in (S1, S2) for tt in (T1, T2, T3)]),
            topo(five, [S1, T1, 3, 1], [S1, T2, 2, 0], [S1, T3, 1, 0], [S2, T3, 2, 1], [S1, S2, 2, 1], [T1, T2, 1, 0],
                 base=offsets(five, step=1)),
        ]
        # every link pattern 0..3 on a spine with two tors, and on the 2x2 fabric with 0..2
        for k1, k2, k3 in itertools.product(range(4), repeat=3):
            links = [[a, b, k, 1] for (a, b), k in zip(((S1, T1), (S1, T2), (T1, T2)), (k1, k2, k3)) if k]
            t.setdefault("d_grid", []).append(topo([S1, T1, T2], *links, base=offsets([S1, T1, T2], step=1)))
        for ks in itertools.product(range(3), repeat=4):
            links = [[a, b, k, 1] for (a, b), k in zip(((S1, T1), (S1, T2), (S2, T1), (S2, T2)), ks) if k]
            t["d_grid"].append(topo([S1, S2, T1, T2], *links, base=offsets([S1, S2, T1, T2], step=1)))
        t["i_single"] += [topo(five)]
        t["mixed"] += [topo(five, *[[s, tt, 1, 0] for s in (S1, S2) for tt in (T1, T2, T3)])]
    return t


def _multisets(alpha, n):
    return [list(c) for c in itertools.combinations_with_replacement(alpha, n)]


_FAMS = {}


def families(tier):
    if tier not in _FAMS:
        _FAMS[tier] = _families(tier)
    return _FAMS[tier]


def _families(tier):
    """[(family name, topology list, registry list)] - a registry is a list of rule descriptors in the given order"""
    th = tier == "thorough"
    T = topologies(tier)
    A = ATTRS
    fam = []
    # ---- direct, one rule
    d1 = [rule_direct(m, pp, sel, 0, A["A0"]) for m in D_MATCHERS for pp in "us" for sel in D_IFS]
    d1 += [rule_direct(m, "u", sel, plan, A[a]) for m in ("D0", "D1", "D4") for sel in ("port", "lag")
           for plan in (0, 1) for a in A]
    d1 += [rule_direct(m, pp, sel, 0, A["A0"], acp) for m in ("D0", "D1", "D4") for pp in "us" for sel in ("port", "lag")
           for acp in ACP_MODES]
    d1 += [rule_direct(m, pp, "port", 0, A["A2"], acp) for m in ("D0", "D1", "D4") for pp in "us" for acp in ("lses", "rses")]
    fam.append(("direct-1", T["d_single"], [[r] for r in _uniq(d1)]))
    fam.append(("short-names", T["fqdn"], [[r] for r in _uniq(
        [rule_direct(m, pp, sel, 0, A["A0"]) for m in ("D0", "D1", "D4", "D7") for pp in "us" for sel in ("port", "lag", "svi")])]
        + [[rule_indirect(m, sel, 0, A["A0"])] for m in ("I0", "I1", "I2") for sel in ("lo", "svi")]))
    if th:
        d1a = [rule_direct(m, pp, sel, plan, a) for m in ("D0", "D4") for pp in "us" for sel in ("port", "lag", "Rsvi")
               for plan in (0, 2) for a in attr_product()]
        fam.append(("direct-1-attrs", T["d_pair"], [[r] for r in d1a]))
    if th:
        grid_rules = [rule_direct(m, pp, sel, 0, A[a]) for m in ("D0", "D1", "D4", "D6") for pp in "us"
                      for sel in ("port", "lag", "svi", "subif") for a in ("A0", "A1")]
        grid_rules += [rule_direct(m, pp, sel, 0, A["A0"], acp) for m in ("D0", "D1", "D4") for pp in "us"
                       for sel in ("port", "lag") for acp in ACP_MODES]
        fam.append(("direct-1-grid", T["d_grid"], [[r] for r in _uniq(grid_rules)]))
    # ---- direct, two rules: first from a base alphabet, second from an overlay alphabet
    if th:
        base = [rule_direct(m, pp, sel, plan, A[a]) for m in ("D0", "D1", "D4") for pp in "us"
                for sel in ("port", "lag", "svi", "Llag", "lagsub") for plan in (0, 1) for a in ("A0", "A1", "A2", "A3", "A4")]
        base += [rule_direct(m, pp, "port", 0, A[a], acp) for m in ("D0", "D1") for pp in "us" for a in ("A0", "A1")
                 for acp in ACP_MODES]
        over = [rule_direct(m, pp, sel, 0, A[a]) for m in ("D0", "D1") for pp in "us" for sel in ("port", "lag", "svi")
                for a in ("A0", "A1", "A2", "A4")]
        over += [rule_direct(m, "u", sel, 2, A["A0"]) for m in ("D0", "D1") for sel in ("port", "lag", "svi")]
        over += [rule_direct("D0", "u", "lag", 0, A["A6"]), rule_direct("D4", "u", "lag", 0, A["A5"])]
    else:
        base = [rule_direct(m, pp, sel, 0, A["A0"]) for m in ("D0", "D1", "D4") for pp in "us" for sel in ("port", "lag", "svi")]
        base += [rule_direct("D0", "u", "lag", 0, A[a]) for a in ("A1", "A2", "A3", "A4", "A5", "A7")]
        base += [rule_direct("D0", "u", "lag", 1, A["A0"]), rule_direct("D1", "s", "Llag", 0, A["A1"])]
        base += [rule_direct("D1", "s", "port", 0, A["A0"], "lmin"), rule_direct("D0", "s", "port", 0, A["A0"], "rname")]
        over = [rule_direct(m, "u", sel, 0, A[a]) for m in ("D0", "D1") for sel in ("port", "lag", "svi")
                for a in ("A0", "A1", "A2", "A4")]
        over += [rule_direct("D0", "s", "lag", 0, A["A0"]), rule_direct("D1", "s", "port", 0, A["A1"]),
                 rule_direct("D0", "u", "lag", 2, A["A0"]), rule_direct("D0", "u", "lag", 0, A["A6"])]
    fam.append(("direct-2", T["d_pair"], [[a, b] for a in _uniq(base) for b in _uniq(over)]))
    # ---- direct, three rules
    d3 = [rule_direct("D0", "u", "lag", 0, A["A0"]), rule_direct("D1", "u", "lag", 0, A["A1"]),
          rule_direct("D4", "u", "lag", 0, A["A2"]), rule_direct("D0", "u", "svi", 0, A["A4"]),
          rule_direct("D0", "s", "port", 0, A["A0"]), rule_direct("D1", "u", "lag", 1, A["A3"]),
          rule_direct("D0", "u", "port", 0, {"as": "side", "fam": "6"}), rule_direct("D1", "u", "Llag", 0, {"as": "s0", "fam": "6", "bfd": "1"}),
          rule_direct("D1", "s", "port", 0, A["A0"], "rmin")]
    if th:
        d3 += [rule_direct(m, pp, sel, 0, A[a]) for m in ("D0", "D1", "D4") for pp in "us" for sel in ("port", "lag")
               for a in ("A0", "A5")]
    fam.append(("direct-3", T["d_triple"], _multisets(_uniq(d3), 3)))
    # ---- indirect
    i1 = [rule_indirect(m, sel, 0, A["A0"]) for m in I_MATCHERS for sel in I_IFS]
    i1 += [rule_indirect(m, sel, plan, A[a]) for m in ("I0", "I2") for sel in ("none", "lo") for plan in (0, 1) for a in A]
    fam.append(("indirect-1", T["i_single"], [[r] for r in _uniq(i1)]))
    if th:
        i1a = [rule_indirect(m, sel, plan, a) for m in ("I0", "I4") for sel in ("none", "lo", "Rsvi") for plan in (0, 2)
               for a in attr_product()]
        fam.append(("indirect-1-attrs", T["i_pair"], [[r] for r in i1a]))
    ib = [rule_indirect(m, sel, 0, A["A0"]) for m in ("I0", "I1", "I2") for sel in ("none", "lo", "svi")]
    ib += [rule_indirect("I0", "lo", 0, A[a]) for a in ("A1", "A2", "A3", "A4", "A5")] + [rule_indirect("I0", "lo", 1, A["A0"])]
    io = [rule_indirect(m, sel, 0, A[a]) for m in ("I0", "I1") for sel in ("none", "lo", "svi") for a in ("A0", "A1", "A4")]
    io += [rule_indirect("I0", "lo", 2, A["A0"]), rule_indirect("I4", "Llo", 0, A["A2"])]
    if th:
        ib = [rule_indirect(m, sel, plan, A[a]) for m in ("I0", "I1", "I2", "I4") for sel in ("none", "lo", "svi", "Llo")
              for plan in (0, 1) for a in ("A0", "A1", "A2", "A3", "A4")]
        io += [rule_indirect(m, sel, 2, A[a]) for m in ("I0", "I1") for sel in ("none", "lo") for a in ("A0", "A2")]
    fam.append(("indirect-2", T["i_pair"], [[a, b] for a in _uniq(ib) for b in _uniq(io)]))
    i3 = [rule_indirect("I0", "lo", 0, A["A0"]), rule_indirect("I1", "lo", 0, A["A1"]), rule_indirect("I2", "none", 0, A["A2"]),
          rule_indirect("I0", "svi", 0, A["A4"]), rule_indirect("I4", "lo", 1, A["A0"]), rule_indirect("I1", "Llo", 0, A["A3"])]
    if th:
        i3 += [rule_indirect(m, sel, 0, A[a]) for m in ("I0", "I1", "I2") for sel in ("none", "lo") for a in ("A0", "A5")]
    fam.append(("indirect-3", T["i_pair"][:2], _multisets(_uniq(i3), 3)))
    # ---- virtual
    vt = [dict(zip(("plan", "if", "as", "fam", "mtu", "bfd"), v)) for v in itertools.product(
        (0, 1), ("svi", "nosvi"), ("s0", "side"), ("4", "6"), ("", "L1"), ("", "1"))]
    v1 = [rule_virtual(m, nums, h) for m in S_MATCHERS for nums in ((1,), (1, 2)) for h in vt]
    fam.append(("virtual-1", T["s_single"], [[r] for r in v1]))
    v2 = [rule_virtual(m, (1, 2), h) for m in ("M0", "M3") for h in vt if h["if"] == "svi" and not h["mtu"] and h["fam"] == "4"]
    fam.append(("virtual-2", T["s_single"][:1], _multisets(v2, 2) + (_multisets(v2[:6], 3) if th else _multisets(v2[:4], 3))))
    # ---- device (global options)
    dims = [("as", ["", "c", "n"]), ("rid", ["", "1", "2"]), ("agg", ["", "x", "y", "xy"]), ("aggpol", ["", "P1", "P2"]),
            ("vrf", ["", "a", "b", "c"]), ("grp", ["", "a", "b", "c"])]
    star = [{}]
    for name, vals in dims:
        star += [{name: v} for v in vals if v]
    compact = [dict(zip(("as", "agg", "vrf", "grp"), v)) for v in itertools.product(("", "c"), ("", "x"), ("", "a", "b"), ("", "a"))]
    g1 = [rule_device(m, h) for m in S_MATCHERS for h in _uniq(star + compact)]
    if th:
        g1 = [rule_device(m, dict(zip([n for n, _ in dims], v))) for m in ("M0", "M3") for v in itertools.product(*[v for _, v in dims])] + g1
    fam.append(("device-1", T["s_single"], [[r] for r in _uniq(g1)]))
    g2 = []
    for name, vals in dims:                       # every pair of values of one dimension
        for v1_, v2_ in itertools.product(vals, repeat=2):
            g2.append([rule_device("M3", {name: v1_} if v1_ else {}), rule_device("M0", {name: v2_} if v2_ else {})])
    g2 += [[rule_device("M3", a), rule_device("M3", b)] for a in compact for b in compact]
    if th:
        wide = [dict(zip(("as", "agg", "aggpol", "vrf", "grp"), v)) for v in
                itertools.product(("", "c", "n"), ("", "x", "y"), ("", "P1"), ("", "a", "b"), ("", "a", "c"))]
        g2 += [[rule_device("M3", a), rule_device("M0", b)] for a in wide for b in wide]
    fam.append(("device-2", T["s_single"][:1], _uniq(g2)))
    g3 = [rule_device("M3", h) for h in ({"agg": "x"}, {"agg": "y"}, {"vrf": "a"}, {"vrf": "b"}, {"vrf": "c", "grp": "a"},
                                         {"grp": "c", "as": "c"}, {"as": "n", "agg": "xy"}, {"aggpol": "P1", "vrf": "a"})]
    if th:
        g3 += [rule_device("M0", h) for h in ({"agg": "x", "vrf": "b"}, {"grp": "b"}, {"rid": "1", "grp": "a"}, {"aggpol": "P2"})]
    fam.append(("device-3", T["s_single"][:1], _multisets(g3, 3)))
    # ---- mixed kinds
    mx = [rule_direct("D0", "u", "lag", 0, A["A0"]), rule_direct("D4", "s", "svi", 0, A["A1"]),
          rule_indirect("I0", "svi", 0, A["A0"]), rule_indirect("I2", "lo", 0, A["A1"]),
          rule_virtual("M3", (1, 2), {"plan": 0, "as": "s0", "fam": "4"}), rule_virtual("M0", (1,), {"plan": 1, "as": "side", "fam": "6"}),
          rule_device("M3", {"as": "c", "agg": "x", "vrf": "a"}), rule_device("M0", {"agg": "y", "vrf": "b", "grp": "a"})]
    if th:
        mx += [rule_direct("D1", "u", "port", 1, A["A2"]), rule_indirect("I1", "none", 1, A["A4"]), rule_device("M1", {"grp": "b"})]
    mixed = [rs for n in (2, 3) for rs in _multisets(mx, n) if len({r["k"] for r in rs}) > 1]
    fam.append(("mixed", T["mixed"], mixed))
    return fam


_FAM_CACHE = {}


def family_cases(tier, name):
    if tier not in _FAM_CACHE:
        _FAM_CACHE[tier] = {n: (t, r) for n, t, r in families(tier)}
    return _FAM_CACHE[tier][name]


def _bound_text(tier):
    fams = families(tier)
    parts = ["%s: %d topologies x %d registries" % (n, len(t), len(r)) for n, t, r in fams]
    return ("part A, complete per family (every device, every registration variant: all permutations + 1/2/3 "
            "nestings): " + "; ".join(parts) + ". part B, complete: every Merger class and every field of every "
            "BaseMeshModel subclass in annet.mesh, all ordered triples over the field's domain "
            "({NOT_SET,0,1} | subsets of {x,y} | tuples <= 2 over {x,y} | nested model of 2 fields | dict of <= 2 keys)"
            + ("; cross-field triples" if tier == "thorough" else "; cross-field pairs"))


BLOCK_EXECS = {"quick": 1500, "thorough": 12000}      # execute_for calls per block, approximately


def blocks(tier, seed):
    bl = []
    for name, topos, regs in families(tier):
        execs = sum(len(t["devices"]) for t in topos) * sum({1: 2, 2: 4, 3: 9}[len(r)] for r in regs)
        of = max(1, min(96, -(-execs // BLOCK_EXECS[tier])))
        bl += [{"part": "A", "tier": tier, "fam": name, "i": i, "of": of} for i in range(of)]
    if tier == "quick":
        # one seed-selected slice of the thorough space on top of the quick core
        th = [(name, len(t) * len(r)) for name, t, r in families("thorough")]
        name, n = th[seed % len(th)]
        of = max(1, n // 150)
        bl.append({"part": "A", "tier": "thorough", "fam": name, "i": (seed // len(th)) % of, "of": of, "extra": 1})
    for c in model_classes():
        name = "%s.%s" % (c.__module__, c.__name__)
        heavy = sum(1 for f in c._field_mergers if not isinstance(ref.expected_kind(c.__name__, f), str))
        of = 6 if heavy > 4 else (2 if len(c._field_mergers) > 40 else 1)
        bl += [{"part": "B", "cls": name, "j": j, "of": of} for j in range(of)]
    bl.append({"part": "B", "cls": "<mergers>"})
    return bl


def run_block(block, ctx):
    if block["part"] == "A":
        run_a(block, ctx)
    else:
        run_b(block, ctx)


def run_a(block, ctx):
    topos, regs = family_cases(block["tier"], block["fam"])
    total = len(topos) * len(regs)
    for idx in range(block["i"], total, block["of"]):
        if ctx.expired():
            return
        ti, ri = idx % len(topos), idx // len(topos)
        tp, rules = topos[ti], regs[ri]
        if ref.self_pair_rules(tp, rules):
            ctx.extra["cases outside the domain (indirect rule pairs a device with itself), skipped"] += 1
            continue
        out, label, nontrivial, evals, counters = check_case(tp, rules)
        ctx.evals += evals
        ctx.states += 1
        ctx.nontrivial += bool(nontrivial)
        ctx.outcomes[label] += 1
        for k, v in counters.items():
            ctx.extra[k] += v
        if nontrivial and len(ctx.samples) < 1:
            ctx.sample({"family": block["fam"], "topology": tp, "rules": rules, "outcome": label})
        case = {"part": "A", "topo": tp, "rules": rules}
        for sig, detail in out:
            ctx.violation(sig, case, detail)


# ---------------------------------------------------------------------------------------------------
# part B: merger laws
X, Y = "x", "y"
NS = ref.NOT_SET


def model_classes():
    from annet.mesh.basemodel import BaseMeshModel
    import annet.mesh.executor  # noqa: F401
    import annet.mesh.device_models  # noqa: F401
    out = []

    def walk(c):
        for s in c.__subclasses__():
            if s.__module__.startswith("annet.") and s not in out:
                out.append(s)
            walk(s)
    walk(BaseMeshModel)
    return out


def model_class_names():
    return ["%s.%s" % (c.__module__, c.__name__) for c in model_classes()]


def describe_merger(m):
    from annet.mesh import basemodel as bm
    t = type(m)
    simple = {bm.ForbidChange: "forbid_change", bm.Forbid: "forbid", bm.Unite: "unite", bm.Concat: "concat",
              bm.UseFirst: "use_first", bm.UseLast: "use_last"}
    if t in simple:
        return simple[t]
    if t is bm.Merge:
        return ("merge", None)
    if t is bm.DictMerge:
        return ("dict", describe_merger(m.value_merger))
    if t is bm.ApplyFunc:
        return ("apply", getattr(m.func, "__name__", "?"))
    return ("unknown", t.__name__)


def _shape(kind):
    """kind without the target class of a nested merge (the merger object does not know it)"""
    if isinstance(kind, (tuple, list)):
        if kind[0] == "merge":
            return ["merge"]
        return [kind[0], _shape(kind[1])]
    return kind


_CLS_BY_NAME = {}


def cls_by_name(name):
    if not _CLS_BY_NAME:
        for c in model_classes():
            _CLS_BY_NAME[c.__name__] = c
            _CLS_BY_NAME["%s.%s" % (c.__module__, c.__name__)] = c
        # short names that occur twice (registry.GlobalOptions vs bgp GlobalOptions) resolve to the mesh class
    return _CLS_BY_NAME[name]


def spec(cls_name):
    """reference view of a class: field names from the class, merger kinds from the reference's own table"""
    c = cls_by_name(cls_name)
    return {f: _resolve(c.__name__, f) for f in c._field_mergers}


def _resolve(cls_name, field):
    k = ref.expected_kind(cls_name, field)
    if isinstance(k, tuple) and k[0] == "merge" and k[1] is None:
        return ("merge", "DirectPeerDTO")
    return k


# value encoding (JSON-able): NS | int | str | ["set", [...]] | ["tuple", [...]] | ["model", cls, {f: v}] | ["dict", {k: v}]
def to_real(v):
    if v == NS and isinstance(v, str):
        from annet.mesh.basemodel import Special
        return Special.NOT_SET
    if isinstance(v, list):
        tag = v[0]
        if tag == "set":
            return set(v[1])
        if tag == "tuple":
            return tuple(v[1])
        if tag == "model":
            c = cls_by_name(v[1])
            o = c.__new__(c)
            o.__dict__.update({f: to_real(x) for f, x in v[2].items()})
            return o
        if tag == "dict":
            return {k: to_real(x) for k, x in v[1].items()}
    return v


def to_ref(v):
    if isinstance(v, list):
        tag = v[0]
        if tag == "set":
            return frozenset(v[1])
        if tag == "tuple":
            return tuple(v[1])
        if tag == "model":
            return dict({f: to_ref(x) for f, x in v[2].items()}, __model__=v[1])
        if tag == "dict":
            return {k: to_ref(x) for k, x in v[1].items()}
    return v


def plain(v):
    """a real value -> the reference's plain form"""
    from annet.mesh.basemodel import BaseMeshModel, Special
    if v is Special.NOT_SET:
        return NS
    if isinstance(v, BaseMeshModel):
        return dict({f: plain(x) for f, x in vars(v).items()}, __model__=type(v).__name__)
    if isinstance(v, (set, frozenset)):
        return frozenset(v)
    if isinstance(v, dict):
        return {k: plain(x) for k, x in v.items()}
    if isinstance(v, list):
        return ["<list>"] + [plain(x) for x in v]
    return v


def nested_values(cls_name):
    """instances of a nested model over two of its fields: one single-valued, one with a declared merger if any"""
    sp = spec(cls_name)
    single = next(f for f, k in sp.items() if k == "forbid_change")
    other = next((f for f, k in sp.items() if k in ("unite", "concat")), None)
    if other is None:
        other = [f for f, k in sp.items() if k == "forbid_change"][1]
    second = {"unite": [["set", [X]], ["set", [Y]]], "concat": [["tuple", [X]], ["tuple", [Y]]],
              "forbid_change": [0, 1]}[sp[other]]
    out = []
    for a in (NS, 0, 1):
        for b in [NS] + second:
            fields = {}
            if a != NS:
                fields[single] = a
            if b != NS:
                fields[other] = b
            out.append(["model", cls_name, fields])
    return out


def domain(kind):
    if kind in ("forbid_change", "forbid", "use_first", "use_last") or (isinstance(kind, tuple) and kind[0] == "apply"):
        # None is a value like any other (Optional fields: lag, svi, subif, multihop ...): a handler that assigns None has
        # said something, unlike one that leaves the field alone (NOT_SET)
        # (not for ApplyFunc mergers: max / + are not defined on None)
        return [NS, 0, 1] if isinstance(kind, tuple) else [NS, None, 0, 1]
    if kind == "unite":
        return [NS] + [["set", list(s)] for s in ((), (X,), (Y,), (X, Y))]
    if kind == "concat":
        return [NS] + [["tuple", list(t)] for n in range(3) for t in itertools.product((X, Y), repeat=n)]
    if kind[0] == "merge":
        return [NS] + nested_values(kind[1])
    if kind[0] == "dict":
        if kind[1] in ("forbid", "forbid_change", "use_last", "use_first"):
            vals = [0, 1]
        elif kind[1] == "concat":
            vals = [["tuple", [X]], ["tuple", [Y]]]
        elif kind[1] == "unite":
            vals = [["set", [X]], ["set", [Y]]]
        else:
            nv = nested_values(kind[1][1])
            vals = [nv[3], nv[6], nv[1]]        # {single: 0}, {single: 1}, {other: first}
        out = [NS, ["dict", {}]]
        out += [["dict", {k: v}] for k in ("k1", "k2") for v in vals]
        out += [["dict", {"k1": v, "k2": w}] for v in vals for w in vals]
        return out
    raise AssertionError(kind)


def _merge_real(fn):
    from annet.mesh.basemodel import MergeForbiddenError
    try:
        return ("ok", plain(fn()))
    except MergeForbiddenError:
        return ("forbidden", None)
    except Exception as e:  # noqa
        return ("raises:" + type(e).__name__, str(e)[:200])


def _merge_ref(fn):
    try:
        return ("ok", fn())
    except ref.Undefined:
        return ("forbidden", None)


def check_field_triple(cls_name, fields, values):
    """fields: 1 or 2 field names of the class; values: three encoded instances-of-fields [[v..per field] x3]
    -> (violations, outcome label, mutated?)"""
    from annet.mesh.basemodel import merge
    c = cls_by_name(cls_name)
    short = c.__name__
    sp = spec(cls_name)
    out = []

    def enc(vals):
        return ["model", cls_name, {f: v for f, v in zip(fields, vals) if v != NS}]
    ea, eb, ec = enc(values[0]), enc(values[1]), enc(values[2])
    ra, rb, rc = to_ref(ea), to_ref(eb), to_ref(ec)
    for r in (ra, rb, rc):
        r["__model__"] = short
    spec_fn = lambda n: spec(n)  # noqa: E731
    kinds = "+".join(str(_shape(sp[f])) for f in fields)
    case = {"part": "B", "cls": cls_name, "fields": list(fields), "values": values}
    sigbase = {"merger": kinds}
    # pair law
    A, B = to_real(ea), to_real(eb)
    before = (plain(A), plain(B))
    got = _merge_real(lambda: merge(A, B))
    mutated = (plain(A), plain(B)) != before
    exp = _merge_ref(lambda: ref.ref_merge_model(ra, rb, spec_fn))
    if got != exp:
        out.append((dict(_blame(sigbase, sp, fields, got, exp), kind="merge-law", law="pair", impl=got[0], ref=exp[0]),
                    "%s: merge(%r, %r) = %r, reference %r" % (short, before[0], before[1], got, exp)))
    label = "%s:%s" % (kinds, got[0])
    # associativity + variadic form
    left = _merge_real(lambda: merge(merge(to_real(ea), to_real(eb)), to_real(ec)))
    right = _merge_real(lambda: merge(to_real(ea), merge(to_real(eb), to_real(ec))))
    var = _merge_real(lambda: merge(to_real(ea), to_real(eb), to_real(ec)))
    exp3 = _merge_ref(lambda: ref.ref_merge_model(ref.ref_merge_model(ra, rb, spec_fn), rc, spec_fn))
    if left != exp3:
        out.append((dict(_blame(sigbase, sp, fields, left, exp3), kind="merge-law", law="triple", impl=left[0], ref=exp3[0]),
                    "%s: merge(merge(a,b),c) = %r, reference %r for a=%r b=%r c=%r" % (short, left, exp3, ra, rb, rc)))
    if var != left:
        out.append((dict(sigbase, kind="merge-law", law="variadic"), "merge(a,b,c) = %r but merge(merge(a,b),c) = %r" % (var, left)))
    if left[0] == "ok" and right[0] == "ok":
        if left != right:
            out.append((dict(sigbase, kind="merge-law", law="associativity"),
                        "(a.b).c = %r, a.(b.c) = %r for a=%r b=%r c=%r" % (left[1], right[1], ra, rb, rc)))
        label += " assoc:both"
    elif left[0] != right[0]:
        label += " assoc:one-side-refused"
    return out, label, mutated, case


def _blame(sigbase, sp, fields, got, exp):
    """signature names the merger of the field that came out wrong (when both sides produced a model)"""
    if got[0] == "ok" and exp[0] == "ok" and isinstance(got[1], dict) and isinstance(exp[1], dict):
        bad = [f for f in fields if got[1].get(f, NS) != exp[1].get(f, NS)]
        if bad:
            return {"merger": str(_shape(sp[bad[0]]))}
        return {"merger": "<field nobody assigned>"}
    return dict(sigbase)


def check_merger_triple(kind, values):
    """a merger object called directly: kind is an encoded reference kind (lists for tuples)"""
    out = []
    m = build_merger(kind)
    rk = _kind_tuple(kind)
    a, b, c = values
    spec_fn = lambda n: spec(n)  # noqa: E731

    def call_real(x, y):
        return m("name", x, y)

    def ref_call(x, y):
        if rk[0] == "apply" if isinstance(rk, tuple) else False:
            if x == NS:
                return y
            if y == NS:
                return x
            return {"max": max, "add": lambda p, q: p + q}[rk[1]](x, y)
        return ref.ref_merge_value(rk, x, y, spec_fn)
    sig = {"kind": "merger-law", "merger": str(_shape(kind))}
    A, B = to_real(a), to_real(b)
    before = (plain(A), plain(B))
    got = _merge_real(lambda: call_real(A, B))
    mutated = (plain(A), plain(B)) != before
    exp = _merge_ref(lambda: _model_short(ref_call(_short(to_ref(a)), _short(to_ref(b)))))
    if got != exp:
        out.append((dict(sig, law="pair", impl=got[0], ref=exp[0]), "merger(%r, %r) = %r, reference %r" % (before[0], before[1], got, exp)))
    left = _merge_real(lambda: call_real(call_real(to_real(a), to_real(b)), to_real(c)))
    right = _merge_real(lambda: call_real(to_real(a), call_real(to_real(b), to_real(c))))
    label = "%s:%s" % (_shape(kind), got[0])
    if left[0] == "ok" and right[0] == "ok":
        if left != right:
            out.append((dict(sig, law="associativity"), "(a.b).c = %r, a.(b.c) = %r for %r %r %r" % (left[1], right[1], a, b, c)))
        label += " assoc:both"
    elif left[0] != right[0]:
        label += " assoc:one-side-refused"
    return out, label, mutated, {"part": "B", "cls": "<mergers>", "merger": kind, "values": values}


def _short(v):
    """reference values carry short class names"""
    if isinstance(v, dict):
        out = {k: _short(x) for k, x in v.items()}
        if "__model__" in v:
            out["__model__"] = cls_by_name(v["__model__"]).__name__
        return out
    return v


_model_short = _short


def _kind_tuple(kind):
    if isinstance(kind, list):
        return tuple(_kind_tuple(k) for k in kind)
    return kind


def build_merger(kind):
    from annet.mesh import basemodel as bm
    kind = _kind_tuple(kind)
    simple = {"forbid_change": bm.ForbidChange, "forbid": bm.Forbid, "unite": bm.Unite, "concat": bm.Concat,
              "use_first": bm.UseFirst, "use_last": bm.UseLast}
    if kind in simple:
        return simple[kind]()
    if kind[0] == "merge":
        return bm.Merge()
    if kind[0] == "dict":
        return bm.DictMerge() if kind[1] == "default" else bm.DictMerge(build_merger(kind[1]))
    if kind[0] == "apply":
        import operator
        return bm.ApplyFunc({"max": max, "add": operator.add}[kind[1]])
    raise AssertionError(kind)


MERGER_KINDS = ["forbid_change", "forbid", "use_first", "use_last", "unite", "concat", ["apply", "max"], ["apply", "add"],
                ["merge", "Aggregate"], ["merge", "MeshSession"],
                ["dict", "forbid"], ["dict", "forbid_change"], ["dict", "use_last"], ["dict", "concat"], ["dict", "unite"],
                ["dict", ["merge", "Aggregate"]], ["dict", ["merge", "MeshPeerGroup"]]]
KNOWN_MERGER_CLASSES = {"UseFirst", "UseLast", "Forbid", "ForbidChange", "Concat", "Unite", "Merge", "DictMerge", "ApplyFunc"}


def run_b(block, ctx):
    from annet.mesh import basemodel as bm
    if block["cls"] == "<mergers>":
        def walk(c):
            for s in c.__subclasses__():
                yield s
                yield from walk(s)
        for mc in walk(bm.Merger):
            if mc.__name__ not in KNOWN_MERGER_CLASSES:
                ctx.violation({"kind": "unknown-merger-class", "class": mc.__name__}, {"part": "B", "cls": "<mergers>"},
                              "a merger class the reference has no law for")
        default = bm.DictMerge()
        if describe_merger(default) != ("dict", "forbid"):
            ctx.violation({"kind": "declared-merger", "class": "DictMerge", "field": "<default value merger>"},
                          {"part": "B", "cls": "<mergers>"}, repr(describe_merger(default)))
        for kind in MERGER_KINDS:
            dom = domain(_kind_tuple(kind))
            for vals in itertools.product(dom, repeat=3):
                _account(ctx, *check_merger_triple(kind, list(vals)), vals=vals)
        return
    c = cls_by_name(block["cls"])
    short = c.__name__
    sp = spec(block["cls"])
    names = list(c._field_mergers)
    j, of = block.get("j", 0), block.get("of", 1)
    for f in names[j::of]:
        declared = describe_merger(c._field_mergers[f])
        if _shape(declared) != _shape(sp[f]):
            ctx.violation({"kind": "declared-merger", "class": short, "field": f, "declared": str(_shape(declared)),
                           "expected": str(_shape(sp[f]))}, {"part": "B", "cls": block["cls"], "fields": [f]},
                          "field %s.%s declares %r, the reference table says %r" % (short, f, declared, sp[f]))
            continue
        dom = domain(sp[f])
        for vals in itertools.product(dom, repeat=3):
            if ctx.expired():
                return
            _account(ctx, *check_field_triple(block["cls"], [f], [[v] for v in vals]), vals=vals)
    # two fields at once (neighbours in declaration order): fields do not influence each other
    for f, g in list(zip(names, names[1:] + names[:1]))[j::of]:
        if f == g:
            continue
        df, dg = domain(sp[f])[:1] + domain(sp[f])[-2:], domain(sp[g])[:1] + domain(sp[g])[-2:]
        inst = [[a, b] for a in df for b in dg]
        third = inst if ctx.tier == "thorough" else [[NS, NS]]
        for va, vb in itertools.product(inst, repeat=2):
            for vc in third:
                if ctx.expired():
                    return
                _account(ctx, *check_field_triple(block["cls"], [f, g], [va, vb, vc]), vals=(va, vb, vc), cross=True)


def _account(ctx, out, label, mutated, case, vals=(), cross=False):
    ctx.evals += 6
    ctx.states += 1
    flat = json.dumps(vals)
    if flat.count(NS) <= (1 if not cross else 3):
        ctx.nontrivial += 1
    ctx.outcomes["B " + label] += 1
    if mutated:
        ctx.extra["merge mutated an argument (recorded, not judged)"] += 1
    if len(ctx.samples) < 1 and "ok" in label and flat.count(NS) == 0:
        ctx.sample(case)
    for sig, detail in out:
        ctx.violation(sig, case, detail)


# ---------------------------------------------------------------------------------------------------
def replay(case):
    if case.get("part") == "A":
        out, _label, _nt, _evals, _c = check_case(case["topo"], case["rules"])
        return [(sig, detail) for sig, detail in out]
    if case.get("cls") == "<mergers>":
        if "merger" not in case:
            return []
        return check_merger_triple(case["merger"], case["values"])[0]
    if "values" not in case:
        c = cls_by_name(case["cls"])
        f = case["fields"][0]
        declared, want = describe_merger(c._field_mergers[f]), spec(case["cls"])[f]
        if _shape(declared) != _shape(want):
            return [({"kind": "declared-merger", "class": c.__name__, "field": f, "declared": str(_shape(declared)),
                      "expected": str(_shape(want))}, "declared %r expected %r" % (declared, want))]
        return []
    return check_field_triple(case["cls"], case["fields"], case["values"])[0]
