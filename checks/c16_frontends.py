"""C16 - file mode and device mode compute the same diff and the same patch (differential, bounded-exhaustive).

Both sides are annet code; there is no hand-written expectation:

    file front end    annet.api._read_old_new_diff_patch(old, new, hw, add_comments)      (diff, patch)
    device front end  annet.api._diff_and_patch(device, old, new, None, None, add_comments) (diff, patch)
    workers           annet.api.file_patch_worker / file_diff_worker on two files in a temporary directory, against the
                      device front end run on the trees parsed from the same two texts and formatted the same way

For one (hw, old, new): the ordered list of command paths, the diff entries (op, row, children - the rule-match dict is
ignored) and the outcome class (returned / raised <type>) must coincide.

Parts
  corpus   every (before, after) pair of /repo/tests/annet/test_patch, api level with add_comments False and True, plus
           the two workers on the pair's texts; all of it a second time with a copy of the shipped rulebook in which
           every rule carries a %comment (no shipped rule has one, so add_comments is unobservable otherwise)
  cross    per corpus vendor: every distinct configuration of the vendor as old against every other as new
  forest   per hardware model and per rule of the compiled shipped rulebook that carries a non-default patch logic or
           diff logic - and, for four model families with %if hw.<family> sections in the shipped texts (Huawei CE / NE /
           Quidway, Cisco ASR), per rule that only that family's rendering of the rulebook has: all label-annotated forests with <= N nodes over a small row universe synthesised from that rule
           line (two keys, three tails), two sibling rows of plain rules and two child rows, nested under rows
           synthesised for the whole rule path.  A node label says whether the row is in old only, new only or both.
"""
from __future__ import annotations

import collections
import contextlib
import copy
import functools
import itertools
import json
import os
import re
import sys
import tempfile
import traceback
import types

from mc import env
from mc.ref import regexgen

PID = "C16"
ENGINE = "E1 bounded-exhaustive differential: file front end vs device front end on the same (hw, old, new)"
RULE = ("corpus: one case per sample (re-run with add_comments on and with a comment-carrying rulebook); cross: one "
        "case per ordered pair of distinct configurations of one corpus vendor (configurations de-duplicated by content); forest: one case per (hardware model, custom-logic "
        "rule, label-annotated forest) - forests are canonical (siblings in universe order, each row at most once per "
        "level), so cases are distinct by construction. Non-trivial = at least one front end emits a command AND old and "
        "new share a row at the same path (so there is something for strip_unchanged to remove).")
ASSUMPTIONS = [
    "no ACL, no filter ACL, implicit defaults not merged in (the property's quantifier); same HardwareView object on both sides",
    "an exception of the same type raised by both front ends is an outcome; messages are not compared",
    "forest part: old and new keep common rows in the same relative order (the union forest fixes the order); "
    "reorderings are covered only by the corpus parts",
    "worker level: the device side is given the trees parsed from the very same texts with the vendor splitter, as a "
    "device front end would get them; tree->text for synthesised cases uses the vendor formatter's join()",
    "annet's own rule compiler and matcher are used to *generate* inputs (locate custom-logic rules, validate that a "
    "synthesised row hits the intended rule); they play no part in the verdict",
]
BUDGET = {"quick": 300, "thorough": 1500}   # measured: quick ~430 CPU-s, thorough ~3900 CPU-s (27 s / 4 min on 16 idle cores)

CORPUS_ROOT = os.environ.get("VERIF_CORPUS_ROOT", "/repo")
CORPUS_DIR = "annet/test_patch"
EXTRA_HW = ["asr", "huawei ce"]          # hardware labels of the corpus that env.HW_MODEL does not have
TAILS = ["", "10 11", "20 21 22"]
FOREST_N = {"quick": 4, "thorough": 5}
WORKER_FOREST_N = {"quick": 2, "thorough": 3}   # forest cases up to this size are also driven through the workers
FOREST_SPLIT = 4000                      # a universe with more cases than this is split into several blocks
CORPUS_BLOCKS = 16
CROSS_PAIRS_PER_BLOCK = 1500


def bound_text(tier):
    s = ("corpus: all (before,after) samples x add_comments in {0,1} x {shipped rulebook, same with %comment on every "
         "rule}, api + workers")
    if tier == "thorough":
        s += "; cross: all ordered pairs of distinct configurations per corpus vendor"
    s += ("; forest: all label-annotated forests with <= %d nodes per custom-logic rule, hardware models: %s "
          "(workers for <= %d nodes)" % (FOREST_N[tier], ", ".join(forest_labels(tier)), WORKER_FOREST_N[tier]))
    return s


# ---------------------------------------------------------------------------------------------------
# set-up, hardware, corpus
def setup():
    env.setup()
    corpus()
    for label in hw_labels():
        try:
            for idx in range(len(custom_rules(label))):
                universe(label, idx)
        except Exception:      # a rulebook that does not compile is reported by the block that needs it
            pass


def _tests():
    if CORPUS_ROOT not in sys.path:
        sys.path.append(CORPUS_ROOT)       # appended: never shadows the annet tree under test
    import tests
    from tests.annet import patch_data
    return tests, patch_data


# hardware families for which the shipped rulebook texts hold %if hw.<family> sections: label -> devdb sequence (the model
# string is taken from the devdb, validated by mc/hwmodels.py)
MODEL_LABELS = {
    "model:huawei-ce": ("Huawei", "CE", "CE6800", "CE6870"),
    "model:huawei-ne": ("Huawei", "NE", "NE40E"),
    "model:huawei-quidway": ("Huawei", "Quidway", "S5700"),
    "model:cisco-asr": ("Cisco", "ASR", "ASR9000"),
}


@functools.lru_cache(None)
def hw_of(label):
    """label: a vendor of env.ALL_VENDORS, a hardware label used by the corpus ('asr', 'huawei ce'), or a model label."""
    if label in MODEL_LABELS:
        from annet.annlib.netdev.views.hardware import HardwareView
        from mc import hwmodels
        model = next(m for s_, m in hwmodels.models() if s_ == MODEL_LABELS[label])
        return HardwareView(model, None)
    if label in env.HW_MODEL:
        return env.hw(label)
    tests, _ = _tests()
    return tests.make_hw_stub(label)


def hw_labels():
    return list(env.ALL_VENDORS) + EXTRA_HW


def forest_labels(tier):
    """thorough: every hardware label.  quick: the vendors of env.ALL_VENDORS, one per distinct compiled patching
    rulebook (h3c / optixtrans / iosxr get the very same compiled object as huawei / cisco and are left to thorough)."""
    if tier == "thorough":
        return hw_labels() + list(MODEL_LABELS)
    return _quick_labels() + list(MODEL_LABELS)


def _quick_labels():
    from annet import rulebook
    out, seen = [], set()
    for label in env.ALL_VENDORS:
        try:
            k = id(rulebook.get_rulebook(hw_of(label))["patching"])
        except Exception:  # noqa
            k = label
        if k not in seen:
            seen.add(k)
            out.append(label)
    return out


def formatter_of(hw, **kw):
    from annet.vendors import registry_connector
    return registry_connector.get().match(hw).make_formatter(**kw)


@functools.lru_cache(None)
def corpus():
    """[{name, label, old, new (nested lists), old_text, new_text (or None)}] for every loadable sample."""
    tests, patch_data = _tests()
    out = []
    for name, sample in patch_data.get_samples(CORPUS_DIR):
        label = sample.get("vendor", "huawei").lower()
        try:
            hw = hw_of(label)
            old, new, _patch = patch_data.get_configs(hw, sample)
        except Exception as e:  # noqa
            out.append({"name": name, "label": label, "error": repr(e)})
            continue
        ent = {"name": name, "label": label, "old": env.tree_to_list(old), "new": env.tree_to_list(new),
               "old_text": None, "new_text": None}
        if "before" in sample and "after" in sample:
            ent["old_text"], ent["new_text"] = sample["before"], sample["after"]
        out.append(ent)
    return out


@functools.lru_cache(None)
def vendor_configs():
    """label -> list of distinct configurations (nested lists), in corpus order"""
    out = collections.OrderedDict()
    seen = set()
    for s in corpus():
        if "error" in s:
            continue
        for t in (s["old"], s["new"]):
            k = (s["label"], json.dumps(t))
            if k in seen:
                continue
            seen.add(k)
            out.setdefault(s["label"], []).append(t)
    return out


# ---------------------------------------------------------------------------------------------------
# the two front ends, observed
def diff_entries(diff):
    return [[str(getattr(op, "value", op)), row, diff_entries(children)] for (op, row, children, _m) in diff]


def _path_json(p):
    if isinstance(p, (tuple, list)):
        return [str(x) for x in p]
    return [str(p)]


def patch_items(tree, _prefix=()):
    """[(path of rows, raw_rule)] in tree order; raw_rule is the second member of the sort key make_patch stores"""
    out = []
    for it in getattr(tree, "itms", []):
        sk = getattr(it, "sort_key", ())
        raw = sk[1] if isinstance(sk, (tuple, list)) and len(sk) > 1 else None
        path = _prefix + (str(it.row),)
        out.append((path, raw))
        if it.child is not None:
            out.extend(patch_items(it.child, path))
    return out


def _where(tb):
    frames = traceback.extract_tb(tb)
    pick = None
    for fr in frames:
        fn = fr.filename.replace("\\", "/")
        if "/rulebook/" in fn:
            pick = fn.split("/rulebook/", 1)[1][:-3].replace("/", ".") + "." + fr.name
    if pick is None and frames:
        fr = frames[-1]
        pick = os.path.basename(fr.filename)[:-3] + "." + fr.name
    return pick or "?"


def observe(fn, fmt):
    try:
        diff, patch = fn()
    except Exception as e:  # noqa - the outcome class is what is compared
        from mc import core
        if core.raised_in_harness(e):
            raise
        return {"st": "exc", "exc": type(e).__name__, "where": _where(e.__traceback__), "msg": str(e)[:200]}
    return {"st": "ok", "diff": diff_entries(diff), "cmds": [_path_json(p) for p in fmt.cmd_paths(patch)],
            "items": patch_items(patch)}


def file_side(hw, old, new, add_comments):
    from annet import api
    _rb, diff, _pre, patch = env.call_private(api, "_read_old_new_diff_patch", old, new, hw, add_comments)
    return diff, patch


def device_side(hw, old, new, add_comments):
    from annet import api
    dev = types.SimpleNamespace(hw=hw, hostname="dev", fqdn="dev.example", id=1)
    return env.diff_and_patch(dev, old, new, None, None, add_comments)


_PARAM = re.compile(r"\s%[a-zA-Z_]")


def rule_row(raw_rule):
    m = _PARAM.search(raw_rule)
    s = raw_rule[:m.start()] if m else raw_rule
    return re.sub(r"\s+", " ", s.strip())


def rule_logic(raw_rule):
    m = re.search(r"%logic=([A-Za-z0-9_.]+)", raw_rule or "")
    if m:
        return m.group(1)
    for flag in ("ordered", "rewrite", "multiline"):
        if re.search(r"\s%" + flag + r"\b", raw_rule or ""):
            return "%" + flag
    return None


def _diff_logic_name(raw_rule):
    m = re.search(r"%diff_logic=([A-Za-z0-9_.]+)", raw_rule or "")
    return "diff_logic:" + (m.group(1) if m else "?")


def _attribution(f_items, d_items):
    """which rule produced the first command present on one side only (multiset difference), and on which side"""
    cf, cd = collections.Counter(f_items), collections.Counter(d_items)
    only_f = [x for x in f_items if cf[x] > cd[x]]
    only_d = [x for x in d_items if cd[x] > cf[x]]
    if only_f and only_d:
        extra = "both"
    elif only_f:
        extra = "file"
    elif only_d:
        extra = "device"
    else:
        extra = "order"
        for a, b in zip(f_items, d_items):
            if a != b:
                only_f = [a]
                break
    first = (only_f or only_d or [((), None)])[0]
    return extra, first[1]


STRIP_FIRST = "strip_unchanged-before-make_pre"


def cause_of(hw, old_l, new_l, add_comments, f, d, fmt):
    """Labels a disagreement (never decides one): the harness composes the public steps itself, once stripping the
    unchanged entries before make_pre and once after.  If the first composition reproduces the file front end and the
    second the device front end, the order of these two steps is the whole difference."""
    from annet import api, patching, rulebook

    def composed(strip_first):
        rb = rulebook.get_rulebook(hw)
        diff = patching.make_diff(env.to_odict(old_l), env.to_odict(new_l), rb, [])
        if strip_first:
            diff = patching.strip_unchanged(diff)
        patch = api.patch_from_pre(patching.make_pre(diff), hw, rb, add_comments)
        return patching.strip_unchanged(diff), patch

    def same(x, y):
        if x["st"] != y["st"]:
            return False
        return x["exc"] == y["exc"] if x["st"] == "exc" else (x["cmds"] == y["cmds"] and x["diff"] == y["diff"])
    try:
        a, b = observe(lambda: composed(True), fmt), observe(lambda: composed(False), fmt)
        return STRIP_FIRST if same(a, f) and same(b, d) else "other"
    except Exception:  # noqa
        return "other"


def compare(hw, old_l, new_l, add_comments=False):
    """-> (violations [(sig, detail_fn)], info dict).  old_l / new_l are nested lists; fresh trees per side.
    detail_fn() renders the counterexample (old text, new text, both command lists); it is called for the first few
    cases of a signature only."""
    fmt = formatter_of(hw)
    f = observe(lambda: file_side(hw, env.to_odict(old_l), env.to_odict(new_l), add_comments), fmt)
    d = observe(lambda: device_side(hw, env.to_odict(old_l), env.to_odict(new_l), add_comments), fmt)
    viol = judge(hw, f, d, old_l, new_l, add_comments)
    if viol:
        cause = cause_of(hw, old_l, new_l, add_comments, f, d, fmt)
        for sig, _fn in viol:
            sig["cause"] = cause
    return viol, {"f": f, "d": d}


def _texts(hw, old_l, new_l):
    try:
        fmt = formatter_of(hw)
        return fmt.join(env.to_odict(old_l)), fmt.join(env.to_odict(new_l))
    except Exception:  # noqa
        return env.tree_text(old_l), env.tree_text(new_l)


def judge(hw, f, d, old_l, new_l, add_comments):
    viol = []
    vendor = hw.vendor

    def detail(head):
        ot, nt = _texts(hw, old_l, new_l)
        lines = [head, "hw=%r add_comments=%r" % (hw.model, add_comments), "--- old", ot, "--- new", nt]
        for name, o in (("file", f), ("device", d)):
            if o["st"] == "ok":
                lines.append("--- %s front end commands" % name)
                lines.extend("  " + " / ".join(c) for c in o["cmds"])
            else:
                lines.append("--- %s front end raised %s in %s: %s" % (name, o["exc"], o["where"], o["msg"]))
        return "\n".join(lines)

    def later(head):
        return lambda: detail(head)

    if f["st"] == "exc" and d["st"] == "exc":
        if f["exc"] != d["exc"]:
            viol.append(({"kind": "exception-type-differs", "vendor": vendor, "file": f["exc"], "device": d["exc"],
                          "where": f["where"]}, later("both front ends raise, different exception types")))
        return viol
    if f["st"] != d["st"]:
        side, o = ("file", f) if f["st"] == "exc" else ("device", d)
        viol.append(({"kind": "exception-one-side", "vendor": vendor, "side": side, "exc": o["exc"], "where": o["where"]},
                     later("only the %s front end raises" % side)))
        return viol
    if f["diff"] != d["diff"]:
        shape = "entries-differ"
        if len(f["diff"]) != len(d["diff"]):
            shape = "file-has-more-entries" if len(f["diff"]) > len(d["diff"]) else "device-has-more-entries"
        viol.append(({"kind": "diff-differs", "vendor": vendor, "shape": shape},
                     later("diff entries differ\nfile diff   = %s\ndevice diff = %s"
                           % (json.dumps(f["diff"])[:1500], json.dumps(d["diff"])[:1500]))))
    if f["cmds"] != d["cmds"]:
        extra, raw = _attribution(f["items"], d["items"])
        sig = {"kind": "patch-differs", "vendor": vendor, "extra": extra}
        lg = rule_logic(raw)
        if extra == "order":
            pass            # same commands, other order: the rule of the first displaced command is incidental
        elif lg:
            sig["logic"] = lg
        else:
            sig["rule"] = rule_row(raw) if raw else "?"
        viol.append((sig, later("patch command lists differ (commands present on one side only: %s; rule %r)"
                                % (extra, raw))))
    return viol


def shares_row(a, b):
    """old and new have a common row at a common path (syntactic: something may be UNCHANGED or AFFECTED)"""
    rows_b = {r: c for r, c in b}
    return any(r in rows_b for r, _c in a)


def classify(info, old_l, new_l):
    f, d = info["f"], info["d"]
    if f["st"] == "exc" and d["st"] == "exc":
        return "both-raise:%s" % f["exc"], False
    if f["st"] != d["st"]:
        return "one-raises", True
    has_cmds = bool(f["cmds"] or d["cmds"])
    shared = shares_row(old_l, new_l)
    if not has_cmds:
        return ("no-commands:identical-input" if old_l == new_l else "no-commands"), False
    if f["cmds"] != d["cmds"]:
        return "commands-differ", shared
    nblocks = sum(1 for c in d["cmds"] if len(c) > 1)
    lab = "equal:%s%s" % ("nested" if nblocks else "flat", "+common-rows" if shared else "")
    return lab, shared


# ---------------------------------------------------------------------------------------------------
# add_comments: no shipped rule carries %comment, so with the shipped texts the flag cannot change a single command.
# For the corpus the flag is therefore also exercised with a copy of the shipped rulebook in which every rule carries a
# comment, supplied through the module attribute annet.rulebook.get_rulebook (both front ends read it at call time).
COMMENT_WORD = "!!C16!!"
_commented = {}


def _add_comments(rules):
    for scope in ("local", "global"):
        for rule in rules[scope].values():
            if rule["type"] == "ignore":
                continue
            rule["attrs"]["comment"] = [COMMENT_WORD]
            if rule.get("children"):
                _add_comments(rule["children"])


@contextlib.contextmanager
def commented_rulebook():
    def patched(hw, real):
        if hw not in _commented:
            rb = dict(real(hw))
            rb["patching"] = copy.deepcopy(rb["patching"])
            _add_comments(rb["patching"])
            _commented[hw] = rb
        return _commented[hw]
    with env.rulebook_override(patched):
        yield


# ---------------------------------------------------------------------------------------------------
# worker level
class Scratch:
    def __init__(self):
        self.td = tempfile.TemporaryDirectory(prefix="c16-")
        self.old = os.path.join(self.td.name, "old.cfg")
        self.new = os.path.join(self.td.name, "new.cfg")

    def close(self):
        self.td.cleanup()


WORKER_INDENT = "   "        # not annet's default, so that a worker that ignores args.indent is seen


def workers(hw, old_text, new_text, add_comments, scratch, indent=WORKER_INDENT):
    """-> (violations, outcome label).  File workers on two files vs the device front end on the parsed trees."""
    from annet import api, cli_args, tabparser
    from annet import patching
    from annet import diff as ann_diff
    with open(scratch.old, "w") as fh:
        fh.write(old_text)
    with open(scratch.new, "w") as fh:
        fh.write(new_text)
    pargs = cli_args.FilePatchOptions(old=scratch.old, new=scratch.new, hw=hw, indent=indent, add_comments=add_comments)
    dargs = cli_args.FileDiffOptions(old=scratch.old, new=scratch.new, hw=hw, indent=indent, show_rules=False,
                                     no_color=True)

    def run(fn):
        try:
            return {"st": "ok", "out": fn()}
        except Exception as e:  # noqa
            from mc import core
            if core.raised_in_harness(e):
                raise
            return {"st": "exc", "exc": type(e).__name__, "where": _where(e.__traceback__), "msg": str(e)[:200]}

    def dev_trees():
        split = formatter_of(hw).split
        return (tabparser.parse_to_tree(text=old_text, splitter=split),
                tabparser.parse_to_tree(text=new_text, splitter=split))

    def dev_patch():
        old, new = dev_trees()
        _d, patch = device_side(hw, old, new, add_comments)
        text = env.call_private(api, "_format_patch_blocks", patch, hw, indent)
        return [["new.cfg", text, False]] if text else []

    def dev_diff():
        old, new = dev_trees()
        diff, _p = device_side(hw, old, new, False)
        text = "".join(ann_diff.gen_pre_as_diff(patching.make_pre(diff), False, indent, True))
        return [["new.cfg", text, False]] if text else []

    def file_patch():
        return [list(x) for x in api.file_patch_worker((scratch.old, scratch.new), pargs)]

    def file_diff():
        return [list(x) for x in api.file_diff_worker((scratch.old, scratch.new), dargs)]

    def _show(o):
        if o["st"] == "ok":
            return "\n".join("[%s]\n%s" % (x[0], x[1]) for x in o["out"]) or "<nothing>"
        return "raised %s in %s: %s" % (o["exc"], o["where"], o["msg"])

    def fresh_file_diff():
        """what file_diff_worker would print from a pre built afresh from the file front end's own diff"""
        old, new = dev_trees()
        diff, _p = file_side(hw, old, new, False)
        text = "".join(ann_diff.gen_pre_as_diff(patching.make_pre(diff), False, indent, True))
        return [["new.cfg", text, False]] if text else []

    viol = []
    labels = []
    for which, ff, df in (("file_patch_worker", file_patch, dev_patch), ("file_diff_worker", file_diff, dev_diff)):
        a, b = run(ff), run(df)
        if a["st"] == "exc" and b["st"] == "exc" and a["exc"] == b["exc"]:
            labels.append("both-raise")
            continue
        if a != b:
            sig = {"kind": "worker-differs", "worker": which, "vendor": hw.vendor,
                   "shape": "one-raises" if a["st"] != b["st"] else "text-differs"}
            if which == "file_diff_worker" and run(fresh_file_diff) == b:
                # label only: a pre rebuilt from the same diff prints like the device side, so the difference is that
                # the worker prints the pre object after make_patch's logic functions have worked on it
                sig = {"kind": "worker-differs", "worker": which, "shape": sig["shape"],
                       "cause": "prints-the-pre-that-make_patch-mutated"}
            viol.append((sig,
                         "%s vs device front end on the same texts, hw=%r add_comments=%r\n--- old\n%s\n--- new\n%s\n"
                         "--- worker\n%s\n--- device\n%s" % (which, hw.model, add_comments, old_text, new_text,
                                                             _show(a), _show(b))))
            labels.append("differ")
        else:
            labels.append("equal" if a["out"] else "equal-empty")
    return viol, "workers:" + "/".join(labels)


# ---------------------------------------------------------------------------------------------------
# forest part: universes from the compiled rulebook
def _is_custom(rule, default_diff):
    from annet.annlib.rulebook import common
    a = rule["attrs"]
    return a["logic"] is not common.default or a["diff_logic"] is not default_diff


@functools.lru_cache(None)
def custom_rules(label):
    """rules of the compiled patching rulebook of hw_of(label) with a non-default logic or diff logic:
    [{path: [raw_rule...], raw, scope}] in file order (depth first)."""
    from annet import rulebook
    from annet.rulebook.common import import_rulebook_function
    from annet.vendors import registry_connector
    hw = hw_of(label)
    rb = rulebook.get_rulebook(hw)
    default_diff = import_rulebook_function(registry_connector.get()[hw.vendor].diff(False))
    out = []
    generic = None
    if label in MODEL_LABELS:
        # for a model label: the rules its rulebook has and the rulebook of the vendor's generic hardware lacks (or has
        # under another path) - what %if hw.<family> sections add; the generic rendering is used as data only
        from annet.hardware import hardware_connector
        generic = set()

        def collect(rules, path):
            for scope in ("local", "global"):
                for raw, rule in rules[scope].items():
                    generic.add((path, raw))
                    if rule.get("children"):
                        collect(rule["children"], path + (raw,))
        collect(rulebook.get_rulebook(hardware_connector.get().vendor_to_hw(hw.vendor))["patching"], ())

    def walk(rules, path):
        for scope in ("local", "global"):
            for raw, rule in rules[scope].items():
                if rule["type"] == "ignore":
                    continue
                if (generic is None and _is_custom(rule, default_diff)) or (generic is not None and (path, raw) not in generic):
                    out.append({"path": list(path), "raw": raw, "scope": scope})
                if rule.get("children"):
                    walk(rule["children"], path + (raw,))
    walk(rb["patching"], ())
    return out


def _candidates(raw_rule, regexp):
    """strings that may match the rule line (validated by the caller); simplest first"""
    out = []
    row = rule_row(raw_rule)
    s = regexgen.synth_row(row)
    if s is not None:
        out.append(s[0])
        out.append(re.sub(r"\b([wt])(\d+)\b", r"\1\2b", s[0]))       # the same shape with other free words
    for g in regexgen.gen_variants(regexp.pattern, full=False, flags=regexp.flags & re.I, variants=8, picks=2):
        g = " ".join(g.split())
        if g:
            out.append(g)
    seen, uniq = set(), []
    for c in out:
        if c not in seen:
            seen.add(c)
            uniq.append(c)
    return uniq


def _hits(rules, row, raw_rule):
    """does `row` select rule `raw_rule` at this level of the real rulebook -> (key, children_rules) or None"""
    from annet.annlib import patching as lp
    match, children = env.call_private(lp, "_match_row_to_rules", row, rules)
    if match and match["raw_rule"] == raw_rule:
        return tuple(match["key"]), children
    return None


def _find_rule(rules, raw):
    return rules["local"].get(raw) or rules["global"].get(raw)


def _rows_for(rules, raw, want_keys=2):
    """validated rows for rule `raw` at this level: [(row, key)] bare rows for up to `want_keys` distinct keys"""
    rule = _find_rule(rules, raw)
    out, keys = [], set()
    for c in _candidates(raw, rule["attrs"]["regexp"]):
        h = _hits(rules, c, raw)
        if h is None or h[0] in keys:
            continue
        keys.add(h[0])
        out.append((c, h[0]))
        if len(out) >= want_keys:
            break
    return out


@functools.lru_cache(None)
def universe(label, idx, tails=None):
    """row universe for custom rule number idx of the rulebook of `label`; None if the rule path cannot be synthesised.
    {chain: [rows], top: [rows of the rule (<= 2 keys x 3 tails), then <= 2 plain sibling rows],
     rrows: the rows of the rule, child: [<= 2 child rows], logic: name}"""
    from annet import rulebook
    from annet.rulebook.common import import_rulebook_function
    from annet.vendors import registry_connector
    hw = hw_of(label)
    cr = custom_rules(label)[idx]
    rules = rulebook.get_rulebook(hw)["patching"]
    default_diff = import_rulebook_function(registry_connector.get()[hw.vendor].diff(False))
    chain = []
    for praw in cr["path"]:
        if _find_rule(rules, praw) is None:
            return None
        got = _rows_for(rules, praw, 1)
        if not got:
            return None
        chain.append(got[0][0])
        rules = _hits(rules, got[0][0], praw)[1]
    if _find_rule(rules, cr["raw"]) is None:
        return None
    bare = _rows_for(rules, cr["raw"], 2)
    if not bare:
        return None
    rrows = []
    for n, (row, _key) in enumerate(bare):
        for tail in ((tails or TAILS) if n == 0 else (tails or TAILS)[1:2]):        # first key: every tail; second key: one tail
            r = (row + " " + tail).strip()
            if r not in rrows and _hits(rules, r, cr["raw"]) is not None:
                rrows.append(r)
    if not rrows:
        return None
    neutral = []
    for scope in ("local", "global"):
        for raw, rule in rules[scope].items():
            if len(neutral) >= 2 or rule["type"] == "ignore" or _is_custom(rule, default_diff):
                continue
            got = _rows_for(rules, raw, 1)
            if got and got[0][0] not in rrows and got[0][0] not in neutral:
                neutral.append(got[0][0])
    child = []
    crules = _hits(rules, rrows[0], cr["raw"])[1]
    if crules and (crules["local"] or crules["global"]):
        for scope in ("local", "global"):
            for raw, rule in crules[scope].items():
                if len(child) >= 2 or rule["type"] == "ignore":
                    continue
                got = _rows_for(crules, raw, 1)
                if got and got[0][0] not in child:
                    child.append(got[0][0])
    own_children = bool(_find_rule(rules, cr["raw"]).get("children")
                        and (_find_rule(rules, cr["raw"])["children"]["local"]
                             or _find_rule(rules, cr["raw"])["children"]["global"]))
    return {"chain": chain, "top": rrows + neutral, "rrows": rrows, "child": child if own_children else [],
            "logic": rule_logic(cr["raw"]) or _diff_logic_name(cr["raw"]), "rule": rule_row(cr["raw"])}


def labelled_forests(top, rrows, child, max_nodes):
    """All label-annotated forests with 1..max_nodes nodes: a subset of `top` in universe order, every node labelled
    B (in old and new), O (old only) or N (new only); nodes that are rows of the rule (`rrows`) may carry a subset of
    `child` rows, labelled B/O/N under a B parent and like the parent otherwise.  Yields [(row, label, [(row,label)])]."""
    def child_sets(parent_label, budget):
        yield []
        labs = "BON" if parent_label == "B" else parent_label
        for k in range(1, min(budget, len(child)) + 1):
            for rows in itertools.combinations(child, k):
                for ls in itertools.product(labs, repeat=k):
                    yield list(zip(rows, ls))

    def rec(i, budget):
        if i == len(top):
            yield []
            return
        yield from rec(i + 1, budget)                      # row i absent
        if budget <= 0:
            return
        row = top[i]
        for lab in "BON":
            kids_iter = child_sets(lab, budget - 1) if (row in rrows and child) else [[]]
            for kids in kids_iter:
                for rest in rec(i + 1, budget - 1 - len(kids)):
                    yield [(row, lab, kids)] + rest

    for f in rec(0, max_nodes):
        if f:
            yield f


def forest_size(f):
    return sum(1 + len(k) for _r, _l, k in f)


def project(forest, side):
    """the old (side 'O') or new (side 'N') configuration of a labelled forest, nested lists"""
    out = []
    for row, lab, kids in forest:
        if lab in ("B", side):
            out.append([row, [[r, []] for r, l in kids if l in ("B", side)]])
    return out


def wrap(chain, level_rows):
    t = level_rows
    for row in reversed(chain):
        t = [[row, t]]
    return t


def forest_cases(u, max_nodes):
    """(old, new, size, shape) for every case of universe u.  With a non-empty chain, the chain itself is in both
    configurations, plus the two cases families 'whole chain only in old / only in new' for all-O / all-N forests."""
    chain = u["chain"]
    for f in labelled_forests(u["top"], set(u["rrows"]), u["child"], max_nodes):
        labs = {l for _r, l, k in f} | {l for _r, _l, k in f for _x, l in k}
        n = forest_size(f)
        yield wrap(chain, project(f, "O")), wrap(chain, project(f, "N")), n, "".join(sorted(labs))
        if chain and labs == {"O"}:
            yield wrap(chain, project(f, "O")), [], n, "chain-removed"
        if chain and labs == {"N"}:
            yield [], wrap(chain, project(f, "N")), n, "chain-added"


@functools.lru_cache(None)
def _count_shape(n_top, n_rrows, n_child, has_chain, max_nodes):
    top = ["r%d" % i for i in range(n_top)]
    u = {"chain": ["c"] if has_chain else [], "top": top, "rrows": top[:n_rrows],
         "child": ["k%d" % i for i in range(n_child)]}
    return sum(1 for _ in forest_cases(u, max_nodes))


def case_count(u, max_nodes):
    """number of cases of a universe; depends only on its shape (the rule's rows come first in `top`)"""
    if u is None:
        return 0
    return _count_shape(len(u["top"]), len(u["rrows"]), len(u["child"]), bool(u["chain"]), max_nodes)


# ---------------------------------------------------------------------------------------------------
# blocks
def blocks(tier, seed):
    bl = [{"part": "corpus", "i": i} for i in range(CORPUS_BLOCKS)]
    for label in forest_labels(tier):
        try:
            n = len(custom_rules(label))
        except Exception:  # noqa
            n = 1
        for idx in range(n):
            try:
                size = case_count(universe(label, idx), FOREST_N[tier])
            except Exception:  # noqa
                size = 0
            k = max(1, -(-size // FOREST_SPLIT))
            for part in range(k):
                bl.append({"part": "forest", "label": label, "idx": idx, "of": k, "p": part})
    if tier == "thorough":
        for label, cfgs in vendor_configs().items():
            n = len(cfgs)
            if n < 2:
                continue
            step = max(1, CROSS_PAIRS_PER_BLOCK // (n - 1))
            for lo in range(0, n, step):
                bl.append({"part": "cross", "label": label, "lo": lo, "hi": min(n, lo + step)})
    return bl


def run_block(block, ctx):
    scratch = Scratch()
    try:
        if block["part"] == "corpus":
            run_corpus(block, ctx, scratch)
        elif block["part"] == "cross":
            run_cross(block, ctx)
        else:
            run_forest(block, ctx, scratch)
    finally:
        scratch.close()


def report(ctx, sig, case, detail_fn):
    """ctx.violation keeps the first few cases per signature; render the detail text only for those"""
    seen = ctx.__dict__.setdefault("_c16_sigs", collections.Counter())
    k = json.dumps(sig, sort_keys=True)
    seen[k] += 1
    ctx.violation(sig, case, detail_fn() if seen[k] <= ctx.MAX_VIOL_PER_SIG else "")


def one_case(ctx, hw, label, old_l, new_l, add_comments, part, count_state=True, commented=False):
    viol, info = compare(hw, old_l, new_l, add_comments)
    ctx.evals += 2
    lab, nontrivial = classify(info, old_l, new_l)
    ctx.outcomes["%s:%s" % (part, lab)] += 1
    if count_state:
        ctx.states += 1
        if nontrivial:
            ctx.nontrivial += 1
    for sig, detail_fn in viol:
        case = {"level": "api", "hw": label, "old": old_l, "new": new_l, "add_comments": add_comments}
        if commented:
            case["comment_rulebook"] = True
        report(ctx, sig, case, detail_fn)
    return viol, info


def run_corpus(block, ctx, scratch):
    samples = corpus()[block["i"]::CORPUS_BLOCKS]
    for s in samples:
        if "error" in s:
            ctx.outcomes["corpus:sample-not-loadable"] += 1
            ctx.notes.append("sample %s not loadable: %s" % (s["name"], s["error"]))
            continue
        hw = hw_of(s["label"])
        for add_comments, commented in ((False, False), (True, False), (True, True), (False, True)):
            with (commented_rulebook() if commented else contextlib.nullcontext()):
                corpus_case(ctx, scratch, s, hw, add_comments, commented)


def corpus_case(ctx, scratch, s, hw, add_comments, commented):
    part = "corpus+comment-rulebook" if commented else "corpus"
    viol, info = one_case(ctx, hw, s["label"], s["old"], s["new"], add_comments, part,
                          count_state=not add_comments and not commented, commented=commented)
    if commented and info["d"]["st"] == "ok":
        has = any(COMMENT_WORD in w for c in info["d"]["cmds"] for w in c)
        ctx.outcomes["%s:device-commands-%s-comments" % (part, "with" if has else "without")] += 1
    if not add_comments and not commented and info["d"]["st"] == "ok" and len(ctx.samples) < 1:
        ctx.sample({"part": "corpus", "sample": s["name"], "hw": hw.model,
                    "commands": info["d"]["cmds"][:6], "diff_entries": len(info["d"]["diff"])})
    ot, nt = s["old_text"], s["new_text"]
    if ot is None:
        try:
            ot, nt = _texts(hw, s["old"], s["new"])
        except Exception:  # noqa
            return
    wv, wlab = workers(hw, ot, nt, add_comments, scratch)
    ctx.evals += 4
    ctx.outcomes[part + ":" + wlab] += 1
    if not viol:          # a worker disagreement with the same root cause is already reported at api level
        for sig, detail in wv:
            ctx.violation(sig, {"level": "worker", "hw": s["label"], "old_text": ot, "new_text": nt,
                                "add_comments": add_comments, "comment_rulebook": commented}, detail)
    if not viol and not wv and not add_comments and not commented:
        # the same two configurations saved as fragments: every line shifted to the right by the same amount (a section cut
        # out of a larger file), and with an empty first line on top of that - for both front ends it is the same configuration
        for how, f in (("shifted", lambda t: "".join(("  " + ln if ln.strip() else ln) for ln in t.splitlines(True))),
                       ("blank-first+shifted", lambda t: "\n" + "".join(("  " + ln if ln.strip() else ln) for ln in t.splitlines(True)))):
            ot2, nt2 = f(ot), f(nt)
            wv2, wlab2 = workers(hw, ot2, nt2, False, scratch)
            ctx.evals += 4
            ctx.outcomes["%s(%s):%s" % (part, how, wlab2)] += 1
            for sig, detail in wv2:
                ctx.violation(dict(sig, text=how), {"level": "worker", "hw": s["label"], "old_text": ot2, "new_text": nt2,
                                                    "add_comments": False, "comment_rulebook": False}, detail)


def run_cross(block, ctx):
    label = block["label"]
    cfgs = vendor_configs()[label]
    hw = hw_of(label)
    for i in range(block["lo"], block["hi"]):
        for j in range(len(cfgs)):
            if i == j:
                continue
            if ctx.expired():
                return
            one_case(ctx, hw, label, cfgs[i], cfgs[j], False, "cross")
    if block["lo"] == 0:
        ctx.sample({"part": "cross", "hw": hw.model, "configurations": len(cfgs), "pairs": len(cfgs) * (len(cfgs) - 1)})


def run_forest(block, ctx, scratch):
    label, idx = block["label"], block["idx"]
    hw = hw_of(label)
    try:
        u = universe(label, idx)
    except Exception as e:  # noqa
        ctx.outcomes["forest:universe-error"] += 1
        ctx.notes.append("universe %s/%d: %r" % (label, idx, e))
        return
    if u is None:
        ctx.outcomes["forest:rule-not-synthesisable"] += 1
        ctx.extra["forest_rules_not_synthesisable"] += 1
        try:
            ctx.notes.append("not synthesisable: %s: %s" % (label, custom_rules(label)[idx]["raw"]))
        except Exception:  # noqa
            pass
        return
    ctx.extra["forest_universes"] += 1
    ctx.extra["forest_universe_rows"] += len(u["top"]) + len(u["child"])
    n_max = FOREST_N[ctx.tier]
    n_workers = WORKER_FOREST_N[ctx.tier]
    first = True
    of, part = block.get("of", 1), block.get("p", 0)
    if part:
        ctx.extra["forest_universes"] -= 1
        ctx.extra["forest_universe_rows"] -= len(u["top"]) + len(u["child"])
    total = case_count(u, n_max)
    ctx.extra["forest_cases_expected"] += len(range(part, total, of))
    for num, (old_l, new_l, n, shape) in enumerate(forest_cases(u, n_max)):
        if num % of != part:
            continue
        if ctx.expired():
            return
        viol, info = one_case(ctx, hw, label, old_l, new_l, False, "forest")
        ctx.extra["forest_cases_n%d" % n] += 1
        ctx.extra["forest_cases_run"] += 1
        if n <= n_workers and not viol and info["f"]["st"] == "ok":
            try:
                ot, nt = _texts(hw, old_l, new_l)
            except Exception:  # noqa
                continue
            wv, wlab = workers(hw, ot, nt, False, scratch)
            ctx.evals += 4
            ctx.extra["forest_worker_cases"] += 1
            ctx.outcomes["forest:" + wlab] += 1
            for sig, detail in wv:
                ctx.violation(sig, {"level": "worker", "hw": label, "old_text": ot, "new_text": nt,
                                    "add_comments": False}, detail)
        if first and info["d"]["st"] == "ok" and info["d"]["cmds"]:
            first = False
            ctx.sample({"part": "forest", "hw": hw.model, "rule": u["rule"], "logic": u["logic"], "chain": u["chain"],
                        "universe": u["top"], "children": u["child"], "old": old_l, "new": new_l,
                        "commands": info["d"]["cmds"][:6]})


def finish(merged, tier):
    """completeness of the forest part: every case the shape count promises was executed (unless the budget cut in)"""
    exp, run = merged["extra"].get("forest_cases_expected", 0), merged["extra"].get("forest_cases_run", 0)
    if not merged["capped"] and exp != run:
        merged["viol"]["harness-incomplete"] = {
            "sig": {"kind": "harness-error", "where": "forest enumeration incomplete"}, "count": 1,
            "cases": [{"case": {"expected": exp, "run": run}, "detail": "expected %d forest cases, ran %d" % (exp, run)}]}


# ---------------------------------------------------------------------------------------------------
def replay(case):
    with (commented_rulebook() if case.get("comment_rulebook") else contextlib.nullcontext()):
        return _replay(case)


def _replay(case):
    hw = hw_of(case["hw"])
    if case.get("level") == "worker":
        scratch = Scratch()
        try:
            viol, _lab = workers(hw, case["old_text"], case["new_text"], case.get("add_comments", False), scratch)
        finally:
            scratch.close()
        return viol
    viol, _info = compare(hw, case["old"], case["new"], case.get("add_comments", False))
    return [(sig, fn()) for sig, fn in viol]
