"""C17 - implicit defaults never override explicit config and never cause commands alone.

Real code: annet.implicit.compile_rules / implicit.config, annet.annlib.lib.merge_dicts composed exactly as
annet/gen.py does (m = merge_dicts(t, implicit.config(t, rules))), and for part "pair" the shipped rulebook through
patching.make_diff / make_pre / annet.api.patch_from_pre (what annet.api._diff_and_patch runs).

Parts (every block is explored completely):
 classes  one case per hardware class: the rule text annet selects for the model (captured as *text*, before annet
          parses it) is parsed by the reference's own indentation parser and compared with the structure annet
          compiled (rows, '!' types, nesting); classes that must share a text do, classes that must not do not;
          every compiled rule regexp agrees with the reference word matcher on every universe row.
 tree     per class: ALL forests with <= N nodes over the row universe derived mechanically from the rule text
          (siblings in universe order: completion is defined on sets of rows), each judged by clauses 1-3 below.
 ordered  per class: all sibling orders (mc.enum.forests_n) of the forests with <= No nodes that part "tree" holds
          in sorted order only.
 pair     per class, shipped rulebook: pairs (t, u) of forests; old = t+implicit(t), new = u+implicit(u).
 gen      per class: the real annet.gen._old_new_per_device (add_implicit, --acl-safe, config="running") on a device text t
          and two generators - one without a safe ACL producing u1, one with a safe ACL producing u2 (all ACLs catch-all);
          the result's old / new / safe_new / safe_old must each be the reference completion of t / u1+u2 / u2 / t.

Clauses on one tree t (m as above):
 1 explicit-kept       t is a subtree of m (every explicit row, nesting intact); inputs are not mutated
 2 idempotence         implicit.config(m, rules) holds no row that m lacks
 3 default-iff         for every rule at every place where it applies (top level, or inside a block of m that the
                       parent rule's pattern matches): default row in m  <=>  the rule is not match-only and (no row of t
                       at that place matches the rule's pattern, or the row itself is in t);
   only-defaults-added every row of m that t lacks is the default row of a rule applying at that place
Clause on a pair:
 4 patch-default-alone no diff entry and no patch command (row, or its negation) for a default row that completion
                       added and that neither t nor u holds at that place. Each occurrence is labelled with its
                       situation: same-context (the place exists in old and new and neither side has a row matching
                       the rule's pattern), parent-one-side (the block exists only in old or only in new),
                       suppressed-one-side (t or u has a row matching the rule's pattern there).
 5 default-conflicts-with-explicit  where an explicit row and a default that neither t nor u holds are two values of one
                       setting - the explicit row differs from the default in its last word only ('mtu 9000' / 'mtu 1500'),
                       or annet's own rulebook puts both into one (rule, key) group of `pre` as two ADDED (two REMOVED)
                       rows - the patch must neither raise nor issue both commands (on the device the later one wins).
   patch-crash-with-implicit  diff/patch raises on (old, new) without such a conflict although it succeeds on (t, u).
"""
from __future__ import annotations

import types

from mc import env, hwmodels
from mc import enum as menum
from mc.ref import implicitref as R

PID = "C17"
ENGINE = ("E1 bounded-exhaustive enumeration of config forests per hardware class against a declarative reference of "
          "'completion with defaults' (own rule-text parser, own word matcher)")
RULE = ("tree/ordered: one case = (hardware class, forest t); forests over the class's row universe (every default row, "
        "one row per '!' pattern, a second row for the first '!' pattern that holds a default, and per depth: the first valued default with another value ('stp mode rstp'), the first "
        "default plus a word, the first default negated, a foreign row; rows only at the depth the rule text gives them, "
        "+1 for the foreign row), distinct by construction of the enumerators; "
        "non-trivial = some rule application is decided by an explicit row (a default suppressed by, or identical to, an "
        "explicit row, or a block of t matched by a pattern so that completion recursed into it). "
        "pair: one case = (class, t, u), t != u; non-trivial = the patch is non-empty")
ASSUMPTIONS = [
    "the rule text is taken from annet (implicit._implicit_tree with parse_text replaced by a recorder) as data; its meaning "
    "(indentation, '!', '#') is re-implemented in mc/ref/implicitref.py",
    "pattern semantics in the reference: word i of the row must completely match token i ('*' any word, '*/re/' and literal "
    "tokens with metacharacters are regexes for one word - Python re is trusted), trailing words are allowed, '~' needs >= 1 word",
    "'a line of the same kind' is what the implicit rule's own pattern matches (not what the patching rulebook keys together)",
    "hardware classes are represented by one validated model string each (mc/hwmodels.py, validated by re.search of the "
    "devdb chain); classes sharing a rule text are explored to a smaller bound after the first",
    "clause 4 is not judged for a default whose negation ('undo X' / 'no X' / X) is explicit in t or u at that place: the "
    "removal command of that explicit row legitimately equals the default's text (counted as outcome)",
    "negation word: 'undo' for Huawei, 'no' for the others",
    "clause 4 is judged where the claim's premise holds (the block exists in old and in new, no row matching the default's "
    "pattern on either side); a default inside a block that exists on one side only, or suppressed on one side by a matching "
    "row, is by construction on one side and is counted as outcome default-in-diff[parent-one-side|suppressed-one-side] "
    "(JUDGE_CONTEXT_DEPENDENT turns these into violations) - clause 5 still judges those places",
    "part pair explores configurations shaped as the rule text allows: a row has children only if a rule with children "
    "matches it, or it is the foreign row ('stp mode mstp' is never a block); part tree has no such restriction",
    "parts tree/ordered/pair replicate gen.py's three completion lines (merge_dicts(t, implicit.config(t, rules))); part gen "
    "executes annet.gen._old_new_per_device itself with a stub context (no storage, no fetcher: config='running' with the text "
    "in ctx.running; generators are PartialGenerator subclasses that yield a forest) and catch-all ACLs, so that ACL filtering "
    "is the identity and what is compared is the completion of old, new and safe_new; for an empty device text annet starts "
    "from the vendor's initial configuration, which is taken from annet (generators.run_partial_initial) as data",
]
BUDGET = {"quick": 150, "thorough": 1200}   # measured: ~300 / ~4000 core-seconds (20 s / 4-8 min on 16 cores)

# name, devdb sequence the model is taken from, tags, text group, negation word
CLASSES = [
    ("huawei-ce", ("Huawei", "CE", "CE6800", "CE6870"), [], "huawei-ce", "undo"),
    ("huawei-ne", ("Huawei", "NE", "NE40E"), [], "huawei-ne", "undo"),
    ("huawei-other", ("Huawei", "Quidway", "S5700"), [], "huawei-other", "undo"),
    ("arista", ("Arista", "A7260", "CX3"), [], "arista", "no"),
    ("nexus-n3432", ("Cisco", "Nexus", "N3x", "N3432"), [], "nexus-shut-a", "no"),
    ("nexus-n3x", ("Cisco", "Nexus", "N3x", "N3100"), [], "nexus-shut-b", "no"),
    ("nexus-other", ("Cisco", "Nexus", "N7x", "N7000"), [], "nexus-plain", "no"),
    ("cisco-c2900", ("Cisco", "Catalyst", "C2900", "C2960", "C2960X"), [], "catalyst-nomtu", "no"),
    ("cisco-catalyst-other", ("Cisco", "Catalyst", "C4900"), [], "catalyst-mtu", "no"),
    ("cisco-other", ("Cisco", "ASR", "ASR9000"), [], "cisco-mtu", "no"),
    # further members of the text groups above
    ("nexus-n9500-spine1", ("Cisco", "Nexus", "N9x", "N9500"), ["spine1"], "nexus-shut-a", "no"),
    ("nexus-n9316", ("Cisco", "Nexus", "N9x", "N9316"), [], "nexus-shut-a", "no"),
    ("nexus-n9364", ("Cisco", "Nexus", "N9x", "N9364"), [], "nexus-shut-a", "no"),
    ("nexus-n9500-notag", ("Cisco", "Nexus", "N9x", "N9500"), ["leaf"], "nexus-plain", "no"),
    ("cisco-c3500", ("Cisco", "Catalyst", "C3500"), [], "catalyst-nomtu", "no"),
    ("cisco-c3600", ("Cisco", "Catalyst", "C3600"), [], "catalyst-nomtu", "no"),
]
CLS = {c[0]: c for c in CLASSES}
# (wider group, narrower group with the same interface defaults, the narrower group's sibling on the other side of the MTU split)
COMPOSITION = [("cisco-mtu", "catalyst-mtu", "catalyst-nomtu")]


def expected_group(true, tags):
    """which default text a model gets, stated on the reference truth of the devdb sequences (mc.hwmodels.ref_true)"""
    def has(*seq):
        return tuple(seq) in true
    if has("Huawei"):
        return "huawei-ce" if has("Huawei", "CE") else "huawei-ne" if has("Huawei", "NE") else "huawei-other"
    if has("Arista"):
        return "arista"
    if has("Cisco", "Nexus"):
        if (has("Cisco", "Nexus", "N3x", "N3432") or (has("Cisco", "Nexus", "N9x", "N9500") and "spine1" in tags)
                or has("Cisco", "Nexus", "N9x", "N9316") or has("Cisco", "Nexus", "N9x", "N9364")):
            return "nexus-shut-a"
        return "nexus-shut-b" if has("Cisco", "Nexus", "N3x") else "nexus-plain"
    if has("Cisco"):
        small = any(has("Cisco", "Catalyst", x) for x in ("C2900", "C3500", "C3600"))
        if has("Cisco", "Catalyst"):
            return "catalyst-nomtu" if small else "catalyst-mtu"
        return "cisco-nomtu" if small else "cisco-mtu"
    return "none"


def reps():
    seen, out = set(), []
    for c in CLASSES:
        if c[3] not in seen:
            seen.add(c[3])
            out.append(c[0])
    return out


def tier_bounds(tier):
    # N: nodes for representatives (sorted siblings); NM: for further group members; NO: all sibling orders; pairs: (K_t, K_u)
    if tier == "quick":
        return {"N": 5, "NM": 3, "NO": 3, "pair_rep": [(2, 2)], "pair_member": [], "gen_rep": (1, 2, 1), "gen_member": (1, 1, 1)}
    return {"N": 6, "NM": 4, "NO": 4, "pair_rep": [(2, 2), (3, 2), (2, 3)], "pair_member": [(2, 2)], "gen_rep": (1, 2, 2),
            "gen_member": (1, 2, 1)}


def bound_text(tier):
    b = tier_bounds(tier)
    return ("%d hardware classes (10 distinct rule texts); per distinct text ALL forests <= %d nodes (sibling sets), further "
            "classes of a text <= %d nodes; all sibling orders of forests <= %d nodes; pairs: representatives %s nodes "
            "(t,u), further classes %s; gen: (device text, unsafe generator, safe generator) forests <= %s nodes for "
            "representatives, <= %s for further classes, each with the empty and one non-empty device text, plus the full cross "
            "product of forests <= 1 node; complete"
            % (len(CLASSES), b["N"], b["NM"], b["NO"], b["pair_rep"], b["pair_member"] or "none", b["gen_rep"], b["gen_member"]))


def setup():
    env.setup()
    for name in CLS:
        cls(name)


# ---------------------------------------------------------------------------------------------------
# class data (per process)
_cls_cache = {}


def model_for(seq):
    for s, m in hwmodels.models():
        if s == tuple(seq):
            return m
    raise KeyError(seq)


def capture_text(dev):
    """the default text annet holds for this device, as data: implicit._implicit_tree is run with the module's parse_text
    wrapped by a recorder (which still parses, so nothing that remembers a parse result is fed a fake one). If the text
    never passes through parse_text (it may be remembered from an earlier device), every cache of the module is cleared and
    the call repeated; as a last resort the text is re-rendered from the compiled rules (the structure comparison between
    text and compiled rules is then void and is noted as such)."""
    from annet import implicit
    got = []
    orig = implicit.parse_text

    def recorder(text):
        got.append(text)
        return orig(text)
    for attempt in (0, 1):
        implicit.parse_text = recorder
        try:
            env.call_private(implicit, "_implicit_tree", dev)
        finally:
            implicit.parse_text = orig
        if got:
            return got[0]
        for v in list(vars(implicit).values()):
            if callable(getattr(v, "cache_clear", None)):
                v.cache_clear()
    NOTES.append("the default text of %s could not be observed at implicit.parse_text; it was re-rendered from the compiled "
                 "rules (rule-structure is not judged for it)" % getattr(dev, "hostname", "?"))

    def render(dump, depth=0):
        out = []
        for row, ch in dump:
            out.append("    " * depth + row)
            out.extend(render(ch, depth + 1))
        return out
    return "\n".join(render(dump_annet_rules(implicit.compile_rules(dev))))


NOTES = []


def dump_annet_rules(rules):
    return [[("!" if rule["type"] == "ignore" else "") + row, dump_annet_rules(rule["children"])]
            for row, rule in rules.items()]


def cls(name):
    if name in _cls_cache:
        return _cls_cache[name]
    from annet import implicit
    from annet.annlib.netdev.views.hardware import HardwareView
    _, seq, tags, group, neg = CLS[name]
    model = model_for(seq)
    dev = types.SimpleNamespace(hw=HardwareView(model, ""), tags=list(tags), hostname="c17-" + name,
                                fqdn="c17-%s.example" % name, id=1, breed="", neighbours_ids=[])
    text = capture_text(dev)
    rules_ref = R.parse_rules(text)
    uni = R.universe(rules_ref, neg)
    d = {"name": name, "model": model, "tags": list(tags), "group": group, "neg": neg, "dev": dev, "text": text,
         "rules_ref": rules_ref, "uni": uni, "rules": implicit.compile_rules(dev),
         "rows": {lvl: [r for r, _ in rows] for lvl, rows in uni.items()},
         "kind": {(lvl, r): k for lvl, rows in uni.items() for r, k in rows}}
    d["rules_dump"] = dump_annet_rules(d["rules"])
    _cls_cache[name] = d
    return d


# ---------------------------------------------------------------------------------------------------
# enumeration: forests whose siblings are in universe order (sets of rows), rows by level
def sforests(rows, level, n, start=0):
    if n == 0:
        yield []
        return
    rs = rows.get(level)
    if not rs:
        return
    for i in range(start, len(rs)):
        yield from sforests_first(rows, level, n, i)


def sforests_first(rows, level, n, i, ks=None):
    rs = rows[level]
    for k in (ks or range(1, n + 1)):
        for ch in sforests(rows, level + 1, k - 1, 0):
            for rest in sforests(rows, level, n - k, i + 1):
                yield [[rs[i], ch]] + rest


def sforests_upto(rows, n):
    for k in range(0, n + 1):
        yield from sforests(rows, 1, k)


def count_sforests(rows, n):
    """number of forests sforests(rows, 1, n) yields, by an independent recurrence (no enumeration)"""
    import functools

    @functools.lru_cache(None)
    def f(level, n, start):
        if n == 0:
            return 1
        rs = rows.get(level)
        if not rs:
            return 0
        return sum(f(level + 1, k - 1, 0) * f(level, n - k, i + 1) for i in range(start, len(rs)) for k in range(1, n + 1))
    return f(1, n, 0)


def is_sorted(forest, rows, level=1):
    idx = [rows[level].index(r) for r, _ in forest]
    return idx == sorted(idx) and all(is_sorted(c, rows, level + 1) for _, c in forest)


def blocks(tier, seed):
    b = tier_bounds(tier)
    out = [{"part": "classes"}]
    rep = set(reps())
    for name in CLS:
        c = cls(name)
        nmax = b["N"] if name in rep else b["NM"]
        out.append({"part": "tree", "cls": name, "n": [0, 1, 2]})
        for n in range(3, nmax + 1):
            for i in range(len(c["rows"][1])):
                if n >= 6:
                    for k in range(1, n + 1):
                        out.append({"part": "tree", "cls": name, "n": [n], "first": i, "k": k})
                else:
                    out.append({"part": "tree", "cls": name, "n": [n], "first": i})
        if name in rep:
            for n in range(2, b["NO"] + 1):
                out.append({"part": "ordered", "cls": name, "n": n})
        for (kt, ku) in (b["pair_rep"] if name in rep else b["pair_member"]):
            nsl = 16 if kt >= 3 else 4
            for i in range(nsl):
                out.append({"part": "pair", "cls": name, "kt": kt, "ku": ku, "slice": i, "of": nsl})
        kt, k1, k2 = b["gen_rep"] if name in rep else b["gen_member"]
        nsl = 4 if name in rep else 1
        for i in range(nsl):
            out.append({"part": "gen", "cls": name, "kt": kt, "k1": k1, "k2": k2, "slice": i, "of": nsl, "few_t": 1})
        out.append({"part": "gen", "cls": name, "kt": 1, "k1": 1, "k2": 1, "slice": 0, "of": 1})
    # the cheap complete core first (classes, forests <= 2 nodes), then the heavy blocks in descending size (the
    # driver hands blocks out in list order)
    def weight(bl):
        if bl["part"] == "classes" or (bl["part"] == "tree" and max(bl["n"]) <= 2):
            return -10 ** 6
        if bl["part"] == "pair":
            return -100 * (bl["kt"] + bl["ku"])
        if bl["part"] == "gen":
            return -90 * (bl["kt"] + bl["k1"] + bl["k2"])
        return -max(bl["n"]) if bl["part"] == "tree" else 0
    out.sort(key=weight)
    return out


KEEP_ORDER = True


# ---------------------------------------------------------------------------------------------------
# part "tree": clauses 1-3 on one case
def rule_label(path):
    return " / ".join(path)


def place_kinds(c, place):
    return "/".join(c["kind"].get((i + 1, r), "?") for i, r in enumerate(place)) or "top"


def complete(c, t_list):
    """what annet/gen.py does: -> (t odict, m odict)"""
    from annet import implicit
    from annet.annlib.lib import merge_dicts
    t = env.to_odict(t_list)
    m = merge_dicts(t, implicit.config(t, c["rules"]))
    return t, m


def check_tree(c, t_list, v):
    """clauses 1-3; v(sig, case, detail). Returns (m_list, label, nontrivial)"""
    from annet import implicit
    name = c["name"]
    case = {"part": "tree", "cls": name, "t": t_list}
    t, m = complete(c, t_list)
    m_list = env.tree_to_list(m)
    if env.tree_to_list(t) != t_list:
        v({"kind": "input-mutated", "class": name, "by": "implicit.config/merge_dicts"}, case,
          "t after: %r" % (env.tree_to_list(t),))
    # 1
    for lost in R.subtree_missing(t_list, m_list):
        v({"kind": "explicit-kept", "class": name, "lost_row_kind": place_kinds(c, lost)}, case,
          "explicit row %r is not in m=%r" % (lost, m_list))
    # 3
    findings, st = R.judge(c["rules_ref"], t_list, m_list)
    for (clause, rpath, direction, place, origin) in findings:
        v({"kind": clause, "class": name, "rule": rule_label(rpath), "direction": direction, "parent": origin}, case,
          "at place %r: default %s; m=%r" % (list(place), direction, m_list))
    # 2
    again = implicit.config(m, c["rules"])
    if env.tree_to_list(m) != m_list:
        v({"kind": "input-mutated", "class": name, "by": "implicit.config(m)"}, case, "")
    for extra in R.subtree_missing(env.tree_to_list(again), m_list):
        v({"kind": "idempotence", "class": name, "second_pass_adds": rule_label(extra[-2:]) if len(extra) > 1 else extra[0],
           "depth": len(extra)}, case,
          "implicit.config(m) holds %r which m lacks; m=%r" % (list(extra), m_list))
    added = R.size(m_list) - R.size(t_list)
    label = "added=%d suppressed=%d explicit-default=%d blocks-entered=%d" % (
        added, st["suppressed"], st["explicit"], min(st["entered"], 3))
    return m_list, label, bool(st["suppressed"] or st["explicit"] or st["entered"])


def run_tree(block, ctx):
    c = cls(block["cls"])
    rows = c["rows"]
    for n in block["n"]:
        if "first" in block:
            gen = sforests_first(rows, 1, n, block["first"], [block["k"]] if "k" in block else None)
        else:
            gen = sforests(rows, 1, n)
        for t_list in gen:
            if ctx.expired():
                return
            _, label, nt = check_tree(c, t_list, ctx.violation)
            ctx.evals += 3
            ctx.states += 1
            ctx.nontrivial += nt
            ctx.outcomes[label] += 1
            ctx.extra["tree_cases"] += 1
            if nt and len(ctx.samples) < 1 and n >= 2:
                ctx.sample({"class": c["name"], "t": t_list, "m": env.tree_to_list(complete(c, t_list)[1])})
    rules_unchanged(c, ctx.violation, block)


def rules_unchanged(c, v, block):
    if dump_annet_rules(c["rules"]) != c["rules_dump"]:
        v({"kind": "rules-mutated", "class": c["name"]}, {"block": block}, "compiled rules changed while exploring")


def run_ordered(block, ctx):
    c = cls(block["cls"])
    rows = c["rows"]
    allrows = []
    for lvl in sorted(rows):
        for r in rows[lvl]:
            if r not in allrows:
                allrows.append(r)
    levels = {r: {lvl for lvl in rows if r in rows[lvl]} for r in allrows}

    def node_ok(row, level, is_leaf):
        return level in levels[row]
    for t_list in menum.forests_n(allrows, block["n"], max(rows), node_ok=node_ok):
        if ctx.expired():
            return
        if is_sorted(t_list, rows):
            continue            # part "tree" has it
        _, label, nt = check_tree(c, t_list, ctx.violation)
        ctx.evals += 3
        ctx.states += 1
        ctx.nontrivial += nt
        ctx.outcomes["ordered:" + label] += 1
        ctx.extra["unsorted_sibling_orders"] += 1
    rules_unchanged(c, ctx.violation, block)


# ---------------------------------------------------------------------------------------------------
# part "classes"
def check_class(name, v):
    """-> outcome label"""
    import re
    c = cls(name)
    case = {"part": "classes", "cls": name}
    true = hwmodels.ref_true(c["model"])
    if tuple(CLS[name][1]) not in true or expected_group(true, c["tags"]) != c["group"]:
        v({"kind": "harness-class-table", "class": name}, case, "model %r true=%r" % (c["model"], sorted(true)))
    if not c["rules_ref"]:
        v({"kind": "class-without-rules", "class": name}, case, "model %r gets an empty default text" % c["model"])
    ref_dump = [r.dump() for r in c["rules_ref"]]
    if ref_dump != c["rules_dump"]:
        v({"kind": "rule-structure", "class": name}, case, "reference parse %r\nannet compiled %r" % (ref_dump, c["rules_dump"]))
    for other in CLS:
        o = cls(other)
        same_text = o["text"] == c["text"]
        if same_text != (o["group"] == c["group"]):
            v({"kind": "class-text-grouping", "class": name, "other": other}, case,
              "texts %s but groups %s/%s" % ("equal" if same_text else "differ", c["group"], o["group"]))
    # how the default texts of related hardware classes relate (annet/implicit.py builds a text from independent parts: the
    # interface defaults, with or without the per-interface MTU, and what every Catalyst gets on top): a narrower class
    # that takes the same interface defaults has every rule of the wider one; what it has beyond them it has whatever
    # the MTU split says; and the two halves of the MTU split differ in 'mtu' rows only
    def paths(group):
        rep = next(n_ for n_ in CLS if CLS[n_][3] == group)
        out = set()

        def walk_(rs):
            for r in rs:
                out.add(r.path)
                walk_(r.children)
        walk_(cls(rep)["rules_ref"])
        return out
    for wide, narrow, sibling in COMPOSITION:
        if c["group"] != narrow:
            continue
        pw, pn, ps = paths(wide), paths(narrow), paths(sibling)
        if not pw <= pn:
            v({"kind": "class-text-composition", "law": "narrower class keeps the wider class's rules", "group": narrow}, case,
              "%s lacks %r of %s" % (narrow, sorted(pw - pn)[:4], wide))
        extra = pn - pw
        missing = sorted(p_ for p_ in extra if p_ not in ps)
        if missing:
            v({"kind": "class-text-composition", "law": "what the narrower class adds does not depend on the MTU split", "group": sibling}, case,
              "%s has %r beyond %s; %s lacks them" % (narrow, missing[:4], wide, sibling))
        strip = lambda ps_: {p_ for p_ in ps_ if p_[-1].split()[0] != "mtu"}   # noqa
        if strip(pn) != strip(ps):
            v({"kind": "class-text-composition", "law": "the halves of the MTU split differ in mtu rows only", "group": sibling}, case,
              "%s / %s differ in %r" % (narrow, sibling, sorted(strip(pn) ^ strip(ps))[:4]))
    # matcher calibration: compiled regexp vs the reference word matcher on every universe row
    n = 0

    def walk(ref_rules, annet_rules):
        nonlocal n
        for rr in ref_rules:
            ar = annet_rules.get(rr.row)
            if ar is None:
                continue
            for lvl, rws in c["rows"].items():
                for row in rws:
                    n += 1
                    got = ar["regexp"].match(row) is not None
                    exp = R.row_matches(rr.row, row)
                    if got != exp:
                        v({"kind": "pattern-match", "class": name, "rule": rule_label(rr.path)}, case,
                          "row %r: compiled regexp %r says %r, reference says %r" % (row, ar["regexp"].pattern, got, exp))
            walk(rr.children, ar["children"])
    walk(c["rules_ref"], c["rules"])
    # informational: patterns with a '*' glued to a word are regexes ('Vlan*' = 'Vla' + 'n'*), they do not match 'Vlan10'
    glued = 0
    for lvl, rl in R.rules_by_level(c["rules_ref"]).items():
        for r in rl:
            for tok in r.row.split():
                if "*" in tok and tok != "*" and not tok.startswith("*/") and re.fullmatch(r"[A-Za-z0-9?]+\*", tok):
                    probe = r.row.replace(tok, tok.replace("?", "").rstrip("*") + "10")
                    if not R.row_matches(r.row, probe):
                        glued += 1
    return "class:rules=%d matcher-probes=%d glued-star-patterns-not-matching-name+digits=%d" % (
        sum(len(x) for x in R.rules_by_level(c["rules_ref"]).values()), n, glued), glued


def run_classes(block, ctx):
    ctx.notes.extend(NOTES[:3])
    for name in CLS:
        label, glued = check_class(name, ctx.violation)
        ctx.evals += 2
        ctx.states += 1
        ctx.nontrivial += 1
        ctx.outcomes[label] += 1
        ctx.extra["glob_like_patterns_that_are_regexes"] += glued
        # reference self-test: the constructive reference satisfies the declarative one
        c = cls(name)
        for t_list in sforests_upto(c["rows"], 3):
            exp = R.expected_completion(c["rules_ref"], t_list)
            bad, _ = R.judge(c["rules_ref"], t_list, exp)
            if bad or R.subtree_missing(t_list, exp):
                ctx.violation({"kind": "harness-reference-inconsistent", "class": name}, {"part": "classes", "cls": name},
                              "t=%r expected=%r judge=%r" % (t_list, exp, bad))
            ctx.extra["reference_selftests"] += 1
    ctx.sample({"class": "huawei-ne", "model": cls("huawei-ne")["model"],
                "universe": {str(k): v for k, v in cls("huawei-ne")["uni"].items()}})


# ---------------------------------------------------------------------------------------------------
# part "pair": clause 4
def walk_patch(p, path=()):
    out = []
    for it in p.itms:
        row = str(it.row).strip()
        out.append((path, row))
        if it.child is not None:
            out.extend(walk_patch(it.child, path + (row,)))
    return out


def walk_diff(diff, path=()):
    out = []
    for (op, row, children, _m) in diff:
        out.append((path, row, op))
        out.extend(walk_diff(children, path + (row,)))
    return out


def diff_and_pre(c, old, new):
    from annet import patching, rulebook
    rb = rulebook.get_rulebook(c["dev"].hw)
    diff = patching.make_diff(old, new, rb, [])
    return patching.strip_unchanged(diff), patching.make_pre(diff)


def patch_of(c, pre):
    from annet import rulebook
    from annet.api import patch_from_pre
    hw = c["dev"].hw
    return patch_from_pre(pre, hw, rulebook.get_rulebook(hw), False)


def conflicts_in(pre, dabs, t_set, u_set, place=()):
    """Observed on annet's own `pre`: (rule, key) groups in which a default that neither t nor u holds stands next to an
    explicit row in the same ADDED (or REMOVED) list - annet treats the two as two values of one setting.
    -> [(place, op, default_row, explicit_row, raw_rule)]"""
    out = []
    for raw_rule, ent in pre.items():
        for _key, ops in ent["items"].items():
            for op, explicit_set in (("added", u_set), ("removed", t_set)):
                rows = [it["row"] for it in ops[op]]
                if len(rows) >= 2:
                    ds = [r for r in rows if (place, r) in dabs]
                    es = [r for r in rows if (place, r) in explicit_set]
                    if ds and es:
                        out.append((place, op, ds[0], es[0], raw_rule))
            for op in ops:
                for it in ops[op]:
                    if it["children"]:
                        out.extend(conflicts_in(it["children"], dabs, t_set, u_set, place + (it["row"],)))
    return out


def at(forest, place):
    """children list at a place, or None if the place does not exist"""
    cur = forest
    for r in place:
        d = R.fdict(cur)
        if r not in d:
            return None
        cur = d[r]
    return cur


def rules_at(rules, place):
    cur = list(rules)
    for r in place:
        cur = R.child_rules(cur, r)
    return cur


def walk_forest(f, path=()):
    for r, ch in f:
        yield path, r
        yield from walk_forest(ch, path + (r,))


# Clause 4 is a claim about defaults that completion puts on BOTH sides. Where the block exists on one side only, or
# a row matching the default's pattern is explicit on one side, the default is by construction on one side only and
# shows up in the diff (new block: "interface X / no shutdown"). These context-dependent occurrences are counted as
# outcomes; set to True to report them as violations (coarse signature: class + situation).
JUDGE_CONTEXT_DEPENDENT = False


def situation_of(c, place, d, t_list, u_list, old_l, new_l):
    """-> (situation, rule): negation-explicit | parent-one-side | suppressed-one-side | same-context"""
    t_rows = [r for r, _ in (at(t_list, place) or [])]
    u_rows = [r for r, _ in (at(u_list, place) or [])]
    rule = next((r for r in rules_at(c["rules_ref"], place) if not r.ignore and r.row == d), None)
    neg = R.negation(d, c["neg"])
    if neg in t_rows or neg in u_rows:
        return "negation-explicit", rule
    if at(old_l, place) is None or at(new_l, place) is None:
        return "parent-one-side", rule
    if any(R.row_matches(rule.row if rule else d, r) for r in t_rows + u_rows):
        return "suppressed-one-side", rule
    return "same-context", rule


def check_pair(c, t_list, u_list, v):
    """-> (label, nontrivial)"""
    name = c["name"]
    case = {"part": "pair", "cls": name, "t": t_list, "u": u_list}
    t, old = complete(c, t_list)
    u, new = complete(c, u_list)
    old_l, new_l = env.tree_to_list(old), env.tree_to_list(new)
    t_set, u_set = set(walk_forest(t_list)), set(walk_forest(u_list))
    dabs = {}   # (place, row): rows that completion added and that neither t nor u holds at that place
    for side in (old_l, new_l):
        for (place, row) in walk_forest(side):
            if (place, row) not in t_set and (place, row) not in u_set:
                dabs[(place, row)] = None
    exc = None
    # same head: a default next to an explicit row of u that differs from it in the value only
    conflicts = [(place, "added", d, h, "<same head>") for (place, d) in dabs
                 for h, _ in (at(u_list, place) or []) if R.same_head(h, d, c["neg"])]
    all_conflicts = list(conflicts)
    try:
        diff, pre = diff_and_pre(c, old, new)
        conflicts += [x for x in conflicts_in(pre, dabs, t_set, u_set) if x[:4] not in [y[:4] for y in conflicts]]
        # judged where the default is one-sided for no other reason than the block being new (or not at all one-sided)
        all_conflicts = list(conflicts)
        conflicts = [x for x in conflicts if situation_of(c, x[0], x[2], t_list, u_list, old_l, new_l)[0]
                     in ("same-context", "parent-one-side")]
        patch = patch_of(c, pre)
    except Exception as e:  # noqa
        exc = e
    if exc is not None:
        try:
            patch_of(c, diff_and_pre(c, t, u)[1])
        except Exception as e2:  # noqa
            return "raises-also-without-implicit:%s" % type(e2).__name__, False
        detail = ("%s: %s\nold=%r\nnew=%r\n(the same pair without completion gives a patch)"
                  % (type(exc).__name__, exc, old_l, new_l))
        # a crash belongs to the conflict whose two rows the exception names
        def named(xs):
            return [x for x in xs if repr(x[2]) in str(exc) and repr(x[3]) in str(exc)]
        judged, other = named(conflicts), named(all_conflicts)
        for (place, op, d, h, raw_rule) in judged[:1]:
            report_conflict(c, v, case, place, op, d, h, raw_rule, "raises " + type(exc).__name__, detail)
        if not judged and not other:
            v({"kind": "patch-crash-with-implicit", "class": name, "exception": type(exc).__name__}, case, detail)
        return "raises-only-with-implicit:%s[%s]" % (type(exc).__name__, "judged conflict" if judged else
                                                      "conflict via suppressing/negated row" if other else
                                                      "unattributed"), True
    cmds = walk_patch(patch)
    entries = [(p, r) for (p, r, op) in walk_diff(diff) if op in ("added", "removed", "moved")]
    fired = set()
    for (place, d) in dabs:
        neg = R.negation(d, c["neg"])
        in_patch = [(p, r) for (p, r) in cmds if p == place and r in (d, neg)]
        in_diff = [(p, r) for (p, r) in entries if p == place and r == d]
        if not in_patch and not in_diff:
            continue
        situation, rule = situation_of(c, place, d, t_list, u_list, old_l, new_l)
        fired.add(situation)
        if situation == "negation-explicit":
            continue
        detail = ("default %r at %r is in neither t nor u; diff entries %r; commands %r\nold=%r\nnew=%r\nall commands=%r"
                  % (d, list(place), in_diff, in_patch, old_l, new_l, cmds))
        if situation == "same-context":
            v({"kind": "patch-default-alone", "class": name, "situation": situation,
               "rule": rule_label(rule.path) if rule else d}, case, detail)
        elif JUDGE_CONTEXT_DEPENDENT:
            v({"kind": "patch-default-alone", "class": name, "situation": situation}, case, detail)
    # 5: conflicts that have an effect: the default's command is issued next to the explicit row's command
    effect = ""
    for (place, op, d, h, raw_rule) in conflicts:
        pos_d = [i for i, (p, r) in enumerate(cmds) if p == place and r == d]
        pos_h = [i for i, (p, r) in enumerate(cmds) if p == place and r == h]
        if pos_d and pos_h:
            effect = " default-beside-explicit"
            report_conflict(c, v, case, place, op, d, h, raw_rule,
                            "both commands, default last" if pos_d[-1] > pos_h[-1] else "both commands, explicit last",
                            "commands=%r\nold=%r\nnew=%r" % (cmds, old_l, new_l))
        elif not effect:
            effect = " conflict-without-effect"
    label = "patch:%s%s%s" % ("empty" if not cmds else "cmds=%d" % min(len(cmds), 4),
                              " default-in-diff[%s]" % ",".join(sorted(fired)) if fired else "", effect)
    return label, bool(cmds)


def report_conflict(c, v, case, place, op, d, h, raw_rule, effect, detail):
    rule = next((r for r in rules_at(c["rules_ref"], place) if not r.ignore and r.row == d), None)
    v({"kind": "default-conflicts-with-explicit", "class": c["name"], "rule": rule_label(rule.path) if rule else d}, case,
      "at %r the explicit %r and the default %r (held by neither t nor u) are both %s (same setting by: %s); %s\n%s"
      % (list(place), h, d, op, "same head" if raw_rule == "<same head>" else "annet's rulebook rule %r" % raw_rule, effect, detail))


def block_rows_only(c, forest, rules=None):
    """part "pair" keeps configurations whose shape the rule text allows: only a row that a rule with children matches
    (a block by the rule text) or the foreign row has children"""
    rules = c["rules_ref"] if rules is None else rules
    for r, ch in forest:
        sub = R.child_rules(rules, r)
        if ch and not sub and r != R.FOREIGN:
            return False
        if not block_rows_only(c, ch, sub):
            return False
    return True


def pair_forests(c, k):
    return [f for f in sforests_upto(c["rows"], k) if block_rows_only(c, f)]


def run_pair(block, ctx):
    c = cls(block["cls"])
    ts = pair_forests(c, block["kt"])
    us = pair_forests(c, block["ku"])
    if block["kt"] != block["ku"]:
        # the (2,2) pairs are in one of the two directions only
        if block["kt"] > block["ku"]:
            ts = [t for t in ts if R.size(t) == block["kt"]]
        else:
            us = [u for u in us if R.size(u) == block["ku"]]
    for t_list in ts[block["slice"]::block["of"]]:
        for u_list in us:
            if ctx.expired():
                return
            if t_list == u_list:
                continue
            label, nt = check_pair(c, t_list, u_list, ctx.violation)
            ctx.evals += 5
            ctx.states += 1
            ctx.nontrivial += nt
            ctx.outcomes[label] += 1
            ctx.extra["pairs"] += 1
            if (nt and len(ctx.samples) < 1 and block["slice"] == 0 and block["kt"] == block["ku"]
                    and "default-in-diff" not in label and R.size(u_list) >= 2 and R.size(t_list) >= 1):
                ctx.sample({"class": c["name"], "t": t_list, "u": u_list, "outcome": label})


# ---------------------------------------------------------------------------------------------------
# part "gen": the real _old_new_per_device
class _Storage:
    def flush_perf(self):
        return {}


class _Dev:
    def is_pc(self):
        return False

    def __hash__(self):
        return id(self)


_gen_classes = {}
CATCH_ALL = "\n        ~ %global\n    "


def gen_device(c):
    if "gen_dev" not in c:
        d = _Dev()
        d.__dict__.update(c["dev"].__dict__)
        d.storage = _Storage()
        d.hw = env.HwVendorCached(d.hw)
        c["gen_dev"] = d
    return c["gen_dev"]


def make_forest_gen(name, vendor, forest, safe):
    from annet.generators import PartialGenerator

    def run_nodes(self, nodes):
        for row, ch in nodes:
            if ch:
                with self.block(row):
                    yield from run_nodes(self, ch)
            else:
                yield row
    kls = _gen_classes.get(name)
    if kls is None:
        kls = _gen_classes[name] = type(name, (PartialGenerator,), {})
    g = kls(_Storage())
    setattr(g, "acl_" + vendor, lambda dev: CATCH_ALL)
    if safe:
        setattr(g, "acl_safe_" + vendor, lambda dev: CATCH_ALL)
    setattr(g, "run_" + vendor, lambda dev: run_nodes(g, forest))
    return g


def forest_text(forest, depth=0):
    out = []
    for row, ch in forest:
        out.append(" " * depth + row)
        out.extend(forest_text(ch, depth + 1))
    return out


def union_forest(a, b):
    out = [[r, list(c)] for r, c in a]
    idx = {r: i for i, (r, _) in enumerate(out)}
    for r, c in b:
        if r in idx:
            out[idx[r]][1] = union_forest(out[idx[r]][1], c)
        else:
            idx[r] = len(out)
            out.append([r, list(c)])
    return out


def as_set(forest_or_tree):
    if isinstance(forest_or_tree, list):
        return {r: as_set(c) for r, c in forest_or_tree}
    return {r: as_set(c) for r, c in forest_or_tree.items()}


def run_gen_real(c, t_list, u1, u2, no_new=False):
    from annet import gen as ann_gen
    dev = gen_device(c)
    vendor = dev.hw.vendor
    gens = [make_forest_gen("C17Unsafe", vendor, u1, False), make_forest_gen("C17Safe", vendor, u2, True)]
    args = types.SimpleNamespace(no_acl=False, acl_safe=True, no_acl_exclusive=True, profile=False,
                                 fail_on_empty_config=False, generators_context=None, filter_acl=None, filter_ifaces=None,
                                 filter_peers=None, filter_policies=None, required_packages_check=False)
    dg = ann_gen.DeviceGenerators(partial={dev: gens}, ref={dev: []})
    ctx = ann_gen.OldNewDeviceContext(
        config="running", args=args, downloaded_files={}, failed_files={}, running={dev: "\n".join(forest_text(t_list)) + "\n"},
        failed_running={}, no_new=no_new, stdin=None, add_annotations=False, add_implicit=True, do_files_download=False,
        gens=dg, fetched_packages={}, failed_packages={}, device_count=1, do_print_perf=False)
    r = env.call_private(ann_gen, "_old_new_per_device", ctx, dev, None)
    if r.err:
        raise r.err
    return r


def initial_forest(c):
    if "initial" not in c:
        from annet import generators
        c["initial"] = env.tree_to_list(generators.run_partial_initial(gen_device(c)).config_tree())
    return c["initial"]


def check_gen(c, t_list, u1, u2, v, no_new=False):
    case = {"part": "gen", "cls": c["name"], "t": t_list, "u1": u1, "u2": u2}
    if no_new:
        # `--clear`: the generators' output is discarded, the desired configuration is the empty one - completed like any other
        case["no_new"] = 1
    try:
        r = run_gen_real(c, t_list, u1, u2, no_new)
    except Exception as e:  # noqa
        from mc import core
        if core.raised_in_harness(e):
            raise           # the stub call does not fit this tree's private parameter lists: not decided, not a finding
        v({"kind": "gen-raises", "group": c["group"], "exc": type(e).__name__}, case, "%s: %s" % (type(e).__name__, e))
        return 0
    if not t_list:
        # an empty device text makes annet start from the vendor's initial configuration (generators.run_partial_initial)
        t_list = initial_forest(c)
    exp = {"old": R.expected_completion(c["rules_ref"], t_list),
           "new": R.expected_completion(c["rules_ref"], [] if no_new else union_forest(u1, u2)),
           "safe_new": R.expected_completion(c["rules_ref"], [] if no_new else u2),
           "safe_old": R.expected_completion(c["rules_ref"], t_list)}
    for what, e in exp.items():
        got = as_set(getattr(r, what))
        if got != as_set(e):
            extra = R.rows_not_in(env.tree_to_list(getattr(r, what)), e)
            missing = R.rows_not_in(e, env.tree_to_list(getattr(r, what)))
            v({"kind": "gen-completion-differs", "tree": what, "group": c["group"], "mode": "clear" if no_new else "gen",
               "effect": "rows added" if extra and not missing else "rows missing" if missing and not extra else "both"},
              case, "%s: annet=%r reference=%r" % (what, env.tree_to_list(getattr(r, what)), e))
    # non-trivial: the safe tree and the full tree are completed differently (a block of one is missing in the other)
    return int(as_set(exp["new"]) != as_set(exp["safe_new"]) and bool(u2))


def run_gen(block, ctx):
    c = cls(block["cls"])
    ts = [f for f in pair_forests(c, block["kt"])]
    if block.get("few_t"):
        # the device text and the generators meet only in the (catch-all) ACL: the large generator forests are crossed
        # with the empty text and one non-empty text, the full cross product is explored at the smaller bound
        ts = ts[:2]
    u1s = pair_forests(c, block["k1"])
    u2s = pair_forests(c, block["k2"])
    if block["slice"] == 0:
        # `annet ... --clear` (no_new): every device text against the empty desired configuration
        for t_list in pair_forests(c, block["kt"]):
            check_gen(c, t_list, u1s[-1], u2s[-1], ctx.violation, no_new=True)
            ctx.evals += 4
            ctx.states += 1
            ctx.outcomes["gen:clear"] += 1
            ctx.extra["gen_cases"] += 1
    for u1 in u1s[block["slice"]::block["of"]]:
        for u2 in u2s:
            for t_list in ts:
                if ctx.expired():
                    return
                nt = check_gen(c, t_list, u1, u2, ctx.violation)
                ctx.evals += 4
                ctx.states += 1
                ctx.nontrivial += nt
                ctx.outcomes["gen:" + ("safe-differs" if nt else "same-or-empty")] += 1
                ctx.extra["gen_cases"] += 1


def finish(merged, tier):
    """the sorted-sibling enumeration is complete: case count == independent recurrence"""
    if merged["capped"]:
        return
    b = tier_bounds(tier)
    rep = set(reps())
    exp = sum(count_sforests(cls(name)["rows"], n) for name in CLS
              for n in range(0, (b["N"] if name in rep else b["NM"]) + 1))
    got = merged["extra"].get("tree_cases", 0)
    merged["extra"]["tree_cases_expected_by_recurrence"] = exp
    if got != exp:
        sig = {"kind": "harness-enumeration-incomplete", "part": "tree"}
        merged["viol"]["enum"] = {"sig": sig, "count": 1, "cases": [{"case": {"part": "classes", "cls": "huawei-ne"},
                                                                     "detail": "enumerated %d, recurrence %d" % (got, exp)}]}


def run_block(block, ctx):
    {"classes": run_classes, "tree": run_tree, "ordered": run_ordered, "pair": run_pair, "gen": run_gen}[block["part"]](block, ctx)


def replay(case):
    out = []

    def v(sig, _case, detail=""):
        out.append((sig, detail))
    if "block" in case:
        import time
        from mc.core import Ctx
        ctx = Ctx(time.time() + 3600, "quick", 0)
        run_block(case["block"], ctx)
        return [(e["sig"], e["cases"][0]["detail"]) for e in ctx.result()["viol"].values()]
    if case["part"] == "classes":
        check_class(case["cls"], v)
    elif case["part"] == "tree":
        check_tree(cls(case["cls"]), case["t"], v)
    elif case["part"] == "gen":
        check_gen(cls(case["cls"]), case["t"], case["u1"], case["u2"], v, bool(case.get("no_new")))
    else:
        check_pair(cls(case["cls"]), case["t"], case["u"], v)
    return out
