"""C18 - every known hardware model resolves to one vendor and a loadable rulebook (finite, complete).

Cases: (model string, software string).  Models come from mc/hwmodels.py: for each of the sequences of devdb.json
a string on which every regex of the sequence's chain is found (validated with re.search, generator not
trusted), plus every registered vendor's canonical hardware string and two strings no sequence matches.

Per case, on HardwareView(model, soft):
 H  truth of ALL sequences of devdb.json (walked as attributes, bool()) equals the naive reference "every regex of
    the chain is found"; expected-false ones are False, never AttributeError; observed truth is prefix-closed; every
    abbreviated path (hw.Nexus.N9x, hw.PC.Mellanox ...) has the truth of the one sequence it abbreviates and
    ambiguous ones raise AttributeError;
 P  every hw.X.Y predicate written in a shipped rulebook text, in annet/implicit.py (and, reported with
    source=code, in any other .py of the package) evaluates without AttributeError and has the reference's value;
 V  the vendor is the registered one whose match() expression has the most dots among the matching ones, it is the
    only one at that depth, the same for all rotations and reversed rotations of the registration order and for
    all permutations of the matching vendors (fresh Registry objects), and registry.match(str), hw.vendor and
    hardware_connector agree;
 R  a fresh DefaultRulebookProvider loads patching/ordering/deploying: no exception, all functions callable, all
    regexes compiled; a second fresh provider after clearing the functools caches, a warm third one and the
    process-wide provider give structurally equal rulebooks; the rulebook does not depend on the software string.
"""
from __future__ import annotations

import collections
import functools
import importlib
import itertools
import os
import re
import types

from mc import env, hwmodels
from mc.core import canon, digest

PID = "C18"
ENGINE = "E1 exhaustive enumeration of the finite device database against a naive regex-chain reference"
RULE = ("one case = (model string, software string); models: for every sequence of devdb.json the strings synthesised "
        "by mc/hwmodels.py so that every regex of the sequence's chain is found (each validated by re.search), "
        "deduplicated by string, plus each registered vendor's canonical hardware string and two unmatched strings; "
        "distinct by construction; non-trivial = the reference makes a sequence of depth >= 2 true on the model "
        "(both polarities of descendants are exercised) and a registered vendor matches")
ASSUMPTIONS = [
    "devdb.json is read as data by the reference; a sequence is true iff re.search finds every regex of its chain (re is trusted)",
    "an abbreviated attribute path denotes the unique sequence with the same last name of which the rest is a contiguous run; "
    "this restates the documented short-name behaviour and is compared for every abbreviation that exists",
    "vendor match() expressions are read from the registered vendor objects as data; 'most specific' = most dots, as Registry.match documents",
    "registration orders explored: all rotations, all reversed rotations, all permutations of the matching vendors "
    "(front and back); non-matching vendors cannot enter Registry.match's candidate list",
    "software strings: '', a VRP, an EOS and a Cumulus string, and None - no shipped text branches on hw.soft (scanned), "
    "so the cross is there to show independence",
    "functools caches cleared between fresh providers: compile_*_text, compile_row_regexp, _make_reverse, import_rulebook_function",
]
BUDGET = {"quick": 90, "thorough": 900}
NB = 64

SOFTS_QUICK = [""]
SOFTS_THOROUGH = ["", "VRP (R) software, Version 8.180 (CE6870EI V200R005C10SPC800)", "EOS-4.27.0F",
                  "Cumulus Linux 5.4.0", None]
EXTRA_MODELS = ["", "Unknown X-1"]
NON_FAMILY = {"soft", "model", "vendor", "match", "dump"}


def bound_text(tier):
    if tier == "quick":
        return ("all %d sequences x (primary + concatenated model) + vendors' canonical hardware + 2 unmatched strings, "
                "soft ''; all sequences and all abbreviations evaluated on every model; complete" % len(hwmodels.sequences()))
    return ("all %d sequences x all synthesised model variants (every branch alternative / class member of every chain "
            "regex, 3 compositions) + canonical hardware + 2 unmatched strings, x 5 software strings; complete"
            % len(hwmodels.sequences()))


def setup():
    env.setup()
    hwmodels.models(level=1)
    predicates()


# ---------------------------------------------------------------------------------------------------
# the case list
_cases_cache = {}


def model_list(tier):
    """[(model, [target sequences as dotted strings])] deduplicated by model string, deterministic order"""
    if tier in _cases_cache:
        return _cases_cache[tier]
    by_model = collections.OrderedDict()
    for seq, m in hwmodels.models(level=1 if tier == "quick" else 2):
        by_model.setdefault(m, []).append(".".join(seq))
    from annet.vendors import registry_connector
    reg = registry_connector.get()
    for name in sorted(reg.vendors):
        m = reg.vendors[name].hardware.model
        by_model.setdefault(m, []).append("canonical:" + name)
    for m in EXTRA_MODELS:
        by_model.setdefault(m, []).append("unmatched")
    _cases_cache[tier] = list(by_model.items())
    return _cases_cache[tier]


def blocks(tier, seed):
    model_list(tier)   # built once in the parent; the forked workers inherit it
    return [{"i": i} for i in range(NB)]


# ---------------------------------------------------------------------------------------------------
# predicates written in the texts / code (collected by plain scanning)
_PRED = re.compile(r"\bhw\.([A-Za-z_][A-Za-z0-9_]*(?:\.[A-Za-z_][A-Za-z0-9_]*)*)")
_preds = None


def _py_chains(text):
    import ast
    try:
        tree = ast.parse(text)
    except SyntaxError:
        return []
    out = []
    for node in ast.walk(tree):
        if not isinstance(node, ast.Attribute):
            continue
        names = []
        cur = node
        while isinstance(cur, ast.Attribute):
            names.append(cur.attr)
            cur = cur.value
        if isinstance(cur, ast.Name):
            names.append(cur.id)
        names.reverse()
        if "hw" in names[:-1]:
            i = names.index("hw")
            if names[i + 1:]:
                out.append(".".join(names[i + 1:]))
    return out


def predicates():
    """{path tuple: source}; source 'texts' for rulebook texts and implicit.py, else 'code' (other .py of the package,
    first component capitalised - family names are, attributes and methods are not)"""
    global _preds
    if _preds is not None:
        return _preds
    import annet
    root = os.path.dirname(annet.__file__)
    out = {}
    tdir = os.path.join(root, "rulebook", "texts")
    files = [(os.path.join(tdir, f), "texts") for f in sorted(os.listdir(tdir))]
    files.append((os.path.join(root, "implicit.py"), "texts"))
    for dp, dn, fn in sorted(os.walk(root)):
        dn.sort()
        for f in sorted(fn):
            if f.endswith(".py") and os.path.join(dp, f) != os.path.join(root, "implicit.py"):
                files.append((os.path.join(dp, f), "code"))
    for path, src in files:
        try:
            text = open(path, encoding="utf-8").read()
        except OSError:
            continue
        if path.endswith(".py"):
            # Python sources: the attribute chains the CODE evaluates (hw.X.Y, device.hw.X.Y, self.hw.X), taken from the
            # syntax tree - a chain that is only written in a comment, a docstring or a message is not a predicate
            found = _py_chains(text)
        else:
            found = [m.group(1) for m in _PRED.finditer(text)]
        for chain in found:
            p = tuple(chain.split("."))
            while p and p[-1] in NON_FAMILY:   # hw.PC.soft does not exist, but hw.soft.startswith does
                p = p[:-1]
            if not p or p[0] in NON_FAMILY:
                continue
            if src == "code" and not p[0][:1].isupper():
                continue
            # trailing method/attribute of something else, e.g. hw.Huawei.CE.foo() - not present in the tree; keep as is
            out.setdefault(p, src)
    _preds = out
    return out


# ---------------------------------------------------------------------------------------------------
# H / P: hardware attributes
def observe(hw, path):
    """walk hw.a.b.c and take bool(); -> True / False / 'AttributeError' / other exception name"""
    try:
        o = hw
        for name in path:
            o = getattr(o, name)
        return bool(o)
    except AttributeError:
        return "AttributeError"
    except Exception as e:  # noqa
        return type(e).__name__


def check_hardware(hw, model, v, stats):
    true_ref = hwmodels.ref_true(model)
    seqs = hwmodels.sequences()
    observed = {}
    reported = False
    for seq in seqs:
        got = observe(hw, seq)
        stats["evals"] += 1
        observed[seq] = got
        exp = seq in true_ref
        if got is not exp and not reported:
            reported = True   # the first mismatch in file order identifies the case; the rest is in the detail
            bad = [".".join(s) for s in seqs if observe(hw, s) is not (s in true_ref)]
            v({"kind": "hw-truth", "family": seq[0], "depth": len(seq), "expected": exp, "got": got},
              "model %r: hw.%s is %r, reference (all chain regexes found) says %r; %d sequences differ: %s"
              % (model, ".".join(seq), got, exp, len(bad), ", ".join(bad[:12])))
    # prefix closure of what was observed (independent of the reference)
    broken = next(((seq, seq[:i]) for seq in seqs if observed[seq] is True
                   for i in range(1, len(seq)) if observed.get(seq[:i]) is not True), None)
    if broken:
        seq, anc = broken
        v({"kind": "hw-not-prefix-closed", "family": seq[0], "depth": len(seq), "ancestor_depth": len(anc)},
          "model %r: hw.%s is True but its ancestor hw.%s is %r" % (model, ".".join(seq), ".".join(anc), observed.get(anc)))
    # abbreviations (reported only when the full sequences were right: otherwise it is the same root cause again)
    for al in hwmodels.aliases():
        stats["evals"] += 1
        got = observe(hw, al)
        if hwmodels.walkable(al):
            exp = hwmodels.resolve(al) in true_ref
        else:
            exp = "AttributeError"
        if got is not exp and got != exp and not reported:
            src = hwmodels.sources(al)
            v({"kind": "hw-abbreviation", "family": src[0][0] if src else al[0], "names": len(al), "expected": exp, "got": got},
              "model %r: hw.%s is %r, expected %r (abbreviates %s)" % (model, ".".join(al), got, exp,
                                                                       [".".join(x) for x in src]))
            break
    # predicates used by texts / code (the first failing one per model and kind identifies the case)
    raised = wrong = False
    for p, src in sorted(predicates().items(), key=lambda kv: (kv[1] != "texts", kv[0])):
        stats["evals"] += 1
        got = observe(hw, p)
        if got not in (True, False):
            if not raised:
                raised = True
                v({"kind": "predicate-raises", "predicate": "hw." + ".".join(p), "source": src, "error": got},
                  "model %r: evaluating hw.%s raises %s" % (model, ".".join(p), got))
            continue
        if hwmodels.walkable(p) and not wrong:
            exp = hwmodels.resolve(p) in true_ref
            if got is not exp:
                wrong = True
                v({"kind": "predicate-value", "predicate": "hw." + ".".join(p), "source": src, "expected": exp, "got": got},
                  "model %r: hw.%s is %r, reference says %r" % (model, ".".join(p), got, exp))
    depth = max([len(s) for s in true_ref] or [0])
    return true_ref, depth


# ---------------------------------------------------------------------------------------------------
# V: vendor
_registries = {}


def registry_for(order):
    """a fresh Registry with the vendor classes registered in the given order (built once per order per process)"""
    from annet.vendors import registry_connector
    from annet.vendors.registry import Registry
    order = tuple(order)
    if order not in _registries:
        real = registry_connector.get()
        r = Registry()
        for name in order:
            r.register(type(real.vendors[name]))
        assert list(r.vendors) == list(order)
        _registries[order] = r
    return _registries[order]


def orders_for(names, matching):
    """rotations, reversed rotations, and every permutation of the matching vendors placed first and placed last"""
    names = list(names)
    out = []
    for k in range(len(names)):
        rot = names[k:] + names[:k]
        out.append(tuple(rot))
        out.append(tuple(reversed(rot)))
    others = [n for n in names if n not in matching]
    for perm in itertools.permutations(sorted(matching)):
        out.append(tuple(perm) + tuple(others))
        out.append(tuple(others) + tuple(perm))
        out.append(tuple(reversed(others)) + tuple(perm))
    seen = set()
    return [o for o in out if not (o in seen or seen.add(o))]


def vendor_name(x):
    from annet.vendors.registry import GENERIC_VENDOR
    if x is None:
        return None
    if x is GENERIC_VENDOR:
        return "<generic>"
    return getattr(x, "NAME", repr(x))


def check_vendor(hw, model, soft, true_ref, v, stats):
    """-> vendor name the real registry gives, or None for generic"""
    from annet.vendors import registry_connector
    from annet.hardware import hardware_connector
    from annet.annlib.netdev.views.hardware import HardwareView
    reg = registry_connector.get()
    names = list(reg.vendors)
    # reference: which declared expressions hold on this model
    matching = []   # (dots, vendor, expr)
    for name in names:
        for expr in reg.vendors[name].match():
            path = tuple(expr.split("."))
            if path and path[0] == "hw":
                path = path[1:]
            if not hwmodels.walkable(path):
                v({"kind": "vendor-match-expression-unresolvable", "vendor": name, "expr": expr},
                  "vendor %s declares match expression %r which denotes no unique sequence of devdb.json" % (name, expr))
                continue
            if hwmodels.resolve(path) in true_ref:
                matching.append((expr.count("."), name, expr))
    try:
        got = vendor_name(reg.match(hw))
        stats["evals"] += 1
    except Exception as e:  # noqa
        v({"kind": "vendor-match-raises", "error": type(e).__name__}, "model %r: registry.match raised %r" % (model, e))
        return None
    if not matching:
        others = {"match(hw)": got, "match(hw, None)": vendor_name(reg.match(hw, None)), "hw.vendor": hw.vendor,
                  "match(str)": vendor_name(reg.match(model))}
        if others != {"match(hw)": "<generic>", "match(hw, None)": None, "hw.vendor": None, "match(str)": "<generic>"}:
            v({"kind": "vendor-for-unmatched-model", "got": canon(others)},
              "model %r matches no vendor expression, expected the generic vendor / None: %r" % (model, others))
        return None
    top = max(d for d, _, _ in matching)
    winners = sorted({n for d, n, _ in matching if d == top})
    mset = sorted({n for _, n, _ in matching})
    results = collections.OrderedDict()
    for order in orders_for(names, mset):
        r = registry_for(order)
        stats["evals"] += 1
        stats["orders"] += 1
        try:
            res = vendor_name(r.match(HardwareView(model, soft)))
        except Exception as e:  # noqa
            res = "raises:" + type(e).__name__
        results.setdefault(res, order)
    dependent = len(results) > 1
    exprs = {n: [e for _, nn, e in matching if nn == n] for n in mset}
    if len(winners) > 1:
        v({"kind": "vendor-tie", "vendors": winners, "depth": top, "order_dependent": dependent},
          "model %r: vendors %s all match at the greatest depth %d (%r), so there is no most specific one; the "
          "shipped registry answers %r; over registration orders the answers are %s"
          % (model, winners, top, exprs, got,
             "; ".join("%s with order %s" % (k, list(o[:6]) + ["..."]) for k, o in results.items())))
    else:
        if got != winners[0]:
            v({"kind": "vendor-not-most-specific", "expected": winners[0], "got": got},
              "model %r: matching expressions %r; most dotted is %s, registry.match gives %s" % (model, exprs, winners[0], got))
        if dependent:
            v({"kind": "vendor-order-dependent", "expected": winners[0], "answers": sorted(map(str, results))},
              "model %r: matching expressions %r; answers by registration order: %s"
              % (model, exprs, "; ".join("%s with order %s" % (k, list(o)) for k, o in results.items())))
        elif list(results) != [got]:
            v({"kind": "vendor-fresh-registry-differs", "shipped": got, "fresh": sorted(map(str, results))},
              "model %r: the shipped registry answers %r, registries built from the same vendor classes answer %r"
              % (model, got, list(results)))
    # the other public ways to ask must agree with registry.match(hw)
    others = {"match(str)": vendor_name(reg.match(model)), "match(hw, None)": vendor_name(reg.match(hw, None)),
              "hw.vendor": hw.vendor, "hw_to_vendor": hardware_connector.get().hw_to_vendor(hw)}
    stats["evals"] += 4
    bad = {k: x for k, x in others.items() if x != got}
    if bad:
        v({"kind": "vendor-entry-points-disagree", "which": sorted(bad)},
          "model %r: registry.match(hw) gives %r but %r" % (model, got, bad))
    return got


# ---------------------------------------------------------------------------------------------------
# R: rulebooks
def fingerprint(o, _depth=0):
    """JSON-able structural image: functions by qualified name, patterns by (pattern, flags), OrderedDict in order,
    plain dict/set sorted, objects by class name and attributes"""
    if o is None or isinstance(o, (str, bool, int, float)):
        return o
    if isinstance(o, re.Pattern):
        return ["re", o.pattern, o.flags]
    if isinstance(o, (types.FunctionType, types.BuiltinFunctionType, types.MethodType)):
        s = getattr(o, "__self__", None)
        if s is not None and not isinstance(s, types.ModuleType):
            return ["method", o.__name__, fingerprint(s, _depth + 1)]
        return ["fn", getattr(o, "__module__", None), o.__qualname__]
    if isinstance(o, collections.OrderedDict):
        return ["odict", [[fingerprint(k, _depth + 1), fingerprint(x, _depth + 1)] for k, x in o.items()]]
    if isinstance(o, dict):
        return ["dict", sorted(([fingerprint(k, _depth + 1), fingerprint(x, _depth + 1)] for k, x in o.items()), key=canon)]
    if isinstance(o, tuple) and hasattr(o, "_fields"):
        return ["nt", type(o).__name__, [fingerprint(x, _depth + 1) for x in o]]
    if isinstance(o, (list, tuple)):
        return [type(o).__name__, [fingerprint(x, _depth + 1) for x in o]]
    if isinstance(o, (set, frozenset)):
        return ["set", sorted((fingerprint(x, _depth + 1) for x in o), key=canon)]
    if isinstance(o, functools.partial):
        return ["partial", fingerprint(o.func, _depth + 1), fingerprint(o.args, _depth + 1), fingerprint(o.keywords, _depth + 1)]
    if hasattr(o, "__dict__") and _depth < 200:
        return ["obj", type(o).__module__ + "." + type(o).__qualname__, fingerprint(dict(vars(o)), _depth + 1)]
    return ["opaque", type(o).__module__ + "." + type(o).__qualname__]


def first_diff(a, b, path="rulebook"):
    if type(a) is not type(b):
        return "%s: %s vs %s" % (path, str(a)[:120], str(b)[:120])
    if isinstance(a, list):
        if len(a) != len(b):
            return "%s: length %d vs %d" % (path, len(a), len(b))
        for i, (x, y) in enumerate(zip(a, b)):
            if x != y:
                label = str(i)
                if isinstance(x, list) and len(x) == 2 and isinstance(x[0], str):
                    label = repr(x[0])[:60]
                return first_diff(x, y, path + "/" + label)
        return None
    return None if a == b else "%s: %r vs %r" % (path, str(a)[:120], str(b)[:120])


def walk_rulebook(o, stats, problems, path="rulebook"):
    """every value under a key naming a function is callable, every regexp is a compiled pattern that recompiles"""
    if isinstance(o, dict):
        for k, x in o.items():
            if isinstance(k, str) and k in ("logic", "diff_logic", "apply_logic"):
                stats["functions"] += 1
                if not callable(x):
                    problems.append("%s/%s is not callable: %r" % (path, k, x))
            elif isinstance(k, str) and k in ("regexp", "direct_regexp", "reverse_regexp"):
                stats["patterns"] += 1
                if not isinstance(x, re.Pattern):
                    problems.append("%s/%s is not a compiled pattern: %r" % (path, k, x))
                else:
                    try:
                        re.compile(x.pattern, x.flags)
                    except re.error as e:
                        problems.append("%s/%s does not recompile: %r" % (path, k, e))
            else:
                walk_rulebook(x, stats, problems, path + "/" + str(k)[:40])
    elif isinstance(o, (list, tuple)):
        for x in o:
            walk_rulebook(x, stats, problems, path)


_LOGIC = re.compile(r"%(logic|diff_logic|apply_logic)\s*=\s*([A-Za-z_][A-Za-z0-9_.]*)")


def named_logic(provider):
    """names after %logic= / %diff_logic= / %apply_logic= in what the provider rendered for this hardware"""
    out = []
    items = [((k[0] if isinstance(k, tuple) else str(k)), text) for k, text in provider._render_rul_cache.items()]
    for name, text in sorted(items):
        for m in _LOGIC.finditer(text):
            out.append((name, m.group(1), m.group(2)))
    return out


def ref_import(name):
    """the function a rulebook text means by 'huawei.misc.undo_redo': annet.rulebook.huawei.misc : undo_redo"""
    mod, _, fn = name.rpartition(".")
    m = importlib.import_module("annet.rulebook." + mod)
    return getattr(m, fn)


def clear_caches():
    from annet.rulebook import patching, deploying, common
    from annet.annlib.rbparser import ordering, syntax
    for f in (patching.compile_patching_text, patching._make_reverse, deploying.compile_deploying_text,
              ordering.compile_ordering_text, syntax.compile_row_regexp, common.import_rulebook_function):
        if hasattr(f, "cache_clear"):
            f.cache_clear()


def load(model, soft, fresh_caches):
    """-> (rulebook, provider) from a fresh provider and a fresh HardwareView"""
    from annet.rulebook import DefaultRulebookProvider
    from annet.annlib.netdev.views.hardware import HardwareView
    if fresh_caches:
        clear_caches()
    p = DefaultRulebookProvider()
    return p.get_rulebook(HardwareView(model, soft)), p


def check_rulebook(model, soft, vendor, v, stats):
    import annet.rulebook
    from annet.annlib.netdev.views.hardware import HardwareView
    try:
        rb1, p1 = load(model, soft, True)
        stats["evals"] += 1
    except Exception as e:  # noqa
        msg = "%s: %s" % (type(e).__name__, str(e)[:160])
        v({"kind": "rulebook-load", "vendor": vendor, "error": msg},
          "model %r soft %r: get_rulebook on a fresh DefaultRulebookProvider raised %s" % (model, soft, msg))
        return "load-error"
    if sorted(rb1) != ["deploying", "ordering", "patching"]:
        v({"kind": "rulebook-shape", "vendor": vendor}, "keys %r" % sorted(rb1))
    problems = []
    walk_rulebook(rb1, stats, problems)
    for name, kind, fn in named_logic(p1):
        stats["logic_names"] += 1
        try:
            f = ref_import(fn)
            if not callable(f):
                raise TypeError("not callable")
        except Exception as e:  # noqa
            problems.append("%s: %%%s=%s does not resolve: %r" % (name, kind, fn, e))
    if problems:
        v({"kind": "rulebook-content", "vendor": vendor, "what": problems[0][:120]},
          "model %r soft %r: %s" % (model, soft, "; ".join(problems[:5])))
    fp1 = fingerprint(rb1)
    d1 = digest(fp1)
    names = ["second fresh provider, caches cleared", "third fresh provider, caches warm", "process-wide provider"]
    loaders = [lambda: load(model, soft, True)[0], lambda: load(model, soft, False)[0],
               lambda: annet.rulebook.get_rulebook(HardwareView(model, soft))]
    for what, ld in zip(names, loaders):
        try:
            rb = ld()
            stats["evals"] += 1
        except Exception as e:  # noqa
            v({"kind": "rulebook-load", "vendor": vendor, "error": "%s (%s)" % (type(e).__name__, what)},
              "model %r soft %r: %s raised %r" % (model, soft, what, e))
            continue
        fp = fingerprint(rb)
        if digest(fp) != d1:
            v({"kind": "rulebook-nondeterministic", "vendor": vendor, "against": what},
              "model %r soft %r: first difference %s" % (model, soft, first_diff(fp1, fp)))
    if soft != "":
        rb0, _ = load(model, "", False)
        stats["evals"] += 1
        fp0 = fingerprint(rb0)
        if digest(fp0) != d1:
            v({"kind": "rulebook-depends-on-soft", "vendor": vendor},
              "model %r: rulebook for soft %r differs from soft '' although providers cache by model only: %s"
              % (model, soft, first_diff(fp0, fp1)))
    return "ok:%d rules" % (len(rb1["patching"]["local"]) + len(rb1["patching"]["global"]))


# ---------------------------------------------------------------------------------------------------
def check_incremental(model, soft, vv, stats):
    """vendors registered one after the other into the registry annet is using (late plugin imports), the model's vendor
    asked for through the production entry points after every registration: the answer must be what the registry holds
    at that moment, whatever was asked before"""
    from annet.annlib.netdev.views.hardware import HardwareView
    from annet.hardware import hardware_connector
    from annet.vendors import registry_connector
    from annet.vendors.registry import Registry
    real = registry_connector.get()
    names = list(real.vendors)
    hw0 = HardwareView(model, soft)
    matching = [n for n in names if real.vendors[n].match() and any(hw0.match(expr) for expr in real.vendors[n].match())]
    others = [n for n in names if n not in matching]
    orders = []
    for perm in itertools.permutations(sorted(matching)[:3]):
        orders.append(list(others[:2]) + list(perm) + list(others[2:4]))
    if not orders:
        orders = [names[:4]]
    saved = registry_connector._classes
    try:
        for order in orders:
            r = Registry()
            registry_connector._classes = [lambda r=r: r]
            for step, name in enumerate(order):
                r.register(type(real.vendors[name]))
                hw = HardwareView(model, soft)
                want = vendor_name(r.match(hw, None))
                got = {"hw.vendor": hw.vendor, "hw_to_vendor": hardware_connector.get().hw_to_vendor(hw)}
                stats["evals"] += 3
                stats["incremental_registrations"] += 1
                bad = {k: x for k, x in got.items() if x != want}
                if bad:
                    vv({"kind": "vendor-stale-after-registration", "which": sorted(bad)},
                       "model %r: after registering %r the registry says %r but %r" % (model, order[:step + 1], want, bad))
                    return
    finally:
        registry_connector._classes = saved


def check_case(model, soft, targets, v, stats):
    """the whole property on one (model, soft); -> (outcome label, nontrivial)"""
    from annet.annlib.netdev.views.hardware import HardwareView
    case = {"model": model, "soft": soft, "targets": targets}

    def vv(sig, detail=""):
        v(sig, case, detail)
    for t in targets:   # the model must really be one of its target sequence (generator not trusted)
        if t[:1].isupper() and ":" not in t and not hwmodels.chain_matches(tuple(t.split(".")), model):
            raise AssertionError("model %r does not match the chain of %s" % (model, t))
    hw = HardwareView(model, soft)
    true_ref, depth = check_hardware(hw, model, vv, stats)
    vendor = check_vendor(hw, model, soft, true_ref, vv, stats)
    if not soft:
        check_incremental(model, soft, vv, stats)
    if vendor is None:
        try:
            load(model, soft, True)
            res = "loads"
        except AssertionError:
            res = "refused(assert)"
        except Exception as e:  # noqa
            res = "raises " + type(e).__name__
        return "generic/rulebook " + res, False
    res = check_rulebook(model, soft, vendor, vv, stats)
    return "%s/depth%d/%s" % (vendor, depth, res.split(":")[0]), depth >= 2


def run_block(block, ctx):
    softs = SOFTS_QUICK if ctx.tier == "quick" else SOFTS_THOROUGH
    mine = model_list(ctx.tier)[block["i"]::NB]
    if block["i"] == 0:
        for seq in hwmodels.unsynthesised():
            ctx.violation({"kind": "no-model-for-sequence", "sequence": ".".join(seq)}, {"sequence": ".".join(seq)},
                          "no string could be synthesised on which every regex of the chain is found")
    stats = collections.Counter()
    for model, targets in mine:
        for soft in softs:
            if ctx.expired():
                ctx.evals += stats["evals"]
                return
            label, nontrivial = check_case(model, soft, targets, ctx.violation, stats)
            ctx.states += 1
            ctx.nontrivial += 1 if nontrivial else 0
            ctx.outcomes[label] += 1
            if nontrivial and len(ctx.samples) < 2:
                ctx.sample({"model": model, "soft": soft, "targets": targets, "outcome": label,
                            "true_sequences": sorted(".".join(s) for s in hwmodels.ref_true(model))})
    ctx.evals += stats.pop("evals", 0)
    for k, n in stats.items():
        ctx.extra[k] += n
    ctx.extra["sequence_truths_compared"] += len(mine) * len(softs) * len(hwmodels.sequences())
    ctx.extra["abbreviations_compared"] += len(mine) * len(softs) * len(hwmodels.aliases())
    ctx.extra["predicates_evaluated"] += len(mine) * len(softs) * len(predicates())


def replay(case):
    out = []
    if "model" not in case:
        seq = tuple(case["sequence"].split("."))
        if not hwmodels.models_for(seq, 2):
            out.append(({"kind": "no-model-for-sequence", "sequence": case["sequence"]}, "still not synthesisable"))
        return out

    def v(sig, c, detail=""):
        out.append((sig, detail))
    check_case(case["model"], case["soft"], case.get("targets", []), v, collections.Counter())
    return out
