"""C19 - file-based devices get each changed file once, from the winning generator.

Pipeline driven on the real code, exactly as annet.gen / annet.api / annet.diff chain it for a PC device:

    gens (real subclasses of annet.generators.Entire, built from a table row each, in a given listing order)
      -> annet.generators.run_file_generators(gens, device)            stage 1
      -> res.new_files(), res.new_files(safe=True)
      -> annet.types.OldNewResult(... as annet.gen._old_new_per_device fills it for the pc branch ...)
      -> annet.api.DeployerJob.from_device(device, DeployOptions).parse_result(res)   stage 2 (deploy plan)
      -> annet.diff.pc_diff(hw, hostname, res.old_files, res.get_new_files(acl_safe)) stage 2 (file diff)

judged by mc.ref.filedev (argmax-prio table, content-comparison decision table).

Binding to annet/gen.py: for every stage-1 case the real annet.gen._old_new_per_device is run as well (pc branch, stub
context: config="running", do_files_download, the device's files in ctx.downloaded_files), with and without --acl-safe;
the OldNewResult it returns must carry exactly the fields the pipeline above hands to stage 2.

Stage 2 is a function of the OldNewResult value; it is executed once per distinct value reached in a block
(visited-state set). That the value really is captured by the key is checked on every execution: the OldNewResult
handed over records which attributes are read, and a read outside the key is a violation.
"""
from __future__ import annotations

import itertools
import os

from mc import env
from mc.ref import filedev as ref

PID = "C19"
ENGINE = "E1 bounded-exhaustive enumeration (generator tables x listing orders x device file maps x flags) against a decision-table reference"
RULE = ("stage 1: every set of n Entire generators (row = path x output x reload x is_safe, distinct declared prios drawn "
        "from {-10, 0, 50, 100, 150}, each declared as class attribute / in __init__ before super().__init__() / after "
        "it, 100 also by omission = Entire's default; assignments outside {50 class, 100 omitted, 150 class} are crossed "
        "with the reload='' rows and plain PC soft only) in every listing order, for plain PC and Cumulus soft - one case "
        "each, distinct by construction; non-trivial = some path is claimed by >= 2 generators. stage 2: every distinct OldNewResult value "
        "reached (ordered new_files, safe_new_files) x every device file map (per path: key missing / None / one of the "
        "outputs) x entire_reload x acl_safe - distinct via a visited set per block; non-trivial = a planned path exists "
        "on the device, or reload is forced with something planned.")
ASSUMPTIONS = [
    "safe mode (--acl-safe) plans a path iff the winning (highest-prio) generator of that path is_safe, as "
    "RunGeneratorResult.new_files documents; a lower-prio safe generator does not take over",
    "an absent device file (key missing or None) differs from every generated content, including the empty string "
    "(the debatable reading is reported under its own signature class 'absent on device vs generated empty')",
    "the deploy driver asked from annet.deploy.get_deployer is a harness driver: apply_deploy_rulebook delegates to "
    "annet.deploy.apply_deploy_rulebook, build_configuration_cmdlist/build_exit_cmdlist return empty CommandLists "
    "(what tests/annet/test_pc_deploy does); the shipped pc.deploy rulebook is empty so nothing is appended to cmds",
    "on Cumulus/SwitchDev/SONiC soft the reload text is the generator's reload plus '/usr/bin/etckeeper commitreload "
    "<path>' (Entire.get_reload_cmds); the reference restates that rule",
    "stage 2 reads only device, old_files, new_files/safe_new_files and the (empty) json-fragment fields of "
    "OldNewResult - checked at run time on every execution by an attribute-recording subclass",
    "file differ = UnifiedFileDiffer (the one annet.annet.main installs)",
]
BUDGET = {"quick": 150, "thorough": 900}

PATHS = ["/etc/p", "/etc//q"]     # the second path is spelled with a doubled slash: legal, and not what os.path.normpath would write
OUTPUTS = ["", "a", "a\n", "a\nb", "b\na"]     # the last two hold the same lines in another order
RELOADS = ["", "r"]
SAFES = [0, 1]
PRIO_VALUES = [-10, 0, 50, 100, 150]    # any int is a legal prio (only compared / sorted); 0 and a negative one included
# how a generator declares its prio - each is a distinct route into Entire.__init__'s defaulting:
#   omit  nothing declared (the documented default 100 applies)      class  class attribute
#   pre   own __init__ sets self.prio before super().__init__()      post   own __init__ sets it after super().__init__()
PRIO_HOWS = ["class", "pre", "post"]
PRIO_SLOTS = sorted([(100, "omit")] + [(v, h) for v in PRIO_VALUES for h in PRIO_HOWS])
PRIO_SLOTS_3 = [sl for sl in PRIO_SLOTS if sl[1] in ("omit", "class")]      # 3-generator sets: class attribute / omission only
BASE_SLOTS = {(50, "class"), (100, "omit"), (150, "class")}
# cost control: a prio assignment drawn from BASE_SLOTS only is crossed with all 32 table rows; every other assignment
# with the 16 rows whose reload is "" and on plain PC soft only (the reload text is carried along by selection and is
# the only thing the soft changes; neither takes part in choosing the winner)
NARROW_RELOADS = [""]
SOFTS = ["", "Cumulus Linux 5.4.0"]
MODES = ["yes", "no", "force"]
MISSING = "<missing>"           # old-map state: key not in the dict (None = key present, value None)
OLD_STATES = [MISSING, None] + OUTPUTS
HOST = "h"

ROWS = list(itertools.product(PATHS, OUTPUTS, RELOADS, SAFES))          # 32 table rows
ALLOWED_READS = {"device", "old_files", "new_files", "safe_new_files", "get_new_files", "err",
                 "old_json_fragment_files", "new_json_fragment_files", "safe_new_json_fragment_files",
                 "get_new_file_fragments"}


def bound_text(tier):
    n = 2 if tier == "quick" else 3
    extra = " plus one seed-selected block of 3-generator sets" if tier == "quick" else ""
    return ("all sets of 1..%d Entire generators over %d table rows (2 paths x 4 outputs x 2 reloads x 2 is_safe) with "
            "distinct declared prios from {-10,0,50,100,150} x declaration style {class attr, before super().__init__, "
            "after it; 100 also by omission} (3-generator sets: class attr/omission only; assignments other than "
            "{50 class,100 omitted,150 class} with the 16 reload='' rows on plain PC only), all listing permutations, "
            "soft in {'', Cumulus}; every reached "
            "OldNewResult value x 36 device file maps x entire_reload in {yes,no,force} x acl_safe in {0,1}%s; every listing "
            "also through annet.gen._old_new_per_device (pc branch) x acl_safe; complete"
            % (n, len(ROWS), extra))


# ---------------------------------------------------------------------------------------------------
# harness objects
class _Storage:
    def flush_perf(self):
        return None


class _Device:
    def __init__(self, hw):
        self.hw = hw
        self.hostname = HOST
        self.fqdn = HOST + ".example"
        self.id = 1
        self.breed = "pc"

    def is_pc(self):
        return True


_DEV = {}
_ARGS = {}
_CLS = {}
_STORAGE = _Storage()


def setup():
    env.setup()
    os.environ.pop("ETCKEEPER_CHECK", None)
    import annet.deploy
    from annet.annlib.command import CommandList
    from annet.lib import get_template_context_path
    os.environ.setdefault("ANN_CONTEXT_CONFIG_PATH", str(get_template_context_path()))

    class HarnessDeployDriver(annet.deploy.DeployDriver):
        async def bulk_deploy(self, deploy_cmds, args, progress_bar=None):
            raise NotImplementedError("the harness never deploys")

        def apply_deploy_rulebook(self, hw, cmd_paths, do_finalize=True, do_commit=True):
            return annet.deploy.apply_deploy_rulebook(hw, cmd_paths, do_finalize=do_finalize, do_commit=do_commit)

        def build_configuration_cmdlist(self, hw, do_finalize=True, do_commit=True):
            return CommandList(), CommandList()

        def build_exit_cmdlist(self, hw):
            return CommandList()

    try:
        annet.deploy.driver_connector.set(HarnessDeployDriver)
    except RuntimeError:
        annet.deploy.driver_connector._classes = [HarnessDeployDriver]
    from annet import cli_args
    from annet.storage import Query

    class HarnessQuery(Query):          # a ready Query keeps DeployOptions from asking the storage connector for one
        @classmethod
        def new(cls, query, hosts_range=None):
            return cls()

    for acl_safe in (0, 1):
        for mode in MODES:
            _ARGS[(acl_safe, mode)] = cli_args.DeployOptions(entire_reload=cli_args.EntireReloadFlag(mode),
                                                             acl_safe=bool(acl_safe), query=HarnessQuery())
    for soft in SOFTS:
        _DEV[soft] = _Device(env.hw("pc", soft) if soft else env.hw("pc"))


def norm_row(row):
    """(path, prio, output, reload, is_safe[, how]) -> 6-tuple; rows recorded before `how` existed meant: 100 = omitted"""
    row = tuple(row)
    if len(row) == 5:
        row = row + ("omit" if row[1] == 100 else "class",)
    return row


def gen_class(row):
    """row = (path, declared prio, output, reload, is_safe, how the prio is declared) -> a real subclass of
    annet.generators.Entire"""
    row = norm_row(row)
    cls = _CLS.get(row)
    if cls is None:
        from annet.generators import Entire
        path, prio, output, reload, safe, how = row
        assert how in ("omit", "class", "pre", "post") and (how != "omit" or prio == 100), row

        class TableEntire(Entire):
            def path(self, device):
                return path

            def run(self, device):
                return output

            def reload(self, device):
                return reload

            def is_safe(self, device):
                return bool(safe)
        if how == "class":
            TableEntire.prio = prio
        elif how == "pre":
            def __init__(self, storage):
                self.prio = prio
                Entire.__init__(self, storage)
            TableEntire.__init__ = __init__
        elif how == "post":
            def __init__(self, storage):
                Entire.__init__(self, storage)
                self.prio = prio
            TableEntire.__init__ = __init__
        TableEntire.__name__ = TableEntire.__qualname__ = "T_%s_%s%d_%d%d%d" % (
            path.rsplit("/", 1)[-1], how, prio, OUTPUTS.index(output) if output in OUTPUTS else 9, int(bool(reload)), safe)
        cls = _CLS[row] = TableEntire
    return cls


def old_dict(old_states):
    """(state for p, state for q) -> the dict handed to annet"""
    return {p: s for p, s in zip(PATHS, old_states) if s != MISSING}


_spy_cls = None


def spy_onr_class():
    global _spy_cls
    if _spy_cls is None:
        from annet.types import OldNewResult

        class SpyOldNewResult(OldNewResult):
            def __getattribute__(self, name):
                if not name.startswith("_"):
                    object.__getattribute__(self, "_reads").add(name)
                return object.__getattribute__(self, name)
        _spy_cls = SpyOldNewResult
    return _spy_cls


def make_onr(dev, old, full, safe_map, entire_results, acl_safe):
    """the OldNewResult annet.gen._old_new_per_device builds for the pc branch (no_new=False, no filter)"""
    from collections import OrderedDict as odict
    cls = spy_onr_class()
    onr = cls.__new__(cls)
    object.__setattr__(onr, "_reads", set())
    cls.__init__(
        onr, device=dev, old=odict(), new=odict(), acl_rules=None, old_files=old, new_files=full,
        partial_result=[], entire_result=entire_results, old_json_fragment_files={}, new_json_fragment_files={},
        json_fragment_result={}, implicit_rules=None, perf={}, acl_safe_rules=None, safe_old=odict(), safe_new=odict(),
        safe_new_files=(safe_map if acl_safe else {}), safe_new_json_fragment_files={}, filter_acl_rules=None)
    object.__getattribute__(onr, "_reads").clear()
    return onr


# ---------------------------------------------------------------------------------------------------
# stage 1: selection
def run_stage1(listing, soft):
    """listing: rows in listing order -> (RunGeneratorResult, new_files(), new_files(safe=True))"""
    from annet.generators import run_file_generators
    gens = [gen_class(r)(_STORAGE) for r in listing]
    res = run_file_generators(gens, _DEV[soft])
    return res, res.new_files(), res.new_files(safe=True)


def judge_selection(listing, soft, full, safe_map):
    out = []
    exp_full, exp_safe = ref.planned(listing, soft)
    # the safe-mode map is judged only when the unfiltered one is right (otherwise it is a consequence)
    for is_safe, got, exp in ((0, full, exp_full), (1, safe_map, exp_safe)):
        if got == exp:
            continue
        for path in sorted(set(got) | set(exp)):
            g, e = got.get(path), exp.get(path)
            if g == e:
                continue
            same_path = [tuple(r) for r in listing if r[0] == path]
            if not same_path:
                out.append(({"kind": "selection", "safe_mode": is_safe, "what": "path planned that no generator names"},
                            "path=%s got=%r listing=%r" % (path, g, listing)))
                continue
            w = tuple(ref.winner(listing, path))
            pos = same_path.index(w)
            where = "only generator of the path" if len(same_path) == 1 else (
                "winner listed after the others of its path" if pos == len(same_path) - 1 else "winner listed before a lower-prio generator")
            losers = [(r[2], ref.reload_text(path, r[3], soft)) for r in same_path if r != w]
            if e is None:
                what = "path planned although its winning generator is not safe"
            elif g is None:
                what = "planned path missing"
            elif g in losers:
                what = "result of a lower-prio generator planned"
            elif g[0] != e[0]:
                what = "content from no generator"
            else:
                what = "content right, reload text wrong"
            out.append(({"kind": "selection", "safe_mode": is_safe, "what": what, "listing": where},
                        "path=%s soft=%r new_files(safe=%s)[path]=%r expected=%r listing(path,prio,output,reload,is_safe,prio declared how)=%r"
                        % (path, soft, bool(is_safe), g, e, listing)))
        if out:
            break
    return out


# ---------------------------------------------------------------------------------------------------
# binding: the real annet.gen._old_new_per_device (pc branch) must hand over exactly the value make_onr builds
def run_gen_py(listing, soft, old, acl_safe):
    import types
    from annet import gen as ann_gen
    dev = _DEV[soft]
    gens = [gen_class(r)(_STORAGE) for r in listing]
    args = types.SimpleNamespace(no_acl=False, acl_safe=bool(acl_safe), no_acl_exclusive=False, profile=False,
                                 fail_on_empty_config=False, generators_context=None, filter_acl=None, filter_ifaces=None,
                                 filter_peers=None, filter_policies=None, required_packages_check=False)
    dg = ann_gen.DeviceGenerators(entire={dev: gens}, json_fragment={dev: []})
    downloaded = ann_gen.DeviceDownloadedFiles(entire_files=dict(old))
    ctx = ann_gen.OldNewDeviceContext(
        config="running", args=args, downloaded_files={dev: downloaded}, failed_files={}, running={}, failed_running={},
        no_new=False, stdin=None, add_annotations=False, add_implicit=False, do_files_download=True, gens=dg,
        fetched_packages={}, failed_packages={}, device_count=1, do_print_perf=False)
    return env.call_private(ann_gen, "_old_new_per_device", ctx, dev, None)


def judge_gen_py(listing, soft, full, safe_map, old, acl_safe):
    out = []
    try:
        r = run_gen_py(listing, soft, old, acl_safe)
    except Exception as e:  # noqa
        from mc import core
        if core.raised_in_harness(e):
            raise
        return [({"kind": "gen-py-raises", "exc": type(e).__name__}, repr(e)[:400])]
    if r.err is not None:
        return [({"kind": "gen-py-raises", "exc": type(r.err).__name__}, repr(r.err)[:400])]
    want = {"new_files": dict(full), "safe_new_files": dict(safe_map) if acl_safe else {}, "old_files": dict(old),
            "new_json_fragment_files": {}, "old_json_fragment_files": {}, "safe_new_json_fragment_files": {}}
    for field, exp in want.items():
        got = getattr(r, field)
        if dict(got) != exp or (field in ("new_files", "safe_new_files") and list(got.items()) != list(exp.items())):
            out.append(({"kind": "gen-py-result-field", "field": field, "acl_safe": acl_safe},
                        "_old_new_per_device(...).%s = %r, run_file_generators(...) gives %r; listing=%r old=%r"
                        % (field, dict(got), exp, listing, old)))
    def paths_of(er):
        return sorted(v.path for v in (er.values() if isinstance(er, dict) else er))
    if paths_of(r.entire_results) != paths_of(run_stage1(listing, soft)[0].entire_results):
        out.append(({"kind": "gen-py-result-field", "field": "entire_result", "acl_safe": acl_safe}, "listing=%r" % (listing,)))
    return out


# ---------------------------------------------------------------------------------------------------
# stage 2: deploy plan and file diff
EDGE_CLASSES = ("absent on device vs generated empty", "differs only by trailing newline", "differs only in line terminators")


def class_sig(kind, old_text, new_text):
    """signature of a content-comparison disagreement: the relation of the two contents, and for the edge relations
    (where the exact strings are the point) the strings themselves"""
    cls = ref.content_class(old_text, new_text)
    sig = {"kind": kind, "class": cls}
    if cls in EDGE_CLASSES:
        sig["old"], sig["new"] = old_text, new_text
    return sig


def judge_deploy(soft, old, full, safe_map, entire_results, acl_safe, mode):
    """-> (violations, outcome label, nontrivial)"""
    from annet.api import DeployerJob, PCDeployerJob
    dev = _DEV[soft]
    eff = safe_map if acl_safe else full
    out = []
    onr = make_onr(dev, dict(old), dict(full), dict(safe_map), entire_results, acl_safe)
    job = DeployerJob.from_device(dev, _ARGS[(acl_safe, mode)])
    if type(job) is not PCDeployerJob:
        return [({"kind": "job-class", "got": type(job).__name__}, "DeployerJob.from_device on PC hardware")], "job-class", False
    try:
        job.parse_result(onr)
    except Exception as e:  # the property states what deploy_cmds is, so the call has to succeed
        return [({"kind": "parse-result-raises", "exc": type(e).__name__, "entire_reload": mode},
                 "%r old=%r new=%r acl_safe=%d" % (e, old, eff, acl_safe))], "raises:" + type(e).__name__, True
    reads = object.__getattribute__(onr, "_reads") - ALLOWED_READS
    if reads:
        out.append(({"kind": "harness-dedupe-key", "attrs": sorted(reads)},
                    "parse_result read OldNewResult attributes that are not part of the visited-state key"))
    exp_files, exp_cmds = ref.deploy_plan(old, eff, mode)
    entry = job.deploy_cmds.get(dev)
    got_files = dict(entry["files"]) if entry else {}
    got_cmds = dict(entry["cmds"]) if entry else {}
    ctx_txt = "soft=%r entire_reload=%s acl_safe=%d old_files=%r planned=%r deploy_cmds=%r" % (
        soft, mode, acl_safe, old, eff, dict(entry) if entry else None)
    for path in sorted(set(exp_files) | set(got_files)):
        ref_up, impl_up = path in exp_files, path in got_files
        if path not in eff:
            out.append(({"kind": "upload-unplanned-path", "acl_safe": acl_safe,
                         "planned_without_safe_filter": path in full}, "path=%s %s" % (path, ctx_txt)))
            continue
        old_text, new_text = old.get(path), eff[path][0]
        if ref_up != impl_up:
            out.append((dict(class_sig("upload-decision", old_text, new_text), forced=(mode == "force"),
                             impl_uploads=impl_up, ref_uploads=ref_up), "path=%s %s" % (path, ctx_txt)))
            continue
        if got_files[path] != exp_files[path]:
            what = "device content" if isinstance(got_files[path], bytes) and old_text is not None and \
                got_files[path] == old_text.encode() else type(got_files[path]).__name__
            out.append(({"kind": "upload-bytes", "got": what}, "path=%s uploaded=%r expected=%r %s"
                        % (path, got_files[path], exp_files[path], ctx_txt)))
        if (path in got_cmds) != (path in exp_cmds):
            out.append(({"kind": "reload-attached", "entire_reload": mode, "impl_has": path in got_cmds,
                         "ref_has": path in exp_cmds}, "path=%s %s" % (path, ctx_txt)))
        elif path in got_cmds and got_cmds[path] != exp_cmds[path]:
            out.append(({"kind": "reload-text", "etckeeper_soft": bool(soft)}, "path=%s cmds=%r expected=%r %s"
                        % (path, got_cmds[path], exp_cmds[path], ctx_txt)))
    for path in sorted(set(got_cmds) - set(got_files)):
        out.append(({"kind": "reload-without-upload", "entire_reload": mode}, "path=%s %s" % (path, ctx_txt)))
    if entry:
        for field in ("generator_types", "cmds_pre_files"):
            if set(entry.get(field, {})) != set(got_files):
                out.append(({"kind": "deploy-cmds-shape", "field": field}, ctx_txt))
        if job.diffs.get(dev) != entry["files"]:
            out.append(({"kind": "deploy-cmds-shape", "field": "diffs"}, ctx_txt))
    if bool(job.has_diff()) != bool(got_files):
        out.append(({"kind": "has-diff-flag", "has_diff": bool(job.has_diff()), "files": len(got_files)}, ctx_txt))
    label = "deploy %s safe=%d planned=%d uploaded=%d cmds=%d" % (mode, acl_safe, len(eff), len(got_files), len(got_cmds))
    nontrivial = bool(eff) and (mode == "force" or any(old.get(p) is not None for p in eff))
    return out, label, nontrivial


def judge_diff(soft, old, eff):
    from annet.diff import pc_diff
    dev = _DEV[soft]
    out = []
    files = list(pc_diff(dev.hw, HOST, dict(old), dict(eff)))
    shown = []
    for f in files:
        path = next((p for p in sorted(eff, key=len, reverse=True) if f.label.endswith(HOST + os.sep + p)), None)
        if path is None:
            out.append(({"kind": "pc-diff-label"}, "label=%r planned=%r" % (f.label, eff)))
            continue
        shown.append(path)
        if not f.diff_lines:
            out.append(({"kind": "pc-diff-empty-lines"}, "path=%s" % path))
    if len(set(shown)) != len(shown):
        out.append(({"kind": "pc-diff-duplicate"}, "shown=%r" % shown))
    exp = ref.diff_paths(old, eff)
    for path in sorted(set(exp) ^ set(shown)):
        old_text, new_text = old.get(path), eff[path][0]
        out.append((dict(class_sig("pc-diff", old_text, new_text), impl_shows=path in shown, ref_shows=path in exp),
                    "path=%s soft=%r old_files=%r planned=%r pc_diff labels=%r" % (path, soft, old, eff, [f.label for f in files])))
    return out, "diff shown=%d of %d" % (len(shown), len(eff)), any(old.get(p) is not None for p in eff)


# ---------------------------------------------------------------------------------------------------
def prio_choices(n):
    """all ways to give n generators distinct declared prios (increasing), each with a declaration style"""
    slots = PRIO_SLOTS_3 if n >= 3 else PRIO_SLOTS
    return [c for c in itertools.combinations(slots, n) if len({v for v, _h in c}) == n]


def blocks_for(n):
    """one block = soft x the path of every generator (in prio order) x the output of the top-prio generator;
    this partitions the sets and keeps the stage-2 values reached by different blocks mostly disjoint"""
    return [{"n": n, "soft": soft, "paths": list(paths), "top": top}
            for soft in range(len(SOFTS))
            for paths in itertools.product(range(len(PATHS)), repeat=n)
            for top in range(len(OUTPUTS))]


def blocks(tier, seed):
    bl = blocks_for(1) + blocks_for(2)
    three = blocks_for(3)
    if tier == "thorough":
        bl += three
    else:
        bl.append(three[seed % len(three)])
    return bl


def gen_sets(block):
    """the sets of this block: tuples of rows (path, prio, output, reload, is_safe, how) ordered by increasing prio"""
    n = block["n"]
    per_gen = {}
    for name, reloads in (("full", RELOADS), ("narrow", NARROW_RELOADS)):
        per_gen[name] = []
        for i, pi in enumerate(block["paths"]):
            outs = [OUTPUTS[block["top"]]] if i == n - 1 else OUTPUTS
            per_gen[name].append([(PATHS[pi], o, r, s) for o in outs for r in reloads for s in SAFES])
    for slots in prio_choices(n):
        base = set(slots) <= BASE_SLOTS
        if not base and SOFTS[block["soft"]]:
            continue            # the soft only changes the reload text; non-base assignments run on plain PC only
        rowsets = per_gen["full" if base else "narrow"]
        for rows in itertools.product(*rowsets):
            yield tuple((r[0], v) + r[1:] + (h,) for r, (v, h) in zip(rows, slots))


OLD_MAPS = [old_dict(s) for s in itertools.product(OLD_STATES, repeat=len(PATHS))]
STAGE2_PER_VALUE = 2 * len(OLD_MAPS) * len(MODES)


# device file maps used for the gen.py binding (the device's files are passed through unchanged: two maps suffice)
GEN_PY_OLD = [OLD_MAPS[0], OLD_MAPS[-1]]


def case_of(listing, soft, old=None, acl_safe=None, mode=None):
    c = {"gens": [list(r) for r in listing], "soft": soft}
    if old is not None:
        c["old"] = old
        c["acl_safe"] = acl_safe
    if mode is not None:
        c["entire_reload"] = mode
    return c


def run_block(block, ctx):
    soft = SOFTS[block["soft"]]
    seen_value = set()      # (ordered new_files, ordered safe_new_files) fully expanded
    seen_deploy = set()     # (acl_safe, ordered new_files, ordered safe_new_files as handed over)
    seen_diff = set()       # ordered effective new map
    for gset in gen_sets(block):
        if ctx.expired():
            return
        contested = len({r[0] for r in gset}) < len(gset)
        for listing in itertools.permutations(gset):
            res, full, safe_map = run_stage1(listing, soft)
            ctx.evals += 1
            ctx.states += 1
            ctx.nontrivial += contested
            ctx.outcomes["select n=%d paths=%d safe-planned=%d" % (len(listing), len(full), len(safe_map))] += 1
            for sig, detail in judge_selection(listing, soft, full, safe_map):
                ctx.violation(sig, case_of(listing, soft), detail)
            for acl_safe in (0, 1):
                old = GEN_PY_OLD[acl_safe]
                for sig, detail in judge_gen_py(listing, soft, full, safe_map, old, acl_safe):
                    ctx.violation(sig, dict(case_of(listing, soft, old, acl_safe), gen_py=True), detail)
                ctx.evals += 1
                ctx.extra["gen_py_bindings"] += 1
            if contested and len(ctx.samples) < 2:
                ctx.sample({"listing(path,prio,output,reload,is_safe,prio declared how)": [list(r) for r in listing], "soft": soft,
                            "new_files": {k: list(v) for k, v in full.items()},
                            "new_files(safe)": {k: list(v) for k, v in safe_map.items()}})
            ctx.extra["pipeline_cases_covered"] += STAGE2_PER_VALUE
            value = (tuple(full.items()), tuple(safe_map.items()))
            if value in seen_value:
                ctx.extra["stage1_results_already_expanded"] += 1
                continue
            seen_value.add(value)
            for acl_safe in (0, 1):
                eff = safe_map if acl_safe else full
                dkey = (acl_safe, value[0], value[1] if acl_safe else ())
                if dkey not in seen_deploy:
                    seen_deploy.add(dkey)
                    for old in OLD_MAPS:
                        for mode in MODES:
                            viol, label, nontrivial = judge_deploy(soft, old, full, safe_map, res.entire_results, acl_safe, mode)
                            ctx.evals += 1
                            ctx.states += 1
                            ctx.nontrivial += nontrivial
                            ctx.outcomes[label] += 1
                            for sig, detail in viol:
                                ctx.violation(sig, case_of(listing, soft, old, acl_safe, mode), detail)
                fkey = tuple(eff.items())
                if fkey not in seen_diff:
                    seen_diff.add(fkey)
                    for old in OLD_MAPS:
                        viol, label, nontrivial = judge_diff(soft, old, eff)
                        ctx.evals += 1
                        ctx.states += 1
                        ctx.nontrivial += nontrivial
                        ctx.outcomes[label] += 1
                        for sig, detail in viol:
                            ctx.violation(sig, case_of(listing, soft, old, acl_safe), detail)
    ctx.extra["distinct_oldnew_values"] += len(seen_deploy)


def replay(case):
    listing = [norm_row(r) for r in case["gens"]]
    soft = case["soft"]
    res, full, safe_map = run_stage1(listing, soft)
    out = list(judge_selection(listing, soft, full, safe_map))
    if case.get("gen_py"):
        return out + judge_gen_py(listing, soft, full, safe_map, case["old"], case["acl_safe"])
    if "old" in case:
        old, acl_safe = case["old"], case["acl_safe"]
        eff = safe_map if acl_safe else full
        if "entire_reload" in case:
            out += judge_deploy(soft, old, full, safe_map, res.entire_results, acl_safe, case["entire_reload"])[0]
        else:
            out += judge_diff(soft, old, eff)[0]
    return out
