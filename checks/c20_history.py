"""C20 - results are independent of processing history; inputs and compiled rulebooks are left unmodified.

Explicit-state search over job HISTORIES, every state being a live interpreter (engine E2, fork-tree variant).

Job alphabet J (JSON descriptors, see build_jobs()):
  patch   (old, new) pairs of the shipped corpus /repo/tests/annet/test_patch with the shipped rulebook of 6 vendors (+ a
          second hardware model of one vendor), through annet.api._diff_and_patch -> cmd_paths -> apply_deploy_rulebook;
          with and without a compiled ACL obtained from compile_acl_text (lru_cached: jobs of one vendor share the very
          same compiled ACL object, as in production), one with a RefTracker (Orderer.insert/merge_dicts on the cached
          ordering rulebook); one hand-written pair run on two hardware models of one vendor whose rendered rulebooks
          differ (so that a rulebook cached under too coarse a key is visible in the result);
  order   annet.patching.Orderer(get_rulebook(hw)["ordering"], vendor).order_config(new);
  synth   synthetic rulebook texts (two jobs per text, so the compiled object is shared) whose %logic writes to its rule
          argument (common.default_instead_undo, huawei.bgp.undo_commit, cisco.misc.ssh_key) and whose configurations
          contain rows unknown to the rulebook (popped by apply_diff_rb), some with acl == filter_acl (one shared object).

  e2e     two devices of one fabric served by one worker (mc/e2e.Fabric: one Loader, one args object, ONE stdin dict, a
          configuration directory with per-device <host>.cfg and <host>.acl, `annet patch --filter-acl DIR`): the job is
          annet.api._patch_worker for one of the devices; the fabric object lives as long as the process, like the
          arguments of a pool worker.

Exploration.  The TEMPLATE is a process that has imported annet and set the three connectors and has run nothing (its
lru caches are empty, no provider/registry instance exists; asserted and reported).  A NODE of the tree is a history h;
it is materialised by forking the template and running the jobs of h in order ("replay").  Every EDGE (h, j) is run
exactly once in a process forked from the node, which reports through a pipe
   (a) the result: diff rows, digest of the diff incl. rule attrs, patch tree, cmd_paths, deploy commands / ordered config;
   (b) digests of deep snapshots of old, new and the three compiled rulebooks before and after the call;
   (c) the fingerprint of process-global state after the call: every global of every loaded annet module, every
       lru_cache's *content* (mc/statehash.py), hence the provider's three caches and the vendor registry.
Why replay-per-node and not a literal fork tree whose edge processes stay alive: levels must be synchronised to dedupe
states globally (the coordinator has to see all fingerprints of level k before it decides which nodes of level k+1 to
expand), which in a literal tree means hundreds of sleeping interpreters waiting for a verdict; replay costs |h| <= 2
extra job executions per node (8%), keeps at most three generations alive (pool worker -> node -> edge), and adds a
check for free: the state reached by replaying h in another process must have the fingerprint recorded when h was first
reached.  Edges are never re-executed.
Levels: the coordinator (blocks(), in the top-level process, which itself only forks) runs levels 1..d-1 through a fork
pool of its own and hands level d to the driver's pool.  Level 1 (run twice) gives result(j | fresh).  Levels 1 and 2 are
never pruned (all ordered pairs are executed); at level 3 only histories whose fingerprint was not expanded before are
expanded (closure pruning), the premise of which - equal fingerprint => equal behaviour - is checked on every pair of
explored nodes with equal fingerprints (kind 'fingerprint-not-congruent').

Oracle per edge: result(j | h) == result(j | fresh); snapshots before == after; (j | j) is among the pairs; two fresh
runs agree.  Fingerprint completeness: a static scan of the annet tree for lru_cache/cache/cached_property decorators,
module/class level container assignments and self.*cache* = {} in __init__ is compared with what the fingerprint walks
in a process that has run every job (kind 'fingerprint-incomplete').
"""
from __future__ import annotations

import collections
import json
import multiprocessing
import os
import signal
import sys
import time
import traceback
import types

from mc import core, env, statehash

PID = "C20"
ENGINE = "E2 explicit-state search over job histories; states are live processes (fork per edge, replay per node)"
RULE = ("a case is an edge (history h, job j): j executed once in a process forked from a process that ran h; distinct "
        "states = distinct fingerprints of process-global annet state; an edge is non-trivial when the job found at least "
        "one compiled object it uses (provider rulebook, patching/ordering text, ACL) already created by the history")
ASSUMPTIONS = [
    "process-global state = globals of loaded annet modules + lru_cache contents reachable from them (walked by "
    "mc/statehash.py); state kept by third-party modules (re's pattern cache, mako, logging) is outside the fingerprint",
    "lru_cache contents are read through the CPython GC traversal order of the wrapper; validated by a self-test and "
    "against cache_info() on every read",
    "the ACL scratch field attrs['match'] is excluded from every hash, as the property allows",
    "jobs build their old/new trees afresh from JSON (OrderedDicts; five jobs are repeated with plain dicts); only compiled objects are shared between jobs",
    "closure pruning at depth 3 relies on the fingerprint; its premise is checked on all explored nodes with equal fingerprints",
]
BUDGET = {"quick": 150, "thorough": 1500}
DEPTH = {"quick": 2, "thorough": 3}
CORPUS_ROOT = os.environ.get("VERIF_CORPUS_ROOT", "/repo")
CORPUS_DIR = "annet/test_patch"
EDGES_PER_UNIT = 10
CHILD_TIMEOUT = 300

HW_MODELS = {"huawei": "Huawei", "huawei ce": "Huawei CE0000", "cisco": "Cisco Catalyst", "arista": "Arista",
             "juniper": "Juniper", "nexus": "Cisco Nexus", "aruba": "Aruba"}
PAIRS = collections.OrderedDict([
    ("huawei", ["huawei_undo_bgp.yaml #1", "huawei_multiline_modify.yaml #1"]),
    ("cisco", ["cisco_bgp_address_family.yaml #1", "cisco_policy_map.yaml #2"]),
    ("arista", ["arista_load_sharing.yaml #3", "arista_username.yaml #4"]),
    ("juniper", ["juniper_inactive.yaml #1", "juniper_del_forwarding_class.yaml #1"]),
    ("nexus", ["nexus_lag_member_add.yaml #1", "nexus_lag_member_remove.yaml #1"]),
    ("aruba", ["aruba_ap_env.yaml #4", "aruba_syslog.yaml #2"]),
    ("huawei ce", ["huawei_iface_ip_vpn_binding.yaml #1"]),
])
ORDER_VENDORS = ["huawei", "cisco", "arista", "juniper"]
ORDER_SECOND_MODELS = [("juniper mx", "Juniper MX960", "juniper"), ("routeros", "RouterOS", "routeros"),
                       ("routeros rb", "MikroTik RB4011iGS+", "routeros")]
# a RouterOS configuration written against the order of routeros.order (file, snmp, system)
ROS_TREE = [["system", [["logging", [["add x", []]]]]], ["snmp", [["set a", []], ["community", [["add c", []]]]]],
            ["file", [["set f", []], ["print file=a", []]]]]
# the same hand-written pair on two hardware models of one vendor: huawei.rul renders 'trust *' for CE and 'trust' otherwise,
# so the two jobs have different patches; a rulebook cached under too coarse a key shows as a history-dependent result
HW_PAIR = {"old": [["interface 10GE1/0/1", [["trust dscp", []]]]], "new": [["interface 10GE1/0/1", [["trust 8021p", []]]]]}
HW_PAIR_VENDORS = ["huawei", "huawei ce"]
# one ACL text per vendor, shared by the jobs of that vendor (each drops at least one top-level row of one of the pairs)
ACLS = {
    "huawei": "interface *\n    ~ %global\nbgp <asn>\n    ~ %global\nrsa peer-public-key user1 ~\n    ~ %global\n"
              "rsa peer-public-key user2 ~\n    ~ %global\n",
    "cisco": "router bgp <asn>\n    ~ %global\npolicy-map type qos */MARK-.*/\n    ~ %global\n",
    "arista": "ip load-sharing ~\nusername user01 ~\n",
    "juniper": "forwarding-options\n    port-mirroring\n        ~ %global\nclass-of-service\n    ~ %global\n",
    "nexus": "interface */Ethernet.*/\n    ~ %global\n",
    "aruba": "*/(dnsip|domainname):.*/\nsyslog-level * user\n",
}
SYNTH = {
    # cisco-like (reverse prefix "no"): default_instead_undo writes rule["reverse"]; ssh_key writes rule["comment"]
    "T1": ("cisco", "feature * %logic=common.default_instead_undo\n"
                    "logging host * %logic=common.default_instead_undo\n"
                    "interface *\n"
                    "    mtu * %logic=common.default_instead_undo\n"
                    "    description ~\n"
                    "ip ssh version 2 %logic=cisco.misc.ssh_key %comment=!!keep!!\n"
                    "hostname *\n"),
    # huawei (reverse prefix "undo"): undo_commit writes rule["force_commit"]
    "T2": ("huawei", "bgp %logic=huawei.bgp.undo_commit\n"
                     "    peer * as-number *\n"
                     "    router-id *\n"
                     "ospf %logic=huawei.bgp.undo_commit %force_commit=1\n"
                     "    area *\n"
                     "sysname *\n"),
    # arista: nested default_instead_undo under an %ordered block, a %rewrite block, an ignored row, a %global rule
    "T3": ("arista", "ip access-list * %ordered\n"
                     "    permit ~ %logic=common.default_instead_undo\n"
                     "    !remark ~\n"
                     "route-map * %rewrite\n"
                     "    match ~\n"
                     "    set ~\n"
                     "no * %global %logic=common.default_instead_undo\n"
                     "ntp server * %logic=common.default_instead_undo\n"),
    # huawei: plain rules; used with an ACL in which two rules match one row and both own a child rule with the same
    # text but different list-valued flags (the children rules of all matching ACL rules are merged per match)
    "T4": ("huawei", "interface *\n"
                     "    description ~\n"
                     "    mtu *\n"
                     "sysname *\n"),
    # cisco: a logic supplied by the harness (annet.rulebook.verif_harness, injected into sys.modules by setup()) that writes
    # into every kind of value its rule argument holds - list attrs IN PLACE, nested dicts, new keys - as the anchors say
    # logic functions do ("make_patch deep-copies rule attrs per (rule,key) because logic functions mutate them")
    "T5": ("cisco", "snmp-server host * %logic=verif_harness.scribble\n"
                    "logging * %logic=verif_harness.scribble %comment=!!keep!!\n"
                    "interface *\n"
                    "    description ~ %logic=verif_harness.scribble\n"
                    "hostname *\n"),
}
SYNTH["T6"] = ("huawei", "interface *\n"
                         "    nd ra interval * %ignore_case\n"
                         "    description ~\n"
                         "sysname *\n")
# the same row texts as T6 without the flag (patching rulebook of another device type, and an ACL): whatever is remembered
# per row text must not carry one rule's flags over to another rule spelled the same
SYNTH["T7"] = ("huawei", "interface *\n"
                         "    nd ra interval *\n"
                         "    description ~\n")
# an ACL in which two rules of equal prio match one row and differ in cant_delete, the looser one winning by a narrow margin of
# the shared-symbols metric; another job meets the protected rule through its NEGATED form first (anything remembered per rule
# while matching one form must not decide the other form's ranking)
SYNTH["T8"] = ("huawei", "dn *\n"
                         "sysname *\n")
SYNTH_ACL = {"T8": "dn * %cant_delete=1\ndn */u./\nsysname *\n",
             "T6": "interface *\n    nd ra interval *\n    description ~\n",
             "T3": "ip access-list *\n    ~ %global\nntp server <srv>\nroute-map *\n    ~ %global\n",
             "T4": "interface * %prio=1\n    description ~ %cant_delete=1\n    mtu *\n"
                   "interface */Eth.*/\n    description ~ %cant_delete=0\n    mtu * %cant_delete=1\n"}
SYNTH_JOBS = [
    {"id": "synth/T1/a", "text": "T1", "logic": "default_instead_undo", "add_comments": False,
     "old": [["feature a", []], ["feature b", []], ["logging host h1", []], ["mystery 1", [["inner", []]]],
             ["interface e1", [["mtu 9000", []], ["description x", []], ["strange child", []]]]],
     "new": [["feature b", []], ["mystery 2", []], ["interface e1", [["description y", []]]]]},
    {"id": "synth/T1/b", "text": "T1", "logic": "ssh_key", "add_comments": True,
     "old": [["feature c", []], ["hostname r1", []], ["mystery 1", []]],
     "new": [["hostname r2", []], ["ip ssh version 2", []], ["mystery 3", [["x", []]]]]},
    {"id": "synth/T2/a", "text": "T2", "logic": "undo_commit", "add_comments": False,
     "old": [["bgp 100", [["peer 1.1.1.1 as-number 100", []], ["router-id 1.1.1.1", []], ["mystery x", []]]],
             ["ospf 1", [["area 0", []]]], ["unknown top", []]],
     "new": [["bgp 200", [["peer 1.1.1.1 as-number 200", []], ["router-id 1.1.1.1", []]]], ["sysname r", []]]},
    {"id": "synth/T2/b", "text": "T2", "logic": "undo_commit", "add_comments": True,
     "old": [["ospf 1", [["area 0", []], ["area 1", []]]], ["sysname q", []]],
     "new": [["ospf 2", [["area 0", []]]], ["sysname q", []], ["unknown top", [["c", []]]]]},
    {"id": "synth/T3/a", "text": "T3", "logic": "default_instead_undo", "add_comments": False, "acl": "T3", "filter_acl": "T3",
     "old": [["ip access-list A", [["permit 1", []], ["remark r", []], ["permit 2", []], ["no permit 3", []]]],
             ["ntp server 1.1.1.1", []], ["ntp server 2.2.2.2", []], ["route-map M", [["match a", []], ["set b", []]]],
             ["stray row", []]],
     "new": [["ip access-list A", [["permit 2", []], ["permit 1", []]]], ["ntp server 2.2.2.2", []],
             ["route-map M", [["match a", []], ["set c", []]]]]},
    {"id": "synth/T4/a", "text": "T4", "logic": "default", "add_comments": False, "acl": "T4",
     "old": [["interface Eth1", [["description x", []], ["mtu 1500", []]]], ["sysname a", []]],
     "new": [["interface Eth1", [["description y", []]]], ["sysname a", []]]},
    {"id": "synth/T4/b", "text": "T4", "logic": "default", "add_comments": False, "acl": "T4",
     "old": [["interface Vlanif10", [["description mgmt", []], ["mtu 9000", []]]], ["sysname a", []]],
     "new": [["interface Vlanif10", []], ["sysname b", []]]},
    {"id": "synth/T5/a", "text": "T5", "logic": "harness-scribble", "add_comments": True,
     "old": [["snmp-server host 1.1.1.1", []], ["logging a", []], ["interface e1", [["description x", []]]], ["hostname r1", []]],
     "new": [["snmp-server host 2.2.2.2", []], ["logging b", []], ["interface e1", [["description y", []]]], ["hostname r1", []]]},
    {"id": "synth/T5/b", "text": "T5", "logic": "harness-scribble", "add_comments": True,
     "old": [["hostname r1", []], ["interface e2", []]],
     "new": [["hostname r2", []], ["snmp-server host 3.3.3.3", []], ["interface e2", [["description z", []]]]]},
    {"id": "synth/T6/a", "text": "T6", "logic": "ignore_case", "add_comments": False,
     "old": [["interface e1", [["ND RA Interval 10", []], ["description Up", []]]], ["sysname a", []]],
     "new": [["interface e1", [["nd ra interval 10", []], ["description up", []]]], ["sysname a", []]]},
    {"id": "synth/T7/a", "text": "T7", "logic": "same-rows-no-flag", "add_comments": False, "acl": "T6",
     "old": [["interface e1", [["ND RA Interval 10", []], ["description Up", []]]]],
     "new": [["interface e1", [["nd ra interval 10", []], ["description up", []]]]]},
    {"id": "synth/T8/a", "text": "T8", "logic": "acl-negated-first", "add_comments": False, "acl": "T8",
     "old": [["undo dn zz", []], ["sysname a", []]], "new": [["sysname b", []]]},
    {"id": "synth/T8/b", "text": "T8", "logic": "acl-narrow-margin", "add_comments": False, "acl": "T8",
     "old": [["dn uo", []], ["sysname a", []]], "new": [["sysname a", []]]},
    {"id": "synth/T3/b", "text": "T3", "logic": "default_instead_undo", "add_comments": False,
     "old": [["ip access-list B", [["permit 9", []]]], ["ntp server 3.3.3.3", []], ["no thing 1", []], ["stray row", []]],
     "new": [["route-map N", [["set z", []]]], ["stray row 2", []]]},
]
# the same jobs once more with their trees built from plain dicts instead of OrderedDicts (both are accepted everywhere;
# a protective copy that recognises only one of the two types lets the caller's blocks through by reference)
PLAIN_SYNTH = ["synth/T1/a", "synth/T2/a", "synth/T3/a"]
PLAIN_PATCH = ["patch/nexus/nexus_lag_member_add", "patch/cisco/cisco_bgp_address_family"]
# lru caches named by the property; each must be a component of the fingerprint (module, attribute)
REQUIRED_LRU = [
    ("annet.annlib.rbparser.syntax", "compile_row_regexp"),
    ("annet.annlib.rbparser.acl", "compile_acl_text"),
    ("annet.annlib.rbparser.acl", "compile_ref_acl_text"),
    ("annet.annlib.rbparser.acl", "_make_reverse"),
    ("annet.annlib.rbparser.ordering", "compile_ordering_text"),
    ("annet.rulebook.patching", "compile_patching_text"),
    ("annet.rulebook.patching", "_make_reverse"),
    ("annet.rulebook.deploying", "compile_deploying_text"),
    ("annet.rulebook.common", "import_rulebook_function"),
    ("annet.annlib.netdev.devdb", "parse_hw_model"),
]
REQUIRED_GLOBALS = ["annet.rulebook:rulebook_provider_connector", "annet.vendors:registry_connector",
                    "annet.vendors.registry:registry", "annet.hardware:hardware_connector"]
PROVIDER_CACHES = ["_rulebook_cache", "_render_rul_cache", "_escaped_rul_cache"]

_JOBS = None            # list of job dicts (set by setup)
_JOB = {}               # id -> job
_TEMPLATE = None        # {component: digest} of the template process
_TEMPLATE_TOTAL = None
_TEMPLATE_COLD = None
_FRESH = {}             # job id -> report of the depth-1 edge
_PRE = []               # ctx.result() dicts of the units run by the coordinator itself
_NODES = {}             # fingerprint -> first history (list of job ids) that reached it, in BFS order
_PLAN = {}              # what blocks() decided (for bound/evidence)


def bound_text(tier):
    d = DEPTH[tier]
    s = "|J| = %d jobs; all histories of length <= %d executed (every ordered pair)" % (len(_JOBS or []), min(d, 2))
    if d >= 3:
        s += ("; depth 3: every job after every depth-2 history whose state fingerprint was not expanded before "
              "(%s of %s depth-2 histories expanded, the rest pruned as duplicates of expanded states)"
              % (_PLAN.get("expanded3", "?"), _PLAN.get("histories2", "?")))
    s += "; plus the two chains running all jobs in forward and reverse order"
    return s


# ---------------------------------------------------------------------------------------------------
# forking
class ChildFailed(Exception):
    pass


def fork_call(fn, *args):
    """run fn(*args) in a forked child and return its JSON-able result; the child never returns into the caller's code
    (os._exit in finally), the pipe is closed on both sides and the child is always reaped."""
    r, w = os.pipe()
    pid = os.fork()
    if pid == 0:
        code = 1
        try:
            os.close(r)
            signal.alarm(CHILD_TIMEOUT)       # a stuck child dies by SIGALRM (default action), the parent sees EOF
            try:
                payload = {"ok": fn(*args)}
            except BaseException:  # noqa
                payload = {"err": traceback.format_exc()}
            data = json.dumps(payload).encode()
            view = memoryview(data)
            while view:
                n = os.write(w, view)
                view = view[n:]
            os.close(w)
            code = 0
        finally:
            os._exit(code)
    os.close(w)
    chunks = []
    try:
        while True:
            b = os.read(r, 1 << 16)
            if not b:
                break
            chunks.append(b)
    finally:
        os.close(r)
        _, status = os.waitpid(pid, 0)
    if not chunks:
        raise ChildFailed("child %d produced no report (wait status %d)" % (pid, status))
    out = json.loads(b"".join(chunks))
    if "err" in out:
        raise ChildFailed(out["err"])
    return out["ok"]


# ---------------------------------------------------------------------------------------------------
# job alphabet
def _load_corpus():
    """runs in a throw-away child: loading the corpus touches annet (formatters, hardware views)"""
    if CORPUS_ROOT not in sys.path:
        sys.path.append(CORPUS_ROOT)          # appended: never shadows the annet tree under test
    import tests
    from tests.annet import patch_data
    want = {n for names in PAIRS.values() for n in names}
    out = {}
    for name, sample in patch_data.get_samples(CORPUS_DIR):
        if name not in want:
            continue
        label = sample.get("vendor", "huawei").lower()
        hw = tests.make_hw_stub(label)
        old, new, _ = patch_data.get_configs(hw, sample)
        out[name] = {"label": label, "model": hw.model, "old": env.tree_to_list(old), "new": env.tree_to_list(new)}
    return out


def build_jobs():
    corpus = fork_call(_load_corpus)
    jobs = []
    for vendor, names in PAIRS.items():
        for i, name in enumerate(names):
            s = corpus.get(name)
            if s is None:
                raise RuntimeError("corpus sample %r not found" % name)
            if s["label"] != vendor or s["model"] != HW_MODELS[vendor]:
                raise RuntimeError("corpus sample %r: label/model %r/%r" % (name, s["label"], s["model"]))
            short = name.split(".yaml")[0]
            base = {"kind": "patch", "vendor": vendor, "model": s["model"], "sample": name, "old": s["old"], "new": s["new"],
                    "add_comments": False}
            variants = [("", None)]
            if vendor in ACLS:
                variants.append(("+acl", ACLS[vendor]))
            for suffix, acl in variants:
                if i == 1 and not suffix and vendor not in ("huawei", "cisco"):
                    continue       # second pair without ACL only for two vendors (same state class as the first pair)
                j = dict(base, id="patch/%s/%s%s" % (vendor, short, suffix), jk="patch" + suffix)
                if acl:
                    j["acl"] = acl
                jobs.append(j)
        if vendor == "huawei":
            s = corpus[names[0]]
            jobs.append({"kind": "patch", "vendor": vendor, "model": s["model"], "sample": names[0], "old": s["old"],
                         "new": s["new"], "add_comments": True, "id": "patch/huawei/undo_bgp+ref", "jk": "patch+ref",
                         "ref_track": {"ref": [["bgp 64496", [["peer 10.0.0.1 as-number 1", []]]]],
                                       "def": [["interface MEth0/0/0", []], ["ip route-static ~", []]]}})
    for vendor in HW_PAIR_VENDORS:
        jobs.append({"kind": "patch", "vendor": vendor, "model": HW_MODELS[vendor], "sample": "<hand-written trust pair>",
                     "old": HW_PAIR["old"], "new": HW_PAIR["new"], "add_comments": False,
                     "id": "patch/%s/trust" % vendor, "jk": "patch"})
    for vendor in ORDER_VENDORS:
        s = corpus[PAIRS[vendor][0]]
        jobs.append({"kind": "order", "vendor": vendor, "model": s["model"], "sample": PAIRS[vendor][0], "new": s["new"],
                     "id": "order/%s" % vendor, "jk": "order"})
    # the same ordering job on a second model string of the vendor (vendors that ship only some of the optional rulebook
    # texts: a per-vendor shortcut in the provider shows on the SECOND model loaded in a process)
    for label, model, src in ORDER_SECOND_MODELS:
        tree = ROS_TREE if src == "routeros" else corpus[PAIRS[src][0]]["new"]
        jobs.append({"kind": "order", "vendor": label, "model": model, "sample": "<hand-written>" if src == "routeros" else PAIRS[src][0],
                     "new": tree, "id": "order/%s" % label.replace(" ", "-"), "jk": "order"})
    for host in ("dev-a", "dev-b"):
        jobs.append({"kind": "e2e", "vendor": "huawei", "model": "Huawei", "device": host, "id": "e2e/patch/%s" % host, "jk": "e2e-patch"})
    for host in ("dev-spine", "dev-leaf"):
        jobs.append({"kind": "e2e", "vendor": "nexus", "model": "Cisco Nexus 9508", "device": host, "fabric": "tags",
                     "id": "e2e/patch/%s" % host, "jk": "e2e-patch-tags"})
    for sj in SYNTH_JOBS:
        vendor, text = SYNTH[sj["text"]]
        j = {"kind": "synth", "vendor": vendor, "model": HW_MODELS[vendor], "rb_text": text, "old": sj["old"], "new": sj["new"],
             "add_comments": sj["add_comments"], "id": sj["id"], "jk": "synth:" + sj["logic"]}
        if sj.get("acl"):
            j["acl"] = SYNTH_ACL[sj["acl"]]
            j["jk"] += "+acl"
        if sj.get("filter_acl"):
            j["filter_acl"] = SYNTH_ACL[sj["filter_acl"]]
        jobs.append(j)
        if sj["id"] in PLAIN_SYNTH:
            jobs.append(dict(j, id=j["id"] + "/plain", jk=j["jk"] + "/plain-dict", plain=True))
    for pid_ in PLAIN_PATCH:
        j = next(x for x in jobs if x["id"] == pid_)
        jobs.append(dict(j, id=j["id"] + "/plain", jk=j["jk"] + "/plain-dict", plain=True))
    return jobs


def install_harness_logic():
    """annet resolves %logic=verif_harness.scribble to annet.rulebook.verif_harness.scribble (import_rulebook_function)"""
    import types as _types
    name = "annet.rulebook.verif_harness"
    if name in sys.modules:
        return
    mod = _types.ModuleType(name)

    def scribble(rule, key, diff, **_):
        from annet.annlib.rulebook import common
        rule["comment"] += ["!!scribbled!!"]              # a list attr, in place
        rule["context"]["seen"] = key                       # a nested dict
        rule.setdefault("provides", []).append("x")         # a new key
        rule["reverse"] = rule["reverse"] + " "            # re-assignment (as the shipped logics do)
        yield from common.default(rule, key, diff)
    mod.scribble = scribble
    sys.modules[name] = mod
    import annet.rulebook
    annet.rulebook.verif_harness = mod


def setup():
    global _JOBS, _JOB, _TEMPLATE, _TEMPLATE_TOTAL, _TEMPLATE_COLD
    env.setup()
    install_harness_logic()
    if _JOBS is not None:
        return
    statehash.selftest()
    _JOBS = build_jobs()
    _JOB = {j["id"]: j for j in _JOBS}
    assert len(_JOB) == len(_JOBS)
    s = statehash.global_fingerprint(REQUIRED_GLOBALS)
    _TEMPLATE, _TEMPLATE_TOTAL = dict(s.digests), s.total()
    _TEMPLATE_COLD = template_is_cold()


def template_is_cold():
    """the template has run nothing: every required lru cache is empty and no provider / registry instance exists"""
    import importlib
    for mod, name in REQUIRED_LRU:
        fn = getattr(importlib.import_module(mod), name, None)
        # (a cache that is no longer an lru_cache - a refactoring may keep it in a module-level dict - is part of the
        #  generic fingerprint of module globals; it has no cache_info to ask)
        if fn is not None and statehash._is_lru(fn) and fn.cache_info().currsize:
            return False
    from annet import rulebook
    from annet.vendors import registry_connector
    return rulebook.rulebook_provider_connector._cache is None and registry_connector._classes is None


# ---------------------------------------------------------------------------------------------------
# one job, executed in an edge (or replaying node) process
class RefA:     # classes used as RefTracker keys
    pass


class RefB:
    pass


def _diff_rows(diff):
    return [[str(op), row, _diff_rows(children)] for (op, row, children, _m) in diff]


def _snapshot(parts):
    s = statehash.Session()
    return {name: s.component(name, obj) for name, obj in parts}


def _acl_scratch(acls):
    """digest of the scratch 'match' fields only (informational)"""
    found = []

    def rec(rules):
        for grp in ("local", "global"):
            for raw, rule in (rules.get(grp) or {}).items():
                found.append((raw, repr(rule["attrs"].get("match", "<unset>"))))
                if rule.get("children"):
                    rec(rule["children"])
    for a in acls:
        if a is not None:
            rec(a)
    return statehash.digest_of(found)


def _warm(job, hw_model):
    """names of the compiled objects this job will use that exist already (measured before the job runs)"""
    from annet import rulebook
    from annet.annlib.rbparser import acl as racl
    from annet.rulebook import patching as rpat
    out = []
    prov = rulebook.rulebook_provider_connector._cache
    if job["kind"] != "synth":
        if prov is not None and any(getattr(h, "model", None) == hw_model for h in prov._rulebook_cache):
            out.append("provider-rulebook")
    else:
        keys = [k for k, _ in statehash.lru_items(rpat.compile_patching_text)]
        if any(isinstance(k, tuple) and k[0] == job["rb_text"] for k in keys):
            out.append("patching-text")
    for fld in ("acl", "filter_acl"):
        if job.get(fld):
            keys = [k for k, _ in statehash.lru_items(racl.compile_acl_text)]
            if any(isinstance(k, tuple) and k[0] == job[fld] for k in keys) and "acl" not in out:
                out.append("acl")
    return out


def _to_plain(forest):
    """the tree as nested plain dicts (what json.loads or a generator written with {} hands to annet)"""
    return {row: _to_plain(ch) for row, ch in forest}


E2E_FABRIC = [
    {"hostname": "dev-a", "model": "Huawei",
     "old": [["snmp-agent community read x", []], ["ntp-service unicast-server 1.1.1.1", []], ["sysname a", []]],
     "gens": [([["sysname a", []]], False)], "filter_acl": "snmp-agent ~\n"},
    {"hostname": "dev-b", "model": "Huawei",
     "old": [["snmp-agent community read y", []], ["ntp-service unicast-server 2.2.2.2", []], ["sysname b", []]],
     "gens": [([["sysname b", []]], False)], "filter_acl": "ntp-service ~\n"},
]
# two devices of ONE hardware model that differ in a tag only (the implicit defaults of a Nexus 9500 depend on the tag
# spine1): what is computed per hardware model must not be reused for another device of that model
E2E_FABRIC_TAGS = [
    {"hostname": "dev-spine", "model": "Cisco Nexus 9508", "tags": ["spine1"],
     "old": [["interface port-channel10", []], ["interface mgmt0", []]],
     "gens": [([["interface port-channel10", [["no shutdown", []]]], ["interface mgmt0", [["no shutdown", []]]]], False)]},
    {"hostname": "dev-leaf", "model": "Cisco Nexus 9508", "tags": [],
     "old": [["interface port-channel10", []], ["interface mgmt0", []]],
     "gens": [([["interface port-channel10", [["no shutdown", []]]], ["interface mgmt0", [["no shutdown", []]]]], False)]},
]
_FABRIC = []
_FABRICS = {}


def run_e2e_job(job):
    from mc import e2e
    which = job.get("fabric", "main")
    if which not in _FABRICS:
        # lives as long as the process, like a pool worker's arguments
        _FABRICS[which] = e2e.Fabric(E2E_FABRIC if which == "main" else E2E_FABRIC_TAGS)
    fab = _FABRICS[which]
    dev_id = next(i for i, d in fab.devs.items() if d.hostname == job["device"])
    res = {"exception": None}
    try:
        out = fab.worker_call(dev_id)
        res["cmd_paths"] = [[label, text] for label, text, _ in out]
    except Exception as e:  # noqa
        res["exception"] = "%s: %s" % (type(e).__name__, str(e)[:300])
    s = statehash.global_fingerprint(REQUIRED_GLOBALS)
    changed = {k: v for k, v in s.digests.items() if _TEMPLATE.get(k) != v}
    return {"job": job["id"], "res": res, "before": {}, "after": {}, "scratch": [None, None], "warm": [], "fp": s.total(),
            "changed": changed, "gone": [k for k in _TEMPLATE if k not in s.digests], "opaque": sorted(s.opaque),
            "ncmds": len(res.get("cmd_paths") or [])}


def run_job(job):
    """-> report (JSON-able).  Only annet entry points are called; the harness adds snapshots and the fingerprint."""
    if job["kind"] == "e2e":
        return run_e2e_job(job)
    from annet import api, deploy, patching, rulebook
    from annet.annlib.netdev.views.hardware import HardwareView
    from annet.annlib.rbparser.acl import compile_acl_text
    from annet.annlib.rbparser.ordering import compile_ordering_text
    from annet.reference import RefTracker
    from annet.rulebook.deploying import compile_deploying_text
    from annet.rulebook.patching import compile_patching_text
    from annet.vendors import registry_connector

    warm = _warm(job, job["model"])
    res = {"exception": None}
    snap_b = snap_a = {}
    scratch_b = scratch_a = None
    try:
        hw = HardwareView(job["model"], None)
        vendor = hw.vendor
        device = types.SimpleNamespace(hw=hw, hostname="dev", fqdn="dev.example", id=1, breed=vendor, neighbours_ids=[])
        synthetic = job["kind"] == "synth"
        if synthetic:
            rb = {"patching": compile_patching_text(job["rb_text"], vendor),
                  "ordering": compile_ordering_text("", vendor),
                  "deploying": compile_deploying_text("", vendor)}
        else:
            rb = rulebook.get_rulebook(hw)
        mk = _to_plain if job.get("plain") else env.to_odict
        old = mk(job["old"]) if "old" in job else None
        new = mk(job["new"])
        acl = compile_acl_text(job["acl"], vendor) if job.get("acl") else None
        facl = compile_acl_text(job["filter_acl"], vendor) if job.get("filter_acl") else None
        rt = None
        if job.get("ref_track"):
            rt = RefTracker()
            rt.add(RefA, RefB)
            rt.config(RefA, env.to_odict(job["ref_track"]["ref"]))
            rt.config(RefB, env.to_odict(job["ref_track"]["def"]))
        parts = [("old", old), ("new", new), ("rb.patching", rb["patching"]), ("rb.ordering", rb["ordering"]),
                 ("rb.deploying", rb["deploying"])]
        acl_parts = [("acl", acl), ("filter_acl", facl)]
        snap_b = _snapshot(parts + acl_parts)
        scratch_b = _acl_scratch([acl, facl])
        try:
            if job["kind"] == "order":
                ordered = patching.Orderer(rb["ordering"], vendor).order_config(new)
                res["ordered"] = env.tree_to_list(ordered)
                ordered2 = patching.Orderer.from_hw(hw).order_config(new)
                res["ordered_from_hw"] = env.tree_to_list(ordered2)
            else:
                diff, patch = env.diff_and_patch(device, old, new, acl, facl, job["add_comments"], ref_track=rt,
                                                  rb=(rb if synthetic else None))
                res["diff"] = _diff_rows(diff)
                res["diff_attrs"] = statehash.digest_of(diff)
                res["patch"] = json.loads(json.dumps(patch.to_json(), default=repr))
                fmt = registry_connector.get().match(hw).make_formatter(indent="")
                cmd_paths = fmt.cmd_paths(patch)
                res["cmd_paths"] = [[list(map(str, p)), c] for p, c in cmd_paths.items()]
                if not synthetic:
                    cmds = deploy.apply_deploy_rulebook(hw, cmd_paths)
                    res["deploy"] = [[c.level, str(c), c.timeout] for c in cmds]
        except Exception as e:  # noqa  (an exception is an outcome; it has to be the same one under every history)
            res["exception"] = "%s: %s" % (type(e).__name__, str(e)[:300])
        snap_a = _snapshot(parts + acl_parts)
        scratch_a = _acl_scratch([acl, facl])
    except Exception:  # noqa  harness-level failure around the call (set-up of the job itself)
        res["exception"] = "SETUP " + traceback.format_exc()[-600:]
    s = statehash.global_fingerprint(REQUIRED_GLOBALS)
    changed = {k: v for k, v in s.digests.items() if _TEMPLATE.get(k) != v}
    gone = [k for k in _TEMPLATE if k not in s.digests]
    return {"job": job["id"], "res": res, "before": snap_b, "after": snap_a, "scratch": [scratch_b, scratch_a],
            "warm": warm, "fp": s.total(), "changed": changed, "gone": gone, "opaque": sorted(s.opaque),
            "ncmds": len(res.get("cmd_paths") or res.get("ordered") or [])}


def node_main(history, nexts, scan=False):
    """body of a node process: replay the history (reports kept), then one forked edge process per next job"""
    replayed = [run_job(j) for j in history]
    edges = []
    for j in nexts:
        try:
            edges.append(fork_call(run_job, j))
        except ChildFailed as e:
            edges.append({"job": j["id"], "child_failed": str(e)[-1500:]})
    out = {"replayed": replayed, "edges": edges}
    if scan:
        out["scan"] = completeness_scan()
    return out


# ---------------------------------------------------------------------------------------------------
# judging
RESULT_KEYS = ["exception", "diff", "cmd_paths", "deploy", "patch", "ordered", "ordered_from_hw", "diff_attrs"]
SNAP_REQUIRED = ["old", "new", "rb.patching", "rb.ordering", "rb.deploying"]


def _short(x, n=500):
    s = json.dumps(x, default=repr)
    return s if len(s) <= n else s[:n] + "...(%d chars)" % len(s)


def _case(hist_ids, jid, **kw):
    c = {"history": list(hist_ids), "job": jid}
    c.update(kw)
    c["jobs"] = {i: _JOB[i] for i in list(hist_ids) + ([jid] if jid else []) + list(kw.get("other_history") or [])}
    return c


def judge_edge(hist_ids, rep, fresh, ctx, node_fp=None, chain=False):
    """all checks on one edge report; hist_ids = ids of the jobs that ran before in the same process"""
    job = _JOB[rep["job"]]
    after = "<chain of all jobs>" if chain else (_JOB[hist_ids[-1]]["jk"] if hist_ids else "<fresh>")
    case = _case(hist_ids, rep["job"])
    if "child_failed" in rep:
        ctx.violation({"kind": "harness-error", "job": job["jk"], "where": "edge process died"}, case, rep["child_failed"])
        return
    res = rep["res"]
    if (res.get("exception") or "").startswith("SETUP "):
        ctx.violation({"kind": "harness-error", "job": job["jk"], "where": "job set-up"}, case, res["exception"])
        return
    # (1) inputs and compiled rulebooks unchanged by the call
    modified = [k for k in SNAP_REQUIRED if rep["before"].get(k) != rep["after"].get(k)]
    fresh_modified = None
    if fresh is not None and "before" in fresh:
        fresh_modified = [k for k in SNAP_REQUIRED if fresh["before"].get(k) != fresh["after"].get(k)]
    for k in modified:
        if fresh_modified is not None and k in fresh_modified:
            ctx.extra["input_modified_as_in_fresh_run"] += 1       # reported once, on the fresh edge
            continue
        ctx.violation({"kind": "modified-by-call", "job": job["jk"], "observable": k, "after": after}, case,
                      "deep snapshot of %s before the call %s != after %s" % (k, rep["before"].get(k), rep["after"].get(k)))
    # (2) the result equals the result in a fresh process
    if fresh is not None:
        for k in RESULT_KEYS:
            if res.get(k) != fresh["res"].get(k):
                ctx.violation({"kind": "result-depends-on-history", "job": job["jk"], "observable": k,
                               "after": after}, case,
                              "after history %s: %s = %s ; in a fresh process: %s" %
                              (hist_ids, k, _short(res.get(k)), _short(fresh["res"].get(k))))
                break
    if rep["gone"]:
        ctx.violation({"kind": "harness-error", "where": "template component disappeared"}, case, str(rep["gone"])[:500])
    # outcome classification
    label = "%s|%s|result:%s|state:%s|acl-scratch:%s" % (
        job["kind"], ("reuse:" + "+".join(rep["warm"])) if rep["warm"] else "cold",
        "exception" if res.get("exception") else ("cmds" if rep["ncmds"] else "empty"),
        "?" if node_fp is None else ("same" if node_fp == rep["fp"] else "changed"),
        "n/a" if not (job.get("acl") or job.get("filter_acl")) else
        ("rewritten" if rep["scratch"][0] != rep["scratch"][1] else "same"))
    ctx.outcomes[label] += 1
    if rep["warm"]:
        ctx.nontrivial += 1
    if rep["before"].get("acl") != rep["after"].get("acl") or rep["before"].get("filter_acl") != rep["after"].get("filter_acl"):
        ctx.extra["acl_changed_outside_match_field"] += 1       # not required by the property; informational


def record_edge(ctx, hist_ids, node_fp, rep):
    if "fp" in rep:
        ctx.extra["edge:%s|%s|%s|%s" % (",".join(hist_ids), rep["job"], node_fp, rep["fp"])] += 1


def run_unit(unit, ctx):
    """unit = {"h": [job ids], "next": [job ids], "fp": fingerprint recorded for h or None, "level", "rep"}"""
    if time.time() > ctx.deadline:
        ctx.capped = True
        ctx.notes.append("unit %s skipped: budget exhausted" % (unit["h"],))
        return
    hist = [_JOB[i] for i in unit["h"]]
    try:
        out = fork_call(node_main, hist, [_JOB[i] for i in unit["next"]], bool(unit.get("scan")))
    except ChildFailed as e:
        ctx.violation({"kind": "harness-error", "where": "node process"}, _case(unit["h"], None), str(e)[-1500:])
        return
    ctx.evals += len(out["replayed"])
    node_fp = out["replayed"][-1]["fp"] if out["replayed"] else _TEMPLATE_TOTAL
    if unit.get("fp") and node_fp != unit["fp"]:
        ctx.violation({"kind": "state-not-reproducible", "after": _JOB[unit["h"][-1]]["jk"]},
                      _case(unit["h"][:-1], unit["h"][-1]),
                      "replaying %s gave fingerprint %s, the edge that discovered it reported %s" % (unit["h"], node_fp, unit["fp"]))
    if unit.get("chain"):
        # every replayed job is itself an edge after the prefix before it
        for i, rep in enumerate(out["replayed"]):
            ctx.transitions += 1
            prev_fp = out["replayed"][i - 1]["fp"] if i else _TEMPLATE_TOTAL
            judge_edge(unit["h"][:i], rep, _FRESH.get(rep["job"]), ctx, node_fp=prev_fp, chain=True)
            ctx.extra["fp:" + rep["fp"]] += 1
        ctx.extra["chain_edges"] += len(out["replayed"])
        if "scan" in out:
            report_scan(out["scan"], unit, ctx)
        return
    for rep in out["edges"]:
        ctx.evals += 1
        ctx.transitions += 1
        level1 = not unit["h"]
        fresh = None if level1 else _FRESH.get(rep["job"])
        judge_edge(unit["h"], rep, fresh, ctx, node_fp=node_fp)
        record_edge(ctx, unit["h"], node_fp, rep)
        if len(ctx.samples) < 1 and unit["h"] and rep.get("warm") and rep["res"].get("cmd_paths"):
            ctx.sample({"history": unit["h"], "job": rep["job"], "reused": rep["warm"],
                        "commands": [p[-1] for p, _c in rep["res"]["cmd_paths"]][:5],
                        "state_components_changed_vs_template": len(rep["changed"]),
                        "fingerprint": rep["fp"]})
    ctx.extra["level%d_edges" % unit["level"]] += len(out["edges"])
    if unit.get("keep"):
        ctx.notes.append(json.dumps({"keep": out["edges"]}))


def run_block(block, ctx):
    for unit in block["units"]:
        run_unit(unit, ctx)


# ---------------------------------------------------------------------------------------------------
# coordinator: levels 1 .. d-1
def _mini_worker(arg):
    idx, unit, deadline, tier = arg
    ctx = core.Ctx(deadline, tier, 0)
    reports = []
    try:
        if unit["level"] == 1:
            # level 1 builds the fresh table: the reports themselves go back to the coordinator
            hist = []
            out = fork_call(node_main, hist, [_JOB[i] for i in unit["next"]])
            for rep in out["edges"]:
                ctx.evals += 1
                ctx.transitions += 1
                judge_edge([], rep, None, ctx, node_fp=_TEMPLATE_TOTAL)
                record_edge(ctx, [], _TEMPLATE_TOTAL, rep)
                reports.append(rep)
            ctx.extra["level1_edges"] += len(out["edges"])
        else:
            run_unit(unit, ctx)
    except Exception:  # noqa
        ctx.violation({"kind": "harness-error", "where": traceback.format_exc().strip().splitlines()[-1][:200]},
                      {"history": unit["h"], "job": None}, traceback.format_exc())
    return idx, ctx.result(), reports


def _coordinate(units, tier, deadline):
    results = {}
    n = min(core.NPROC, max(1, len(units)))
    mp = multiprocessing.get_context("fork")
    with mp.Pool(n) as pool:
        for idx, res, reports in pool.imap_unordered(_mini_worker, [(i, u, deadline, tier) for i, u in enumerate(units)],
                                                     chunksize=1):
            results[idx] = (res, reports)
    out = []
    for idx in sorted(results):
        res, reports = results[idx]
        _PRE.append(res)
        out.append((units[idx], res, reports))
    return out


def _chunks(ids, n):
    return [ids[i:i + n] for i in range(0, len(ids), n)]


def _edges_of(res):
    """[(history ids, job id, node fp, fp after)] recorded in a ctx result"""
    out = []
    for k in res["extra"]:
        if k.startswith("edge:"):
            h, j, nfp, fp = k[5:].split("|")
            out.append(((h.split(",") if h else []), j, nfp, fp))
    return out


def blocks(tier, seed):
    d = DEPTH[tier]
    ids = [j["id"] for j in _JOBS]
    deadline = time.time() + float(os.environ.get("VERIF_BUDGET", BUDGET[tier]))
    _PRE.clear()
    _NODES.clear()
    _FRESH.clear()
    _NODES[_TEMPLATE_TOTAL] = []
    # ---- level 1, twice
    units = [{"h": [], "next": c, "fp": None, "level": 1, "rep": rep} for rep in (0, 1) for c in _chunks(ids, 3)]
    second = {}
    for unit, res, reports in _coordinate(units, tier, deadline):
        for rep in reports:
            if "child_failed" in rep:
                continue
            (second if unit["rep"] else _FRESH)[rep["job"]] = rep
    nd = core.Ctx(deadline, tier, 0)
    for jid in ids:
        a, b = _FRESH.get(jid), second.get(jid)
        if a is None or b is None:
            if any(r["capped"] for r in _PRE):
                continue            # budget exhausted during level 1: reported as non-exhaustive, not as a violation
            nd.violation({"kind": "harness-error", "where": "fresh run missing", "job": _JOB[jid]["jk"]},
                         _case([], jid), "")
            continue
        for k in RESULT_KEYS + ["fp"]:
            va, vb = (a["res"].get(k), b["res"].get(k)) if k != "fp" else (a["fp"], b["fp"])
            if va != vb:
                nd.violation({"kind": "fresh-runs-disagree", "job": _JOB[jid]["jk"], "observable": k},
                             _case([], jid), "%s vs %s" % (_short(va), _short(vb)))
                break
    _PRE.append(nd.result())
    frontier = []       # [(history ids, fp)] of the last completed level, in canonical order
    for jid in ids:
        if jid in _FRESH:
            frontier.append(([jid], _FRESH[jid]["fp"]))
            _NODES.setdefault(_FRESH[jid]["fp"], [jid])
    level = 2
    expanded = {_TEMPLATE_TOTAL}
    # ---- intermediate levels run by the coordinator (level 2 when d == 3): no pruning up to level 2
    while level < d:
        units = []
        for h, fp in frontier:
            expanded.add(fp)
            for c in _chunks(ids, EDGES_PER_UNIT):
                units.append({"h": h, "next": c, "fp": fp, "level": level})
        nxt = []
        for unit, res, _ in _coordinate(units, tier, deadline):
            for h, j, _nfp, fp in sorted(_edges_of(res), key=lambda e: ids.index(e[1])):
                nxt.append((h + [j], fp))
        frontier = nxt
        level += 1
    # ---- last level: driver blocks
    _PLAN["histories%d" % (level - 1)] = len(frontier)
    out = []
    todo = []
    seen_here = set()
    for h, fp in frontier:
        if level >= 3:
            if fp in expanded or fp in seen_here:
                continue           # closure pruning: a state with this fingerprint is expanded elsewhere
            seen_here.add(fp)
        _NODES.setdefault(fp, h)
        todo.append((h, fp))
    _PLAN["expanded%d" % level] = len(todo)
    _PLAN["pruned"] = len(frontier) - len(todo)
    per_unit = EDGES_PER_UNIT if level == 2 else len(ids)
    units = [{"h": h, "next": c, "fp": fp, "level": level} for h, fp in todo for c in _chunks(ids, per_unit)]
    group = 1 if level == 2 else 3
    for i in range(0, len(units), group):
        out.append({"units": units[i:i + group]})
    # the two chains (all jobs in one process), the second one also runs the completeness scan at its end
    out.append({"units": [{"h": ids, "next": [], "fp": None, "level": 0, "chain": True}]})
    out.append({"units": [{"h": ids[::-1], "next": [], "fp": None, "level": 0, "chain": True, "scan": True}]})
    if tier == "quick" and seed:
        # one extra depth-3 node chosen by the seed (widens successive quick runs; not part of the stated bound)
        a, b = ids[seed % len(ids)], ids[(seed // len(ids)) % len(ids)]
        out.append({"units": [{"h": [a, b], "next": ids, "fp": None, "level": 3}]})
    return out


# ---------------------------------------------------------------------------------------------------
# completeness of the fingerprint
def completeness_scan():
    """executed at the end of a process that has run every job: compare the static scan with what is walked"""
    import annet
    root = os.path.dirname(os.path.dirname(os.path.abspath(annet.__file__)))
    findings = statehash.scan_tree(root)
    s = statehash.global_fingerprint(REQUIRED_GLOBALS)
    comps = set(s.digests)
    loaded = set(statehash.annet_modules())
    out = {"counts": collections.Counter(), "missing": [], "root": root}
    for f in findings:
        kind, mod, name, scope = f["kind"], f["module"], f["name"], f["scope"]
        if mod not in loaded:
            out["counts"]["%s in module never loaded by any job" % kind] += 1
            continue
        m = sys.modules[mod]
        if scope.startswith("local:"):
            out["counts"]["%s local to a function call (no state between calls)" % kind] += 1
            continue
        if kind == "lru" and scope == "module":
            fn = getattr(m, name, None)
            # covered = this very cache object is a component of the fingerprint (under whatever module name: a
            # reorganisation may define it in one module and re-export it from another)
            ok = fn is not None and statehash._is_lru(fn) and id(fn) in s.owner
            if ok:
                try:
                    statehash.lru_items(fn)
                except statehash.FingerprintError as e:
                    ok = False
                    f = dict(f, error=str(e))
        elif scope == "module":
            ok = ("%s:%s" % (mod, name)) in comps
        elif scope.startswith("class:"):
            cls = getattr(m, scope[6:], None)
            # the class is a global of its module, and classes of annet modules are walked with their attributes
            ok = cls is not None and ("%s:%s" % (mod, scope[6:])) in comps and id(cls) in s.owner
            if kind == "instance-cache" and ok:
                r = _instance_reached(s, cls, name)
                if r is None:
                    out["counts"]["instance-cache of a class with no live instance"] += 1
                    continue
                ok = r
        else:
            ok = False
        out["counts"]["%s covered" % kind if ok else "%s NOT covered" % kind] += 1
        if not ok:
            out["missing"].append(f)
    import importlib
    for mod, name in REQUIRED_LRU:
        comp = "lru:%s.%s" % (mod, name)
        fn = getattr(importlib.import_module(mod), name, None)
        if fn is None or not statehash._is_lru(fn):
            # the function no longer carries an lru_cache: whatever holds its results now (a module-level dict, an
            # attribute) is covered by the generic walk over the globals of every loaded annet module - not a gap
            out.setdefault("notes", []).append("%s.%s is not an lru_cache in this tree; its state is covered as module globals" % (mod, name))
        elif id(fn) not in s.owner:
            out["missing"].append({"module": mod, "name": name, "kind": "required-lru", "scope": "module"})
        elif fn.cache_info().currsize == 0 and name != "compile_ref_acl_text":
            out["missing"].append({"module": mod, "name": name, "kind": "required-lru-never-filled", "scope": "module"})
    for g in REQUIRED_GLOBALS:
        if "root:" + g not in comps:
            out["missing"].append({"module": g, "name": "", "kind": "required-global", "scope": "module"})
    from annet import rulebook
    prov = rulebook.rulebook_provider_connector._cache
    for a in PROVIDER_CACHES:
        if prov is None or not getattr(prov, a, None) or id(getattr(prov, a)) not in s.owner:
            out["missing"].append({"module": "annet.rulebook", "name": a, "kind": "provider-cache", "scope": "instance"})
    out["counts"] = dict(out["counts"])
    out["components"] = len(comps)
    out["modules_loaded"] = len(loaded)
    out["opaque"] = sorted(s.opaque)
    out["changed_components"] = sorted(k for k, v in s.digests.items() if _TEMPLATE.get(k) != v and
                                       k.startswith(("lru:", "root:")))
    return out


def _instance_reached(session, cls, attr):
    """True if some walked instance of cls has attribute attr and that container was walked; None if no instance lives"""
    hit = None
    for o in session.keep:
        if type(o) is cls:
            hit = False
            v = getattr(o, "__dict__", {}).get(attr)
            if v is not None and id(v) in session.owner:
                return True
    return hit


def report_scan(scan, unit, ctx):
    for k, v in scan["counts"].items():
        ctx.extra["scan: " + k] += v
    ctx.extra["scan: fingerprint components"] = scan["components"]
    ctx.extra["scan: annet modules loaded after all jobs"] = scan["modules_loaded"]
    ctx.extra["scan: opaque (non-annet) object types met in the state"] = len(scan["opaque"])
    ctx.notes.append("opaque types in state: %s" % ", ".join(scan["opaque"]))
    for k in scan["changed_components"]:
        ctx.extra["state component changed by the jobs: " + k] += 1
    for n in scan.get("notes", []):
        ctx.notes.append(n)
    # a cache or container the static scan sees and the fingerprint does not reach says something about the HARNESS (its closure
    # argument is weaker than claimed), nothing about the property: results are compared edge by edge whatever the
    # fingerprint covers.  It is noted and the run is marked not exhaustive - never reported as a finding.
    for f in scan["missing"]:
        ctx.capped = True
        ctx.extra["scan: state the fingerprint does not reach (%s)" % f["kind"]] += 1
        if len(ctx.notes) < 6:
            ctx.notes.append("fingerprint does not reach %s %s.%s" % (f["kind"], f["module"], f["name"]))


# ---------------------------------------------------------------------------------------------------
def finish(merged, tier):
    # results of the units the coordinator ran itself
    for res in _PRE:
        for k in ("evals", "states", "transitions", "nontrivial"):
            merged[k] += res[k]
        merged["outcomes"].update(res["outcomes"])
        merged["extra"].update(res["extra"])
        if res["capped"]:
            merged["capped"] = True
        merged["notes"].extend(res["notes"])
        for k, ent in res["viol"].items():
            m = merged["viol"].setdefault(k, {"sig": ent["sig"], "count": 0, "cases": []})
            m["count"] += ent["count"]
            m["cases"].extend(ent["cases"])
    extra = merged["extra"]
    edges = []
    fps = {_TEMPLATE_TOTAL}
    for k in [k for k in extra if k.startswith("edge:") or k.startswith("fp:")]:
        if k.startswith("fp:"):
            fps.add(k[3:])
        else:
            h, j, nfp, fp = k[5:].split("|")
            edges.append(((h.split(",") if h else []), j, nfp, fp))
            fps.add(fp)
        del extra[k]
    # congruence: equal node fingerprint + same job => equal next fingerprint
    by = collections.defaultdict(dict)
    mult = collections.Counter()
    for h, j, nfp, fp in sorted(edges):
        by[(nfp, j)].setdefault(fp, h)
        mult[(nfp, j)] += 1
    groups = 0
    for (nfp, j), nxt in sorted(by.items()):
        if mult[(nfp, j)] > 1:
            groups += 1
        if len(nxt) > 1:
            (fa, ha), (fb, hb) = sorted(nxt.items())[:2]
            # the same fingerprint followed by the same job gave two different fingerprints: some state the job depends on (or
            # writes) is outside the fingerprint, or is not a function of the history (a counter, a timestamp).  That weakens
            # the harness's pruning argument, it is not by itself a difference in any result: noted, run not exhaustive.
            merged["capped"] = True
            merged["extra"]["fingerprint_not_congruent"] = merged["extra"].get("fingerprint_not_congruent", 0) + 1
            if len(merged["notes"]) < 8:
                merged["notes"].append("fingerprint not congruent for job %s: histories %s and %s reach fingerprint %s, then %s / %s"
                                       % (_JOB[j]["jk"], ha, hb, nfp, fa, fb))
    expanded = {e[2] for e in edges}
    extra["congruence_groups_checked"] = groups
    extra["states_expanded"] = len(expanded)
    extra["states_discovered_not_expanded(frontier)"] = len(fps - expanded)
    extra["histories_pruned_as_duplicate_states"] = _PLAN.get("pruned", 0)
    extra["template_cold"] = int(bool(_TEMPLATE_COLD))
    extra["jobs"] = len(_JOBS)
    merged["states"] = len(fps)
    if not _TEMPLATE_COLD:
        merged["notes"].append("WARNING: the template process was not cold (a cache was filled before the first fork)")
    if len(fps - expanded):
        merged["notes"].append("reachable set not closed at this depth: %d discovered states were not expanded; the "
                               "statement is for histories up to the stated length" % len(fps - expanded))
    else:
        merged["notes"].append("reachable state set closed: the statement holds for histories of any length over J")
    merged["samples"].append({"jobs": [j["id"] for j in _JOBS]})


# ---------------------------------------------------------------------------------------------------
def replay(case):
    """re-run one recorded case: the job fresh (twice) and after the recorded history, no explorer"""
    out = []

    class C:       # minimal ctx
        extra = collections.Counter()
        outcomes = collections.Counter()
        nontrivial = 0

        @staticmethod
        def violation(sig, c, detail=""):
            out.append((sig, detail))
    for i, j in (case.get("jobs") or {}).items():
        _JOB[i] = j               # the recorded descriptors win over the module's table
    if case.get("scan"):
        res = fork_call(node_main, [_JOB[i] for i in case["history"]], [], True)
        report_scan(res["scan"], {"h": case["history"]}, C)
        return out
    hist = case["history"]
    jid = case["job"]
    f1 = fork_call(node_main, [], [_JOB[jid]])["edges"][0]
    f2 = fork_call(node_main, [], [_JOB[jid]])["edges"][0]
    if "child_failed" in f1 or "child_failed" in f2:
        return [({"kind": "harness-error", "where": "edge process died"}, str(f1)[:500])]
    for k in RESULT_KEYS + ["fp"]:
        va, vb = (f1["res"].get(k), f2["res"].get(k)) if k != "fp" else (f1["fp"], f2["fp"])
        if va != vb:
            out.append(({"kind": "fresh-runs-disagree", "job": _JOB[jid]["jk"], "observable": k}, "%s vs %s" % (_short(va), _short(vb))))
            break
    judge_edge([], f1, None, C)
    if hist:
        r = fork_call(node_main, [_JOB[i] for i in hist], [_JOB[jid]])
        r2 = fork_call(node_main, [_JOB[i] for i in hist], [_JOB[jid]])
        if r["edges"][0].get("fp") != r2["edges"][0].get("fp"):
            out.append(({"kind": "state-not-reproducible", "after": _JOB[jid]["jk"]},
                        "%s vs %s" % (r["edges"][0].get("fp"), r2["edges"][0].get("fp"))))
        judge_edge(hist, r["edges"][0], f1, C)
        if case.get("other_history") is not None:
            o = fork_call(node_main, [_JOB[i] for i in case["other_history"]], [_JOB[jid]])
            na = r["replayed"][-1]["fp"]
            nb = o["replayed"][-1]["fp"] if o["replayed"] else _TEMPLATE_TOTAL
            if na == nb and r["edges"][0].get("fp") != o["edges"][0].get("fp"):
                out.append(({"kind": "fingerprint-not-congruent", "job": _JOB[jid]["jk"]},
                            "same node fingerprint %s, next fingerprints %s / %s" % (na, r["edges"][0].get("fp"), o["edges"][0].get("fp"))))
    return out
