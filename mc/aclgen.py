"""Canonical enumeration of ACL texts A(k,d) inside the unambiguous domain of mc/ref/acl.py (simplest first)."""
from __future__ import annotations

import itertools

from mc.ref.acl import ARule

TOP_HEADS = ["a", "b", "interface"]
CHILD_HEADS = ["c", "d"]
SHAPES = ["{w}", "{w} *", "{w} ~"]
FLAGS = [{}, {"cant_delete": True}, {"cant_delete": False}]
# regexp placeholders used by overlapping (not nested) rules: a word both regexps accept, then a word only this one accepts
REGEX_WORDS = {"*/1.*/": ("12", "13"), "*/.*2/": ("12", "32")}


def leafs(heads, with_global=True):
    out = []
    for w in heads:
        for s in SHAPES:
            for f in FLAGS:
                out.append(lambda w=w, s=s, f=f: ARule(s.format(w=w), **f))
            if with_global:
                out.append(lambda w=w, s=s: ARule(s.format(w=w), glob=True))
    return out


def acls(tier):
    """-> list of (name, factory) where factory() builds a fresh [ARule]"""
    out = []

    def add(name, fac):
        out.append((name, fac))
    # single top rule, leaf
    for i, mk in enumerate(leafs(["a", "interface"])):
        add("L1-%d" % i, lambda mk=mk: [mk()])
    # catch-alls
    add("catchall-global", lambda: [ARule("~", glob=True)])
    add("catchall-global-cd", lambda: [ARule("~", glob=True, cant_delete=True)])
    add("catchall-local", lambda: [ARule("~")])
    # block with one child of every kind
    for i, mk in enumerate(leafs(["c"])):
        for bf in ({}, {"cant_delete": True}):
            add("B1-%d-%s" % (i, "cd" if bf else "n"), lambda mk=mk, bf=bf: [ARule("a *", [mk()], **bf)])
    # block with catch-all children
    add("B-catch-global", lambda: [ARule("a *", [ARule("~", glob=True)])])
    add("B-catch-local", lambda: [ARule("a *", [ARule("~")])])
    add("B-catch-local+c", lambda: [ARule("a *", [ARule("c *", [ARule("d")]), ARule("~")])])
    add("B-global-specific", lambda: [ARule("a *", [ARule("d", glob=True), ARule("c *", [ARule("c")])])])
    add("iface-default", lambda: [ARule("interface *", [ARule("c *"), ARule("d")])])
    add("iface-cd0", lambda: [ARule("interface *", [ARule("c *")], cant_delete=False)])
    add("top-global+block", lambda: [ARule("d", glob=True), ARule("a *", [ARule("c *")])])
    add("top-catchall+block", lambda: [ARule("a *", [ARule("c *")]), ARule("~", glob=True)])
    add("two-tops", lambda: [ARule("a *", [ARule("c")]), ARule("b ~")])
    add("depth3", lambda: [ARule("a *", [ARule("c *", [ARule("d *")])])])
    add("depth3-global-mid", lambda: [ARule("a *", [ARule("c *", [ARule("~", glob=True)])])])
    # several rules match one row: a specific local rule, a specific %global rule and a local catch-all; the children
    # of ALL matching local rules apply (the specific local rule shares most symbols with the row, so it governs)
    add("overlap-local-global-local", lambda: [ARule("a *", [ARule("c 1 ~", [ARule("d")]), ARule("c *", glob=True),
                                                              ARule("~", [ARule("e")])])])
    add("overlap-local-local", lambda: [ARule("a *", [ARule("c 1 ~", [ARule("d")]), ARule("~", [ARule("e")])])])
    add("overlap-top", lambda: [ARule("c 1 ~", [ARule("d")]), ARule("c *", glob=True), ARule("~", [ARule("e"), ARule("d")])])
    # a specific block rule next to a general one for the same rows: the block 'a 2' is matched by both, so the children of
    # both apply inside it (here: a %global catch-all reaches below 'c' inside 'a 2' only, never inside 'a 1')
    add("overlap-specific-nested-global", lambda: [ARule("a 2", [ARule("~", glob=True)]), ARule("a *", [ARule("c", [ARule("d")])])])
    add("overlap-specific-nested-global-2", lambda: [ARule("a 2", [ARule("d", glob=True)]), ARule("a *", [ARule("c *", [ARule("c")])])])
    # the same child row under a specific and under a general block rule with different %cant_delete: inside the block both
    # rules match ('a 2') the child is deletable (not every matching rule protects it); inside a block only one matches
    # ('a 1') that rule's own flag decides - whatever was filtered before with the same compiled ACL
    # two block rules that overlap without one containing the other (regexp placeholders): block 'a 12' fits both, 'a 13' only
    # the first; the same child row under both with different flags
    add("overlap-specific-crossing-child-cd-first", lambda: [ARule("a */1.*/", [ARule("c *", cant_delete=True)]), ARule("a */.*2/", [ARule("c *")])])
    add("overlap-specific-crossing-child-cd-second", lambda: [ARule("a */.*2/", [ARule("c *")]), ARule("a */1.*/", [ARule("c *", cant_delete=True)])])
    add("overlap-specific-crossing-child-cd-gen", lambda: [ARule("a */1.*/", [ARule("c *", cant_delete=True)]), ARule("a */.*2/", [ARule("c *", cant_delete=False), ARule("d")])])
    add("overlap-specific-shared-child-cd-general", lambda: [ARule("a 2", [ARule("c *")]), ARule("a *", [ARule("c *", cant_delete=True)])])
    add("overlap-specific-shared-child-cd-specific", lambda: [ARule("a 2", [ARule("c *", cant_delete=True)]), ARule("a *", [ARule("c *")])])
    add("overlap-specific-shared-child-cd-both", lambda: [ARule("a 2", [ARule("c *", cant_delete=True), ARule("d")]), ARule("a *", [ARule("c *", cant_delete=True)])])
    # %prio: among the rules matching a row the one with the highest prio governs, whatever the shared-symbols metric says:
    # a local catch-all with children lifted above a specific %global rule (its children then apply), a %global rule lifted
    # above a specific local rule (the local rule's children then do not), inside a block and at top level
    add("overlap-prio-local-over-global", lambda: [ARule("c *", glob=True), ARule("~", [ARule("e")], prio=1)])
    add("overlap-prio-global-over-local", lambda: [ARule("c 1 ~", [ARule("d")]), ARule("c *", glob=True, prio=1)])
    add("overlap-prio-nested", lambda: [ARule("a *", [ARule("c *", glob=True), ARule("~", [ARule("e")], prio=2), ARule("c 1 ~", [ARule("d")], prio=1)])])
    add("overlap-prio-cant-delete", lambda: [ARule("c *", cant_delete=True, prio=1), ARule("~", cant_delete=False)])
    # a deletable rule next to a protected one, at top level and inside a block
    add("mixed-cd-top", lambda: [ARule("a *"), ARule("b *", cant_delete=True)])
    add("mixed-cd-nested", lambda: [ARule("a *", [ARule("c *"), ARule("d", cant_delete=True)])])
    # heads that merely begin with the letters of a negation word ('undo', 'no'): they are ordinary commands, and their
    # negated form is '<word> <row>'
    add("prefix-letters-leaf", lambda: [ARule("undoc *"), ARule("notify ~")])
    add("prefix-letters-block", lambda: [ARule("a *", [ARule("undoc *"), ARule("noc")])])
    add("prefix-letters-cd", lambda: [ARule("undoc *", cant_delete=True), ARule("a *", [ARule("undoc")], cant_delete=True)])
    if tier == "thorough":
        for i, (mk1, mk2) in enumerate(itertools.product(leafs(["a"]), leafs(["b"], with_global=False))):
            add("L2-%d" % i, lambda mk1=mk1, mk2=mk2: [mk1(), mk2()])
        for i, (mk1, mk2) in enumerate(itertools.product(leafs(["c"]), leafs(["d"], with_global=False))):
            if i % 3 == 0:
                add("B2-%d" % i, lambda mk1=mk1, mk2=mk2: [ARule("a *", [mk1(), mk2()])])
    return out


def merge_pairs():
    """ordered pairs of ACLs (two generators) whose merge stays inside the unambiguous domain, so the merged filter
    must equal the reference of the merged structure; they exercise how identical rows of several generators unite"""
    P = []

    def add(name, fa, fb, negated=False):
        P.append((name, fa, fb, negated))
    # the same block row: first without children, then with (and the other way round); a second childless block next to it
    add("childless-then-children", lambda: [ARule("a *"), ARule("b *")], lambda: [ARule("a *", [ARule("c *")])])
    add("children-then-childless", lambda: [ARule("a *", [ARule("c *")])], lambda: [ARule("a *"), ARule("b *")])
    add("childless-twice-then-children", lambda: [ARule("a *"), ARule("b *"), ARule("interface *")],
        lambda: [ARule("interface *", [ARule("d")]), ARule("a *", [ARule("c *")])])
    add("same-block-different-children", lambda: [ARule("a *", [ARule("c *")])], lambda: [ARule("a *", [ARule("d")]), ARule("b ~")])
    add("nested-same-rows", lambda: [ARule("a *", [ARule("c *"), ARule("d")])], lambda: [ARule("a *", [ARule("c *", [ARule("d *")])])])
    add("cant-delete-mix", lambda: [ARule("a *", [ARule("c *")], cant_delete=True)], lambda: [ARule("a *", [ARule("d")], cant_delete=False)])
    # the flags of identical rows are united whatever the rows' other flags are: a row one generator protects and another may
    # delete is deletable (its negated form passes) - for local rows and for %global rows, in both orders
    add("cd-mix-local-negated", lambda: [ARule("c *", cant_delete=True), ARule("a *", [ARule("d", cant_delete=True)])],
        lambda: [ARule("c *", cant_delete=False), ARule("a *", [ARule("d")])], True)
    add("cd-mix-global-negated", lambda: [ARule("a *", [ARule("c ~", glob=True, cant_delete=True)])],
        lambda: [ARule("a *", [ARule("c ~", glob=True)])], True)
    add("cd-mix-global-negated-rev", lambda: [ARule("a *", [ARule("c ~", glob=True)])],
        lambda: [ARule("a *", [ARule("c ~", glob=True, cant_delete=True)])], True)
    add("cd-all-protect-global-negated", lambda: [ARule("c ~", glob=True, cant_delete=True)], lambda: [ARule("c ~", glob=True, cant_delete=True), ARule("a *")], True)
    add("prio-united-by-max", lambda: [ARule("~", [ARule("e")], prio=1)], lambda: [ARule("~", [ARule("d")]), ARule("c *", glob=True)])
    add("global-and-local-elsewhere", lambda: [ARule("d", glob=True), ARule("a *")], lambda: [ARule("a *", [ARule("c *")]), ARule("b *")])
    return P


def row_alphabet(rules, negated=False, prefix="undo"):
    """rows instantiating the rules (any depth), foreign rows, and optionally negated forms"""
    rows = []

    def inst(p):
        toks = p.split()
        a, b = [], []
        for t in toks:
            if t == "*":
                a.append("1")
                b.append("2")
            elif t == "~":
                a.append("1")
                b.append("2 3")
            elif t in REGEX_WORDS:
                a.append(REGEX_WORDS[t][0])
                b.append(REGEX_WORDS[t][1])
            else:
                a.append(t)
                b.append(t)
        return [" ".join(a)] if a == b else [" ".join(a), " ".join(b)]

    def walk(rs):
        for r in rs:
            if r.pattern != "~":
                for x in inst(r.pattern)[:2 if any(t in REGEX_WORDS for t in r.pattern.split()) else 1]:
                    if x not in rows:
                        rows.append(x)
            walk(r.children)
    walk(rules)
    for x in ("x", "x y"):
        if x not in rows:
            rows.append(x)
    rows = rows[:5]
    if negated:
        rows = rows[:3] + [prefix + " " + r for r in rows[:2]]
    return rows


def combined_text(named_texts, indents=(8, 12, 4)):
    """the ACL text of several generators as annet combines it: the real RunGeneratorResult.acl_text() over
    GeneratorPartialResult objects whose .acl is the generator's text the way generators return it - an indented
    triple-quoted literal, each generator with its own base indentation (8, 12, 4 ... blanks)"""
    from annet.generators.result import RunGeneratorResult
    from annet.types import GeneratorPartialResult
    rr = RunGeneratorResult()
    for i, (name, text) in enumerate(named_texts):
        ind = " " * indents[i % len(indents)]
        literal = "\n" + "\n".join(ind + ln for ln in text.split("\n") if ln.strip()) + "\n" + ind[:-4]
        rr.add_partial(GeneratorPartialResult(name=name, tags=[], acl=literal, acl_rules=None, acl_safe="", acl_safe_rules=None,
                                              output="", config=None, safe_config=None, perf=None))
    return rr.acl_text()
