"""Sharded exhaustive driver, evidence writer, VIOLATION/replay plumbing, known-findings filter.

A check module (checks/cNN_*.py) provides:

    PID            "C07"
    RULE           how cases are enumerated / what makes one distinct and non-trivial
    ASSUMPTIONS    list[str]
    BUDGET         {"quick": seconds, "thorough": seconds}   wall budget; hitting it => exhaustive=False
    setup()        called once in the parent before forking (imports, connector set-up)
    blocks(tier, seed) -> list of JSON-able block descriptors; blocks partition the case space
    run_block(block, ctx)   explores one block completely, reporting into ctx (class Ctx below)
    replay(case) -> list[(sig, detail)]   re-runs exactly one recorded case
    finish(merged, tier) (optional)   cross-block post-processing; may add violations

Everything a check explores is run on the real annet code imported from /repo (or $ANNET_TREE).
"""
from __future__ import annotations

import collections
import hashlib
import importlib
import json
import multiprocessing
import os
import subprocess
import sys
import time
import traceback

ROOT = os.path.dirname(os.path.dirname(os.path.abspath(__file__)))
EVIDENCE_DIR = os.path.join(ROOT, "evidence")
REPLAY_OUT = os.path.join(ROOT, "replays", "out")
KNOWN_FILE = os.path.join(ROOT, "known_findings.txt")
SCHEMA = os.path.join(ROOT, "schemas", "EVIDENCE.schema.json")
NPROC = int(os.environ.get("VERIF_JOBS", "16"))
MAX_REPORTED = 12

CHECKS = {
    "C01": "checks.c01_converge",
    "C02": "checks.c02_acl_patch",
    "C03": "checks.c03_diff",
    "C04": "checks.c04_roundtrip",
    "C05": "checks.c05_offside",
    "C06": "checks.c06_acl_filter",
    "C07": "checks.c07_patterns",
    "C08": "checks.c08_ordering",
    "C09": "checks.c09_cmdstream",
    "C10": "checks.c10_generators",
    "C11": "checks.c11_vlan",
    "C12": "checks.c12_pool",
    "C13": "checks.c13_json",
    "C14": "checks.c14_rpl",
    "C15": "checks.c15_mesh",
    "C16": "checks.c16_frontends",
    "C17": "checks.c17_implicit",
    "C18": "checks.c18_hardware",
    "C19": "checks.c19_files",
    "C20": "checks.c20_history",
}


def canon(obj) -> str:
    return json.dumps(obj, sort_keys=True, separators=(",", ":"), default=repr)


def digest(obj) -> str:
    return hashlib.sha1(canon(obj).encode()).hexdigest()[:16]


class Ctx:
    """Per-block accumulator handed to run_block. All counters are measured, none is a constant."""

    MAX_VIOL_PER_SIG = 3

    def __init__(self, deadline: float, tier: str, seed: int):
        self.deadline = deadline
        self.tier = tier
        self.seed = seed
        self.evals = 0            # executions of the real code under test
        self.states = 0           # distinct canonical cases / states (distinct by construction or via seen())
        self.transitions = 0      # steps of the real transition function (defaults to evals)
        self.nontrivial = 0       # distinct cases that are non-trivial by the check's RULE
        self.outcomes = collections.Counter()
        self.samples = []
        self.capped = False
        self.extra = collections.Counter()     # summable extras (per-check counters)
        self.notes = []
        self._viol = {}           # sigkey -> {"sig":..,"count":n,"cases":[...]}
        self._seen = set()
        self._n = 0

    # -- bookkeeping helpers -------------------------------------------------------------------
    def expired(self) -> bool:
        self._n += 1
        if self._n & 0xFF:
            return self.capped
        if time.time() > self.deadline:
            self.capped = True
        return self.capped

    def seen(self, key) -> bool:
        """True if key was already recorded in this block (block-local distinctness)."""
        h = hash(key)
        if h in self._seen:
            return True
        self._seen.add(h)
        return False

    def sample(self, obj, force=False):
        if len(self.samples) < 2 or force:
            self.samples.append(obj)

    def violation(self, sig: dict, case, detail: str = ""):
        k = canon(sig)
        ent = self._viol.get(k)
        if ent is None:
            ent = self._viol[k] = {"sig": sig, "count": 0, "cases": []}
        ent["count"] += 1
        if len(ent["cases"]) < self.MAX_VIOL_PER_SIG:
            ent["cases"].append({"case": case, "detail": detail})

    def result(self) -> dict:
        return {
            "evals": self.evals, "states": self.states, "transitions": self.transitions,
            "nontrivial": self.nontrivial, "outcomes": dict(self.outcomes), "samples": self.samples[:4],
            "capped": self.capped, "extra": dict(self.extra), "viol": self._viol, "notes": self.notes[:5],
        }


_MOD = None
_RUN = None


def _under_test(filename):
    """is this source file part of the annet tree the check is looking at?"""
    try:
        import annet
        root = os.path.dirname(os.path.abspath(annet.__file__))
    except Exception:  # noqa
        return False
    return os.path.abspath(filename).startswith(root + os.sep)


def raised_in_harness(e) -> bool:
    """True when the exception was raised by a statement of /verif itself (the innermost traceback frame is not in the tree
    under test): the harness called something in a way this tree no longer accepts - a private parameter list, a private
    attribute.  Checks re-raise such an exception from the handlers in which they turn the tree's own failures into outcomes,
    so that it ends as 'not decided' in _worker instead of as a finding."""
    tb = e.__traceback__
    last = None
    while tb is not None:
        last = tb.tb_frame.f_code.co_filename
        tb = tb.tb_next
    return bool(last) and not _under_test(last) and os.path.abspath(last).startswith(ROOT + os.sep)


def _worker(arg):
    idx, block = arg
    deadline, tier, seed = _RUN
    ctx = Ctx(deadline, tier, seed)
    if time.time() > deadline:
        ctx.capped = True
        ctx.notes.append("block %d skipped: budget exhausted" % idx)
        return idx, ctx.result()
    try:
        _MOD.run_block(block, ctx)
    except BaseException as e:  # noqa
        if not isinstance(e, Exception) and type(e).__name__ != "NotDecided":
            raise
        # an exception nobody in the check expected. Where was it raised?  Inside the tree under test: the code crashed where
        # the check relies on it to work - reported.  Inside /verif itself (a call that no longer fits a private function's
        # parameter list, a private attribute that is gone): the harness does not fit this tree - the block is NOT DECIDED
        # (noted, run marked incomplete), never an alarm.
        tb = e.__traceback__
        last = None
        while tb is not None:
            last = tb.tb_frame.f_code.co_filename
            tb = tb.tb_next
        if last and _under_test(last):
            ctx.violation({"kind": "harness-error", "where": traceback.format_exc().strip().splitlines()[-1][:200]},
                          {"block": block}, traceback.format_exc())
        else:
            ctx.capped = True
            ctx.notes.append("block %d not decided - the harness does not fit this tree: %s (raised in %s)"
                             % (idx, traceback.format_exc().strip().splitlines()[-1][:200], last))
    try:
        from mc import env as _env
        ctx.notes.extend(n for n in _env.NOTES[:2] if n not in ctx.notes)
    except Exception:  # noqa
        pass
    res = ctx.result()
    # every recorded case remembers the block that produced it: a violation that depends on what the block ran before
    # (a compiled object or a class living longer than one case) is replayed by re-running the block
    for ent in res["viol"].values():
        for c in ent["cases"]:
            c["block"] = block
    return idx, res


def load_known(pid):
    """entries 'known: property=<id> signature=<json> :: <what>' of known_findings.txt for this property"""
    out = []
    if not os.path.exists(KNOWN_FILE):
        return out
    for line in open(KNOWN_FILE, encoding="utf-8"):
        line = line.strip()
        if not line.startswith("known:"):
            continue
        head, _, what = line[len("known:"):].partition("::")
        head = head.strip()
        if not head.startswith("property=%s " % pid):
            continue
        sig = json.loads(head.split("signature=", 1)[1])
        out.append({"property": pid, "signature": sig, "what": what.strip()})
    return out


def sig_matches(entry_sig: dict, sig: dict) -> bool:
    return all(sig.get(k) == v for k, v in entry_sig.items())


def validate_evidence(path) -> bool:
    code = ("import json,sys,jsonschema;"
            "jsonschema.validate(json.load(open(sys.argv[1])), json.load(open(sys.argv[2])))")
    try:
        r = subprocess.run(["python3-vt", "-c", code, path, SCHEMA], capture_output=True, text=True, timeout=120)
    except FileNotFoundError:
        print("WARNING: python3-vt not found; evidence not schema-validated", file=sys.stderr)
        return True
    if r.returncode != 0:
        print("EVIDENCE INVALID:", r.stderr[-2000:], file=sys.stderr)
        return False
    return True


def run_check(pid: str, tier: str, seed: int) -> int:
    global _MOD, _RUN
    t0 = time.time()
    mod = importlib.import_module(CHECKS[pid])
    _MOD = mod
    try:
        mod.setup()
        blocks = list(mod.blocks(tier, seed))
    except BaseException as e:  # noqa
        if type(e).__name__ != "NotDecided":
            raise
        # the harness cannot even be set up on this tree (a private function it is built around is gone): nothing is decided
        print("NOT DECIDED: %s %s cannot be set up on this tree - %s" % (pid, tier, e), file=sys.stderr)
        return 0
    budget = getattr(mod, "BUDGET", {"quick": 60, "thorough": 900})[tier]
    budget = float(os.environ.get("VERIF_BUDGET", budget))
    # the budget is sized for 16 idle cores; on a machine that is busy with other work the same enumeration needs more
    # wall time, so the wall budget grows with the load seen at start (at most threefold). It only decides when an
    # unfinished run gives up (exhaustive=False); it never changes what is enumerated or how a case is judged.
    try:
        load_factor = min(3.0, max(1.0, os.getloadavg()[0] / float(NPROC)))
    except OSError:
        load_factor = 1.0
    if "VERIF_BUDGET" not in os.environ:
        budget *= load_factor
    deadline = t0 + budget
    _RUN = (deadline, tier, seed)
    order = list(range(len(blocks)))
    if seed and order and not getattr(mod, "KEEP_ORDER", False):
        r = seed % len(order)
        order = order[r:] + order[:r]
    results = {}
    nproc = min(NPROC, max(1, len(blocks)))
    if getattr(mod, "SERIAL", False) or nproc == 1:
        for i in order:
            idx, res = _worker((i, blocks[i]))
            results[idx] = res
    else:
        ctx = multiprocessing.get_context("fork")
        with ctx.Pool(nproc, maxtasksperchild=getattr(mod, "MAXTASKS", None)) as pool:
            for idx, res in pool.imap_unordered(_worker, [(i, blocks[i]) for i in order], chunksize=1):
                results[idx] = res

    merged = {"evals": 0, "states": 0, "transitions": 0, "nontrivial": 0, "outcomes": collections.Counter(),
              "samples": [], "capped": False, "extra": collections.Counter(), "viol": {}, "notes": [],
              "blocks": len(blocks), "blocks_capped": 0}
    for idx in sorted(results):
        res = results[idx]
        for k in ("evals", "states", "transitions", "nontrivial"):
            merged[k] += res[k]
        merged["outcomes"].update(res["outcomes"])
        merged["extra"].update(res["extra"])
        if res["capped"]:
            merged["capped"] = True
            merged["blocks_capped"] += 1
        merged["notes"].extend(res["notes"])
        if res["samples"] and len(merged["samples"]) < 6:
            merged["samples"].append(res["samples"][0])
            if idx == max(results) and len(res["samples"]) > 1:
                merged["samples"].append(res["samples"][-1])
        for k, ent in res["viol"].items():
            m = merged["viol"].setdefault(k, {"sig": ent["sig"], "count": 0, "cases": []})
            m["count"] += ent["count"]
            m["cases"].extend(ent["cases"])
    if hasattr(mod, "finish"):
        mod.finish(merged, tier)
    if not merged["transitions"]:
        merged["transitions"] = merged["evals"]

    # ---- classify violations -----------------------------------------------------------------
    known = load_known(pid)
    new_viol, known_hit = [], []
    for k in sorted(merged["viol"]):
        ent = merged["viol"][k]
        ent["cases"].sort(key=lambda c: len(canon(c["case"])))
        hit = next((e for e in known if sig_matches(e["signature"], ent["sig"])), None)
        (known_hit if hit else new_viol).append((ent, hit))
    os.makedirs(REPLAY_OUT, exist_ok=True)
    for ent, hit in known_hit:
        print("KNOWN-FINDING: property=%s %s (x%d) sig=%s" % (pid, hit.get("what", ""), ent["count"], canon(ent["sig"])))
    if len(new_viol) > MAX_REPORTED:
        print("NOTE: %d distinct violation signatures; reporting the first %d" % (len(new_viol), MAX_REPORTED))
    for ent, _ in new_viol[:MAX_REPORTED]:
        c = ent["cases"][0]
        path = os.path.join(REPLAY_OUT, "%s-%s.json" % (pid, digest(ent["sig"])))
        with open(path, "w") as f:
            json.dump({"property": pid, "signature": ent["sig"], "case": c["case"], "detail": c["detail"],
                       "count": ent["count"], "tier": tier, "seed": seed, "block": c.get("block")}, f, indent=1, default=repr)
        print("VIOLATION property=%s replay=%s" % (pid, path))
        print("  signature: %s" % canon(ent["sig"]))
        print("  occurrences: %d; smallest case: %s" % (ent["count"], canon(c["case"])[:600]))
        if c["detail"]:
            print("  detail: %s" % str(c["detail"])[:1500])

    # ---- evidence ----------------------------------------------------------------------------
    wall = time.time() - t0
    exhaustive = not merged["capped"]
    coverage = {
        "states": merged["states"],
        "transitions": merged["transitions"],
        "traces_validated_against_impl": merged["extra"].pop("traces_validated", merged["transitions"]),
        "evaluations": merged["evals"],
        "distinct_nontrivial": merged["nontrivial"],
        "rule": mod.RULE,
        "samples": merged["samples"] or ["<no case explored>"],
        "exhaustive": exhaustive,
        "bound": mod.bound_text(tier) if hasattr(mod, "bound_text") else "",
        "blocks": merged["blocks"],
        "blocks_capped_by_budget": merged["blocks_capped"],
        "distinct_outcomes": len(merged["outcomes"]),
        "outcomes": dict(sorted(merged["outcomes"].items(), key=lambda kv: -kv[1])[:40]),
        "counters": dict(merged["extra"]),
        "known_findings_hit": [canon(e["sig"]) for e, _ in known_hit],
        "new_violation_signatures": [canon(e["sig"]) for e, _ in new_viol],
        "notes": merged["notes"][:10],
        "engine": getattr(mod, "ENGINE", ""),
        "tree": os.environ.get("ANNET_TREE", "/repo"),
    }
    if len(merged["outcomes"]) == 1 and merged["evals"] > 10:
        coverage["notes"].append("WARNING: a single outcome from many executions - nothing collided?")
    ev = {
        "property_id": pid, "tier": tier, "seed": seed, "level": "model_checking",
        "coverage": coverage, "assumptions": list(mod.ASSUMPTIONS), "wall_s": round(wall, 2),
        "violations": len(new_viol),
    }
    os.makedirs(EVIDENCE_DIR, exist_ok=True)
    evpath = os.path.join(os.environ.get("VERIF_EVIDENCE_DIR", EVIDENCE_DIR), "%s.json" % pid)
    os.makedirs(os.path.dirname(evpath), exist_ok=True)
    with open(evpath, "w") as f:
        json.dump(ev, f, indent=1, default=repr)
    ok = validate_evidence(evpath)
    print("%s %s: states=%d transitions=%d evals=%d nontrivial=%d outcomes=%d exhaustive=%s wall=%.1fs violations=%d known=%d"
          % (pid, tier, coverage["states"], coverage["transitions"], coverage["evaluations"],
             coverage["distinct_nontrivial"], coverage["distinct_outcomes"], exhaustive, wall,
             len(new_viol), len(known_hit)))
    if new_viol:
        return 1
    nothing = merged["evals"] == 0 or coverage["states"] == 0
    if nothing and merged["capped"] and any("not decided" in n for n in merged["notes"]):
        # every block ended "not decided": the harness does not fit this tree.  There is nothing to report about the
        # property and nothing that could be called evidence (the file written above says so and does not validate).
        print("NOT DECIDED: %s %s explored nothing on this tree - %s" % (pid, tier, merged["notes"][0][:300]), file=sys.stderr)
        return 0
    if not ok:
        return 1
    if nothing:
        print("ERROR: nothing explored", file=sys.stderr)
        return 1
    return 0


def run_replay(pid: str, path: str) -> int:
    mod = importlib.import_module(CHECKS[pid])
    mod.setup()
    data = json.load(open(path))
    case = data["case"]
    out1 = mod.replay(case)
    out2 = mod.replay(case)
    if canon(out1) != canon(out2):
        print("REPLAY NONDETERMINISTIC: two replays of the same case disagree", file=sys.stderr)
        print(canon(out1)[:1000], canon(out2)[:1000], sep="\n", file=sys.stderr)
        return 2
    if out1:
        for sig, detail in out1:
            print("VIOLATION property=%s replay=%s" % (pid, path))
            print("  signature: %s" % canon(sig))
            print("  detail: %s" % str(detail)[:3000])
        return 1
    # the case alone is clean: was it the history inside its block?  Re-run the block (this process is fresh) twice.
    block = data.get("block")
    if block is not None and isinstance(block, dict) and hasattr(mod, "run_block"):
        def run_once():
            ctx = Ctx(time.time() + float(os.environ.get("VERIF_BUDGET", 3600)), data.get("tier", "quick"), data.get("seed", 0))
            mod.run_block(block, ctx)
            return [e for e in ctx.result()["viol"].values() if sig_matches(data["signature"], e["sig"])]
        hit1, hit2 = run_once(), run_once()
        if bool(hit1) != bool(hit2):
            print("REPLAY NONDETERMINISTIC: two runs of the block disagree", file=sys.stderr)
            return 2
        if hit1:
            c = hit1[0]["cases"][0]
            print("VIOLATION property=%s replay=%s" % (pid, path))
            print("  signature: %s" % canon(hit1[0]["sig"]))
            print("  history-dependent: the case alone is clean in a fresh process; re-running its block %s reproduces it (x%d), first at %s"
                  % (canon(block), hit1[0]["count"], canon(c["case"])[:600]))
            print("  detail: %s" % str(c["detail"])[:3000])
            return 1
    print("replay of %s: property holds on this case" % path)
    return 0


def _with_scratch(fn, *a):
    """every temporary directory of a run (mc/e2e.py sessions and fabrics, created in worker and forked processes that may
    end without running their own clean-up) lives below one scratch directory that the top-level process removes"""
    import shutil
    import tempfile
    root = tempfile.mkdtemp(prefix="verif-run-")
    os.environ["VERIF_SCRATCH"] = root
    tempfile.tempdir = root
    try:
        return fn(*a)
    finally:
        tempfile.tempdir = None
        os.environ.pop("VERIF_SCRATCH", None)
        shutil.rmtree(root, ignore_errors=True)


def main(argv):
    if len(argv) < 2:
        print("usage: check Cxx quick|thorough | check Cxx --replay FILE", file=sys.stderr)
        return 2
    pid = argv[0]
    if pid not in CHECKS:
        print("unknown property %s" % pid, file=sys.stderr)
        return 2
    if argv[1] == "--replay":
        return _with_scratch(run_replay, pid, argv[2])
    tier = argv[1]
    assert tier in ("quick", "thorough")
    seed = int(os.environ.get("VERIF_SEED", "0") or 0)
    return _with_scratch(run_check, pid, tier, seed)


if __name__ == "__main__":
    sys.exit(main(sys.argv[1:]))
