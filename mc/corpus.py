"""The shipped (before, after, patch) corpus of tests/annet/test_patch as *data* (loaded with the repository's own
loader; nothing of annet's diff/patch logic is involved in loading)."""
from __future__ import annotations

import functools

from mc import env

TEST_VENDOR_MODEL = {
    "cisco": "Cisco Catalyst", "nexus": "Cisco Nexus", "asr": "Cisco ASR", "iosxr": "Cisco XR", "huawei": "Huawei",
    "huawei ce": "Huawei CE0000", "juniper": "Juniper", "routeros": "RouterOS", "aruba": "Aruba", "arista": "Arista",
    "nokia": "Nokia", "pc": "PC", "ribbon": "Ribbon", "optixtrans": "Huawei DC", "b4com": "B4com", "h3c": "H3C",
}


@functools.lru_cache(None)
def samples():
    """-> list of dict(name, vendor_key, model, old, new, patch) with old/new as nested lists"""
    from annet.annlib.netdev.views.hardware import HardwareView
    from tests.annet import patch_data
    out = []
    for name, sample in patch_data.get_samples(dirname="annet/test_patch"):
        vkey = sample.get("vendor", "huawei").lower()
        model = TEST_VENDOR_MODEL[vkey]
        hw = HardwareView(model, None)
        old, new, patch = patch_data.get_configs(hw, sample)
        out.append({"name": name, "vendor_key": vkey, "model": model,
                    "old": env.tree_to_list(old), "new": env.tree_to_list(new), "patch": patch})
    return out
