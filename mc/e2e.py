"""End-to-end seam: the production workers of `annet gen`, `annet diff`, `annet patch` and the deploy job, driven on the
real code with nothing replaced inside annet.  What the harness supplies is what annet takes from outside:

  * a Loader (annet.gen.Loader's public surface: devices, device_ids, device_fqdns, get_device, resolve_gens),
  * devices (hw = the real HardwareView of a model string; hostname, fqdn, id, tags, storage stub),
  * generators (real PartialGenerator subclasses that yield a given forest; ACL / safe ACL = catch-all, so that
    ACL filtering is the identity and the workers' own wiring is what is observed; the runs use --no-acl-exclusive
    because two catch-all ACLs would otherwise be an ownership conflict, which is C10's topic),
  * the device's running configuration as a file `<hostname>.cfg` in a scratch directory (the `--config DIR` source),
  * option objects (cli_args.DiffOptions / ShowPatchOptions / ShowGenOptions / DeployOptions with a ready Query).

Each call runs the worker exactly as annet.api.diff / patch / gen hand it to the pool: worker(device_id, args, stdin,
loader, filterer).
"""
from __future__ import annotations

import os
import shutil
import tempfile

from mc import env

CATCH_ALL = "\n        ~ %global\n    "


class _Storage:
    def flush_perf(self):
        return {}


class _Device:
    def is_pc(self):
        return self.hw.vendor == "pc"

    def __hash__(self):
        return id(self)

    def __eq__(self, other):
        return self is other


_gen_classes = {}


def forest_generator(name, vendor, forest, safe, acl=CATCH_ALL, supports=True):
    """a real PartialGenerator whose run_<vendor> yields `forest` ([[row, children], ...]) with self.block() for blocks;
    acl=None: the generator declares no ACL for the vendor; supports=False: it is written for another vendor only"""
    from annet.generators import PartialGenerator

    def run_nodes(self, nodes):
        for row, ch in nodes:
            if ch:
                with self.block(row):
                    yield from run_nodes(self, ch)
            else:
                yield row
    kls = _gen_classes.get(name)
    if kls is None:
        kls = _gen_classes[name] = type(name, (PartialGenerator,), {})
    g = kls(_Storage())
    v = vendor if supports else "someothervendor"
    if acl is not None:
        setattr(g, "acl_" + v, lambda dev: acl)
        if safe:
            setattr(g, "acl_safe_" + v, lambda dev: acl)
    setattr(g, "run_" + v, lambda dev: run_nodes(g, forest))
    return g


class _Loader:
    def __init__(self, dev, gens):
        self._dev, self._gens = dev, gens

    @property
    def devices(self):
        return [self._dev]

    @property
    def device_ids(self):
        return [self._dev.id]

    @property
    def device_fqdns(self):
        return {self._dev.id: self._dev.fqdn}

    def get_device(self, device_id):
        assert device_id == self._dev.id
        return self._dev

    def resolve_gens(self, devices):
        from annet import gen as ann_gen
        return ann_gen.DeviceGenerators(partial={self._dev: list(self._gens)}, ref={self._dev: []},
                                        entire={self._dev: []}, json_fragment={self._dev: []})


_query = None


def _harness_query():
    global _query
    if _query is None:
        from annet.lib import get_template_context_path
        from annet.storage import Query
        os.environ.setdefault("ANN_CONTEXT_CONFIG_PATH", str(get_template_context_path()))

        class HarnessQuery(Query):
            @classmethod
            def new(cls, query, hosts_range=None):
                return cls()
        _query = HarnessQuery
    return _query()


class Session:
    """one device, its running configuration (a forest, written in the vendor's syntax by the vendor's own formatter -
    C04 judges that step) and generators [(forest, has_safe_acl)]"""

    def __init__(self, model, old_forest, gens, tags=(), hostname="h1"):
        from annet.annlib.netdev.views.hardware import HardwareView
        hw = HardwareView(model, None)
        d = _Device()
        d.hw = env.HwVendorCached(hw)
        d.hostname, d.fqdn, d.id, d.breed = hostname, hostname + ".example", 1, hw.vendor
        d.tags, d.storage, d.neighbours_ids = list(tags), _Storage(), []
        self.dev, self.vendor = d, hw.vendor
        self.gens = []
        for i, g in enumerate(gens):
            if isinstance(g, dict):     # {"forest", "safe", "acl" (text | None), "supports"}
                self.gens.append(forest_generator("E2EGen%dx" % i, hw.vendor, g.get("forest", []), g.get("safe", False),
                                                  g.get("acl", CATCH_ALL), g.get("supports", True)))
            else:
                forest, safe = g
                self.gens.append(forest_generator("E2EGen%d%s" % (i, "Safe" if safe else ""), hw.vendor, forest, safe))
        self.loader = _Loader(d, self.gens)
        self.dir = tempfile.mkdtemp(prefix="verif-e2e-", dir=os.environ.get("VERIF_SCRATCH") or None)
        fmt = env.vendor_obj(hw.vendor).make_formatter()
        text = fmt.join(env.to_odict(old_forest))
        with open(os.path.join(self.dir, hostname + ".cfg"), "w", encoding="utf-8") as fh:
            fh.write(text)
        # the harness writes the device text with the vendor's formatter; where that text does not parse back to the forest
        # (RouterOS listing sections that split rewrites by design - outside C04's domain) the session does not represent
        # the intended device state and callers skip it
        from annet.annlib.tabparser import parse_to_tree
        self.representable = env.tree_to_list(parse_to_tree(text, fmt.split)) == env.tree_to_list(env.to_odict(old_forest))

    def close(self):
        shutil.rmtree(self.dir, ignore_errors=True)

    def __enter__(self):
        return self

    def __exit__(self, *a):
        self.close()

    # -- the workers --------------------------------------------------------------------------------
    def _stdin(self, args, config):
        return args.stdin(filter_acl=args.filter_acl, config=config)

    def diff(self, acl_safe=False):
        from annet import cli_args
        from annet import diff as ann_diff
        args = cli_args.DiffOptions(query=_harness_query(), config=self.dir, acl_safe=bool(acl_safe), no_acl_exclusive=True)
        return ann_diff.worker(self.dev.id, args, self._stdin(args, None), self.loader, None)

    def patch(self, acl_safe=False, clear=False):
        from annet import api, cli_args
        args = cli_args.ShowPatchOptions(query=_harness_query(), config=self.dir, acl_safe=bool(acl_safe), indent="  ", no_acl_exclusive=True,
                                         clear=bool(clear))
        return list(env.call_private(api, "_patch_worker", self.dev.id, args, self._stdin(args, self.dir), self.loader, None))

    def patch_diff(self, acl_safe=False):
        """the (diff, patch tree) pairs annet.api.res_diff_patch yields for `annet patch` (and deploy's --show-diff)"""
        from annet import api, cli_args
        args = cli_args.ShowPatchOptions(query=_harness_query(), config=self.dir, acl_safe=bool(acl_safe), indent="  ", no_acl_exclusive=True)
        return [(d, p) for _res, d, p in api.res_diff_patch(self.dev.id, args, self._stdin(args, self.dir), self.loader, None)]

    def gen(self, acl_safe=False):
        from annet import cli_args
        from annet import gen as ann_gen
        args = cli_args.ShowGenOptions(query=_harness_query(), acl_safe=bool(acl_safe), indent="  ", no_acl_exclusive=True)
        return list(ann_gen.worker(self.dev.id, args, self._stdin(args, None), self.loader, None))

    def deploy_job(self, acl_safe=False, dont_commit=False, clear=False):
        """what annet.api.Deployer does per device: old_new(...) -> DeployerJob.from_device(...).parse_result(res)"""
        from annet import api
        from annet import gen as ann_gen
        args = env.deploy_options(config=self.dir, acl_safe=bool(acl_safe), dont_commit=bool(dont_commit), indent="  ", no_acl_exclusive=True,
                                  clear=bool(clear))
        jobs = []
        for res in ann_gen.old_new(args, config=args.config, loader=self.loader, filterer=None, no_new=args.clear,
                                   stdin=self._stdin(args, args.config), do_files_download=True):
            job = api.DeployerJob.from_device(res.device, args)
            job.parse_result(res)
            jobs.append(job)
        assert len(jobs) == 1
        return jobs[0]


# ---- helpers for property-level oracles ------------------------------------------------------------------
def paths_of(tree, prefix=()):
    """all row paths of a nested mapping / forest"""
    out = set()
    items = tree.items() if hasattr(tree, "items") else tree
    for row, ch in items:
        p = prefix + (row,)
        out.add(p)
        out |= paths_of(ch, p)
    return out


def union_forest(a, b):
    out = [[r, list(c)] for r, c in a]
    idx = {r: i for i, (r, _) in enumerate(out)}
    for r, c in b:
        if r in idx:
            out[idx[r]][1] = union_forest(out[idx[r]][1], c)
        else:
            idx[r] = len(out)
            out.append([r, list(c)])
    return out


def flatten_diff(diff, prefix=()):
    """{path: op value} over a Diff (list of (op, row, children, match))"""
    out = {}
    for item in diff:
        op, row, children = item[0], item[1], item[2]
        p = prefix + (row,)
        out[p] = getattr(op, "value", op)
        out.update(flatten_diff(children, p))
    return out


class Fabric:
    """several devices served by ONE worker: one Loader, one configuration directory (<host>.cfg, and <host>.acl when a
    device has a filter ACL: `--filter-acl DIR`), and ONE stdin dict handed to every worker call, as annet.api.patch /
    diff / gen build it once and pass it to the pool"""

    def __init__(self, devices):
        """devices: [{"hostname", "model", "old": forest, "gens": [(forest, safe)], "filter_acl": text or None, "tags": [...]}]"""
        from annet.annlib.netdev.views.hardware import HardwareView
        self.dir = tempfile.mkdtemp(prefix="verif-e2e-", dir=os.environ.get("VERIF_SCRATCH") or None)
        self.devs, self.gens = {}, {}
        for n, spec in enumerate(devices, 1):
            hw = HardwareView(spec["model"], None)
            d = _Device()
            d.hw = env.HwVendorCached(hw)
            d.hostname, d.fqdn, d.id, d.breed = spec["hostname"], spec["hostname"] + ".example", n, hw.vendor
            d.tags, d.storage, d.neighbours_ids = list(spec.get("tags", [])), _Storage(), []
            self.devs[n] = d
            self.gens[d] = [forest_generator("E2EFab%d_%d%s" % (n, i, "Safe" if safe else ""), hw.vendor, forest, safe)
                            for i, (forest, safe) in enumerate(spec["gens"])]
            fmt = env.vendor_obj(hw.vendor).make_formatter()
            with open(os.path.join(self.dir, d.hostname + ".cfg"), "w", encoding="utf-8") as fh:
                fh.write(fmt.join(env.to_odict(spec["old"])))
            if spec.get("filter_acl") is not None:
                with open(os.path.join(self.dir, d.hostname + ".acl"), "w", encoding="utf-8") as fh:
                    fh.write(spec["filter_acl"])
        self.with_filter = any(spec.get("filter_acl") is not None for spec in devices)
        fab = self

        class L:
            devices = property(lambda s_: list(fab.devs.values()))
            device_ids = property(lambda s_: list(fab.devs))
            device_fqdns = property(lambda s_: {i: d.fqdn for i, d in fab.devs.items()})

            def get_device(s_, i):
                return fab.devs[i]

            def resolve_gens(s_, devices):
                from annet import gen as ann_gen
                return ann_gen.DeviceGenerators(partial={d: list(fab.gens[d]) for d in devices}, ref={d: [] for d in devices},
                                                entire={d: [] for d in devices}, json_fragment={d: [] for d in devices})
        self.loader = L()
        self._args = self._stdin = None

    def close(self):
        shutil.rmtree(self.dir, ignore_errors=True)

    def worker_call(self, dev_id):
        """annet.api._patch_worker for one device, with the worker's long-lived args and stdin objects"""
        from annet import api, cli_args
        if self._args is None:
            kw = {"filter_acl": self.dir} if self.with_filter else {}
            self._args = cli_args.ShowPatchOptions(query=_harness_query(), config=self.dir, indent="  ", no_acl_exclusive=True, **kw)
            self._stdin = self._args.stdin(filter_acl=self._args.filter_acl, config=self._args.config)
        return list(env.call_private(api, "_patch_worker", dev_id, self._args, self._stdin, self.loader, None))
