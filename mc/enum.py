"""Canonical enumerators (pure, deterministic, simplest first). No annet imports here.

forests(rows, max_nodes, max_depth)
    every ordered forest whose sibling rows are pairwise distinct, with 0..max_nodes nodes and depth <= max_depth,
    as nested lists [[row, children], ...]. Order: by number of nodes, then by the size of the first tree, then by
    the position of the first root in `rows`, then recursively (children of the first tree before the remaining
    trees). Every forest is produced exactly once (it is a canonical form: the structure itself).

forests_n(rows, n, max_depth, first_root=None, first_size=None)
    the slice of the above with exactly n nodes; optionally only the forests whose first tree has root `first_root`
    and/or `first_size` nodes. The slices for all (n, first_root) partition the space, which is what checks use for
    blocks.

count_forests(n_rows, n, max_depth)
    the number of forests with exactly n nodes (no pruning), computed by an independent recurrence (used by checks
    to assert that an enumeration was complete).

Both enumerators take node_ok(row, level, is_leaf) -> bool to prune by a local syntactic constraint (e.g. "rows of
kind X are always leaves", "row Y never at top level"); the result is exactly the sub-sequence of forests all of
whose nodes satisfy it.
"""
from __future__ import annotations

import functools


def _forests(rows, n, depth, used, level, node_ok):
    """forests with exactly n nodes, depth <= depth, whose root rows avoid `used` (a tuple of row indexes)"""
    if n == 0:
        yield []
        return
    if depth <= 0:
        return
    for k in range(1, n + 1):                      # size of the first tree
        for i in range(len(rows)):
            if i in used:
                continue
            yield from _with_first(rows, n, depth, used, k, i, level, node_ok)


def _with_first(rows, n, depth, used, k, i, level, node_ok):
    r = rows[i]
    if node_ok is not None and not node_ok(r, level, k == 1):
        return
    used2 = used + (i,)
    if n - k == 0:
        for ch in _forests(rows, k - 1, depth - 1, (), level + 1, node_ok):
            yield [[r, ch]]
        return
    for ch in _forests(rows, k - 1, depth - 1, (), level + 1, node_ok):
        for rest in _forests(rows, n - k, depth, used2, level, node_ok):
            yield [[r, _copy(ch)]] + rest


def _copy(f):
    return [[r, _copy(c)] for r, c in f]


def forests_n(rows, n, max_depth, first_root=None, first_size=None, node_ok=None):
    """Forests with exactly n nodes. `first_root` is a row (member of rows) or None; `first_size` 1..n or None.
    `node_ok(row, level, is_leaf) -> bool` (level 1 = top) prunes: only forests all of whose nodes satisfy it are
    produced, in the same relative order."""
    rows = list(rows)
    if len(set(rows)) != len(rows):
        raise ValueError("rows must be distinct")
    if n == 0:
        if first_root is None and first_size is None:
            yield []
        return
    if max_depth <= 0:
        return
    sizes = range(1, n + 1) if first_size is None else [first_size]
    idx = range(len(rows)) if first_root is None else [rows.index(first_root)]
    for k in sizes:
        if not 1 <= k <= n:
            continue
        for i in idx:
            yield from _with_first(rows, n, max_depth, (), k, i, 1, node_ok)


def forests(rows, max_nodes, max_depth, node_ok=None):
    """All forests with 0..max_nodes nodes, simplest (fewest nodes) first. Fresh lists every time."""
    for n in range(0, max_nodes + 1):
        yield from forests_n(rows, n, max_depth, node_ok=node_ok)


# ---- independent count ---------------------------------------------------------------------------
@functools.lru_cache(maxsize=None)
def _count(r, n, depth, avail):
    """forests of n nodes, depth<=depth, roots drawn without repetition from `avail` of the r rows (ordered)"""
    if n == 0:
        return 1
    if depth <= 0 or avail <= 0:
        return 0
    total = 0
    for k in range(1, n + 1):
        total += avail * _count(r, k - 1, depth - 1, r) * _count(r, n - k, depth, avail - 1)
    return total


def count_forests(n_rows, n, max_depth):
    return _count(n_rows, n, max_depth, n_rows)


# ---- small helpers on the nested-list form -------------------------------------------------------
def size(forest):
    return sum(1 + size(c) for _, c in forest)


def depth(forest):
    return 1 + max(depth(c) for _, c in forest) if forest else 0


def walk(forest, parent=None, level=1):
    """yields (row, children, parent_row, level, index_in_siblings, siblings)"""
    for i, (r, c) in enumerate(forest):
        yield r, c, parent, level, i, forest
        yield from walk(c, r, level + 1)
