"""Process set-up shared by all checks: the same three connector initialisations as annet.annet.main."""
from __future__ import annotations

import logging
import types
from collections import OrderedDict as odict

_done = False

HW_MODEL = {
    "cisco": "Cisco Catalyst",
    "nexus": "Cisco Nexus",
    "iosxr": "Cisco XR",
    "huawei": "Huawei",
    "juniper": "Juniper",
    "routeros": "RouterOS",
    "aruba": "Aruba",
    "arista": "Arista",
    "nokia": "Nokia",
    "pc": "PC",
    "ribbon": "Ribbon",
    "optixtrans": "Huawei DC",
    "b4com": "B4com",
    "h3c": "H3C",
}
ALL_VENDORS = ["huawei", "h3c", "optixtrans", "cisco", "nexus", "iosxr", "arista", "aruba", "b4com",
               "juniper", "ribbon", "nokia", "routeros", "pc"]


def setup():
    global _done
    if _done:
        return
    _done = True
    logging.disable(logging.CRITICAL)
    from annet import rulebook, hardware, diff
    import annet.api  # noqa: F401  (imports the whole production composition)
    for conn, cls in ((rulebook.rulebook_provider_connector, harness_provider_class()),
                      (hardware.hardware_connector, hardware.AnnetHardwareProvider),
                      (diff.file_differ_connector, diff.UnifiedFileDiffer)):
        try:
            conn.set(cls)
        except RuntimeError:
            pass


_RB_OVERRIDE = []      # stack of callables hw -> rulebook | None
_PROVIDER_CLS = []


def harness_provider_class():
    """the rulebook provider the harness registers at annet's official seam (the rulebook provider connector, as a deployment
    of annet would register its own): annet's DefaultRulebookProvider, except that while a check has an override in force
    (rulebook_override) every get_rulebook(hw) in the process - whichever module asks - is answered by the override.  This is
    how checks hand a synthetic rulebook to production entry points that fetch the rulebook themselves."""
    if not _PROVIDER_CLS:
        from annet import rulebook

        class HarnessRulebookProvider(rulebook.DefaultRulebookProvider):
            def get_rulebook(self, hw):
                for fn in reversed(_RB_OVERRIDE):
                    rb = fn(hw, super().get_rulebook)
                    if rb is not None:
                        return rb
                return super().get_rulebook(hw)
        _PROVIDER_CLS.append(HarnessRulebookProvider)
    return _PROVIDER_CLS[0]


class rulebook_override:
    """with env.rulebook_override(lambda hw, real: rb_or_None): ...   (real = the provider's own get_rulebook)"""

    def __init__(self, fn):
        self.fn = fn

    def __enter__(self):
        _RB_OVERRIDE.append(self.fn)
        return self

    def __exit__(self, *a):
        _RB_OVERRIDE.remove(self.fn)
        return False


_hw_cache = {}


def hw(vendor: str, soft=None):
    from annet.annlib.netdev.views.hardware import HardwareView
    k = (vendor, soft)
    if k not in _hw_cache:
        _hw_cache[k] = HardwareView(HW_MODEL[vendor], soft)
    return _hw_cache[k]


def vendor_obj(vendor: str):
    from annet.vendors import registry_connector
    return registry_connector.get()[vendor]


def formatter(vendor: str, **kw):
    return vendor_obj(vendor).make_formatter(**kw)


class HwVendorCached:
    """a device's hardware view whose `vendor` (a pure function of the model string that walks the whole vendor registry on
    every read) is computed once; everything else is the real HardwareView"""
    def __init__(self, h):
        self._hw = h
        self.vendor = h.vendor

    def __getattr__(self, name):
        return getattr(self._hw, name)

    def __bool__(self):
        return bool(self._hw)

    def __str__(self):
        return str(self._hw)

    # as a dictionary key the wrapper is its HardwareView (code under test may key a cache by device.hw)
    def __hash__(self):
        return hash(self._hw)

    def __eq__(self, other):
        return self._hw == (other._hw if isinstance(other, HwVendorCached) else other)


def device(vendor: str):
    h = hw(vendor)
    return types.SimpleNamespace(hw=h, hostname="dev-" + vendor, fqdn="dev-%s.example" % vendor, id=1,
                                 breed=vendor, neighbours_ids=[])


def to_odict(t):
    """Nested plain structure (dict / list of (row, children)) -> nested OrderedDict as annet uses."""
    if t is None:
        return odict()
    if isinstance(t, dict):
        return odict((k, to_odict(v)) for k, v in t.items())
    return odict((k, to_odict(v)) for k, v in t)


def tree_to_list(t):
    """Nested odict -> JSON-able nested list [[row, children], ...] preserving order."""
    if not t:
        return []
    return [[k, tree_to_list(v)] for k, v in t.items()]


def tree_text(t, indent="  ", level=0):
    out = []
    for k, v in (t.items() if isinstance(t, dict) else t):
        out.append(indent * level + k)
        if v:
            out.append(tree_text(v, indent, level + 1))
    return "\n".join(x for x in out if x)


def install_harness_deploy_driver():
    """annet.deploy.get_deployer() needs a driver class; the harness one delegates apply_deploy_rulebook to the real
    annet.deploy.apply_deploy_rulebook and returns empty configuration / exit command lists (as tests/annet/test_pc_deploy)"""
    import annet.deploy
    from annet.annlib.command import CommandList

    class HarnessDeployDriver(annet.deploy.DeployDriver):
        async def bulk_deploy(self, deploy_cmds, args, progress_bar=None):
            raise NotImplementedError("the harness never deploys")

        def apply_deploy_rulebook(self, hw, cmd_paths, do_finalize=True, do_commit=True):
            return annet.deploy.apply_deploy_rulebook(hw, cmd_paths, do_finalize=do_finalize, do_commit=do_commit)

        def build_configuration_cmdlist(self, hw, do_finalize=True, do_commit=True):
            return CommandList(), CommandList()

        def build_exit_cmdlist(self, hw):
            return CommandList()

    try:
        annet.deploy.driver_connector.set(HarnessDeployDriver)
    except RuntimeError:
        annet.deploy.driver_connector._classes = [HarnessDeployDriver]


def deploy_options(**kw):
    """cli_args.DeployOptions with a ready Query (so that no storage connector is asked for one)"""
    import os
    from annet import cli_args
    from annet.lib import get_template_context_path
    from annet.storage import Query
    os.environ.setdefault("ANN_CONTEXT_CONFIG_PATH", str(get_template_context_path()))

    class HarnessQuery(Query):
        @classmethod
        def new(cls, query, hosts_range=None):
            return cls()
    return cli_args.DeployOptions(query=HarnessQuery(), **kw)


NOTES = []
_DP_MODE = {}


class NotDecided(BaseException):
    """The harness does not fit the tree under test at this point (a private function it drives is gone or takes other
    parameters).  Deliberately NOT an Exception: the checks' handlers that turn the tree's own failures into outcomes
    ('except Exception') let it through; mc/core.py turns it into 'block not decided' - noted, run incomplete, never a finding."""


def call_private(module, name, *args, **kw):
    """module.<name>(*args, **kw) for a PRIVATE function of annet that a property is anchored in.  A missing name, or a call
    that the function's parameter list does not accept, raises NotDecided; everything the function itself raises passes."""
    fn = getattr(module, name, None)
    if fn is None:
        raise NotDecided("%s has no %s in this tree" % (getattr(module, "__name__", module), name))
    try:
        return fn(*args, **kw)
    except TypeError as e:
        if e.__traceback__ is not None and e.__traceback__.tb_next is None:
            # raised by the call itself (argument binding), not inside the function
            raise NotDecided("%s.%s does not take these arguments in this tree: %s" % (getattr(module, "__name__", module), name, e)) from e
        raise


def diff_and_patch(device, old, new, acl_rules, filter_acl_rules, add_comments, ref_track=None, do_commit=True, rb=None):
    """annet.api._diff_and_patch - the production composition behind `annet patch` / `annet deploy` - called the way
    annet's own callers call it.  It is a private function: if a tree gives it another parameter list (a refactoring may
    pass a context object), the harness cannot know the new shape and runs the same composition from its parts instead
    (apply_acl on old and new, make_diff with both ACLs, make_pre, patch_from_pre, strip_unchanged); this is noted, never
    reported as a finding."""
    import inspect
    from annet import api
    fn = getattr(api, "_diff_and_patch", None)
    mode = _DP_MODE.get(id(fn))
    if mode is None:
        try:
            names = list(inspect.signature(fn).parameters) if fn is not None else ["<no such function>"]
        except (TypeError, ValueError):
            names = []
        mode = "classic" if names[:6] == ["device", "old", "new", "acl_rules", "filter_acl_rules", "add_comments"] else "composed"
        _DP_MODE[id(fn)] = mode
        if mode == "composed":
            NOTES.append("annet.api._diff_and_patch has another parameter list in this tree (%s): its composition is run from "
                         "its parts (apply_acl, make_diff, make_pre, patch_from_pre, strip_unchanged)" % ", ".join(names[:6]))
    if mode == "classic":
        return fn(device, old, new, acl_rules, filter_acl_rules, add_comments, ref_track=ref_track, do_commit=do_commit, rb=rb)
    from annet import patching, rulebook
    if rb is None:
        rb = rulebook.get_rulebook(device.hw)
    if acl_rules is not None:
        old = patching.apply_acl(old, acl_rules)
        new = patching.apply_acl(new, acl_rules, with_annotations=add_comments)
    diff_tree = patching.make_diff(old, new, rb, [acl_rules, filter_acl_rules])
    pre = patching.make_pre(diff_tree)
    if not hasattr(api, "patch_from_pre"):
        raise NotDecided("annet.api has neither _diff_and_patch in its known shape nor patch_from_pre in this tree")
    patch_tree = api.patch_from_pre(pre, device.hw, rb, add_comments, ref_track, do_commit)
    return (patching.strip_unchanged(diff_tree), patch_tree)
