"""Process set-up shared by all checks: the same three connector initialisations as annet.annet.main."""
from __future__ import annotations

import logging
import types
from collections import OrderedDict as odict

_done = False

HW_MODEL = {
    "cisco": "Cisco Catalyst",
    "nexus": "Cisco Nexus",
    "iosxr": "Cisco XR",
    "huawei": "Huawei",
    "juniper": "Juniper",
    "routeros": "RouterOS",
    "aruba": "Aruba",
    "arista": "Arista",
    "nokia": "Nokia",
    "pc": "PC",
    "ribbon": "Ribbon",
    "optixtrans": "Huawei DC",
    "b4com": "B4com",
    "h3c": "H3C",
}
ALL_VENDORS = ["huawei", "h3c", "optixtrans", "cisco", "nexus", "iosxr", "arista", "aruba", "b4com",
               "juniper", "ribbon", "nokia", "routeros", "pc"]


def setup():
    global _done
    if _done:
        return
    _done = True
    logging.disable(logging.CRITICAL)
    from annet import rulebook, hardware, diff
    import annet.api  # noqa: F401  (imports the whole production composition)
    for conn, cls in ((rulebook.rulebook_provider_connector, rulebook.DefaultRulebookProvider),
                      (hardware.hardware_connector, hardware.AnnetHardwareProvider),
                      (diff.file_differ_connector, diff.UnifiedFileDiffer)):
        try:
            conn.set(cls)
        except RuntimeError:
            pass


_hw_cache = {}


def hw(vendor: str, soft=None):
    from annet.annlib.netdev.views.hardware import HardwareView
    k = (vendor, soft)
    if k not in _hw_cache:
        _hw_cache[k] = HardwareView(HW_MODEL[vendor], soft)
    return _hw_cache[k]


def vendor_obj(vendor: str):
    from annet.vendors import registry_connector
    return registry_connector.get()[vendor]


def formatter(vendor: str, **kw):
    return vendor_obj(vendor).make_formatter(**kw)


class HwVendorCached:
    """a device's hardware view whose `vendor` (a pure function of the model string that walks the whole vendor registry on
    every read) is computed once; everything else is the real HardwareView"""
    def __init__(self, h):
        self._hw = h
        self.vendor = h.vendor

    def __getattr__(self, name):
        return getattr(self._hw, name)

    def __bool__(self):
        return bool(self._hw)

    def __str__(self):
        return str(self._hw)


def device(vendor: str):
    h = hw(vendor)
    return types.SimpleNamespace(hw=h, hostname="dev-" + vendor, fqdn="dev-%s.example" % vendor, id=1,
                                 breed=vendor, neighbours_ids=[])


def to_odict(t):
    """Nested plain structure (dict / list of (row, children)) -> nested OrderedDict as annet uses."""
    if t is None:
        return odict()
    if isinstance(t, dict):
        return odict((k, to_odict(v)) for k, v in t.items())
    return odict((k, to_odict(v)) for k, v in t)


def tree_to_list(t):
    """Nested odict -> JSON-able nested list [[row, children], ...] preserving order."""
    if not t:
        return []
    return [[k, tree_to_list(v)] for k, v in t.items()]


def tree_text(t, indent="  ", level=0):
    out = []
    for k, v in (t.items() if isinstance(t, dict) else t):
        out.append(indent * level + k)
        if v:
            out.append(tree_text(v, indent, level + 1))
    return "\n".join(x for x in out if x)
