"""Hardware model strings for every sequence of annet's device database (devdb.json), and a naive reference
for which hardware predicates are true on a model string.

Nothing here uses annet's own tree builder / matcher (annet.annlib.netdev.db, devdb.parse_hw_model,
HardwareView): the JSON file is read as data, and a sequence "A.B.C" is true on a model iff the regexes of
"A", "A.B" and "A.B.C" are all found in the model by re.search.

    raw_db()                  {"Cisco.Nexus.N3x": " 3\\d\\d\\d", ...} in file order
    sequences()               [("Cisco",), ("Cisco", "CGS"), ...]
    chain(seq)                [regex of seq[:1], regex of seq[:2], ..., regex of seq]
    ref_true(model)           set of full sequences that are true on model
    models()                  [(sequence_tuple, model_string)]: exactly one validated model per sequence
    models(variants=True)     several distinct validated models per sequence (all branch alternatives of every
                              regex on the chain, three composition styles); models(level=1): primary + concatenation
    resolve(path)             the unique full sequence an attribute path hw.X.Y (full or abbreviated) denotes, or None

Every model returned is validated here with re.search of each regex of its chain; the generator is not trusted.
"""
from __future__ import annotations

import functools
import json
import os
import re

from mc.ref import regexgen


def db_path() -> str:
    import annet  # only to locate the data file of the tree under test
    return os.path.join(os.path.dirname(annet.__file__), "annlib", "netdev", "devdb", "data", "devdb.json")


@functools.lru_cache(None)
def raw_db() -> dict:
    with open(db_path(), "r", encoding="utf-8") as f:
        return json.load(f)  # dicts keep file order


@functools.lru_cache(None)
def sequences() -> list:
    return [tuple(k.split(".")) for k in raw_db()]


def chain(seq) -> list:
    """regex strings of every prefix of seq, outermost first; KeyError if an ancestor is missing from the file"""
    db = raw_db()
    return [db[".".join(seq[:i])] for i in range(1, len(seq) + 1)]


def chain_matches(seq, model: str) -> bool:
    return all(re.search(rx, model) is not None for rx in chain(seq))


def ref_true(model: str) -> set:
    return {seq for seq in sequences() if chain_matches(seq, model)}


# ---------------------------------------------------------------------------------------------------
# abbreviated attribute paths: hw.Nexus.N9x, hw.PC.Mellanox, hw.CE ... denote the full sequence they abbreviate
def _is_slice(part, whole) -> bool:
    n = len(part)
    if n == 0:
        return True
    return any(tuple(whole[i:i + n]) == tuple(part) for i in range(len(whole) - n + 1))


@functools.lru_cache(None)
def sources(path: tuple) -> tuple:
    """all full sequences S that path abbreviates: same last name, and path[:-1] a contiguous run of S[:-1]"""
    return tuple(s for s in sequences() if s[-1] == path[-1] and _is_slice(path[:-1], s[:-1]))


def resolve(path: tuple):
    """the full sequence denoted by an attribute path, or None if no sequence or more than one abbreviates to it"""
    src = sources(tuple(path))
    return src[0] if len(src) == 1 else None


def walkable(path: tuple) -> bool:
    """hw.a.b.c needs hw.a and hw.a.b to denote something too"""
    return all(resolve(path[:i]) is not None for i in range(1, len(path) + 1))


@functools.lru_cache(None)
def aliases() -> list:
    """every abbreviated path (not itself a full sequence) some sequence can be shortened to"""
    out = set()
    full = set(sequences())
    for s in sequences():
        body = s[:-1]
        for i in range(len(body) + 1):
            for j in range(i, len(body) + 1):
                p = tuple(body[i:j]) + (s[-1],)
                if p not in full:
                    out.add(p)
    return sorted(out)


# ---------------------------------------------------------------------------------------------------
# model synthesis
def _pieces(rx: str) -> list:
    return regexgen.gen_variants(rx, full=False)


def _compose_down(rxs, pieces_at, minimal):
    """outermost regex first: append a piece for each regex (only if not already found, when minimal)"""
    cur = ""
    for i, rx in enumerate(rxs):
        piece = pieces_at(i)
        if piece is None:
            return None
        cands = ([cur] if minimal else []) + [cur + piece, piece, piece + cur, cur + " " + piece, cur]
        for c in cands:
            if all(re.search(r, c) for r in rxs[:i + 1]):
                cur = c
                break
        else:
            return None
    return cur


def _overlays(cur, piece):
    """cur itself, then cur extended by (part of) piece on either side, shortest first"""
    c = [cur]
    for k in range(1, len(piece) + 1):
        c.append(piece[:k] + cur)
    for k in range(len(piece) - 1, -1, -1):
        c.append(cur + piece[k:])
    c.append(piece + " " + cur)
    c.append(piece)
    return sorted(c, key=len)


def _compose_up(rxs, pieces_at):
    """innermost regex first, adding as little text as possible for a regex not yet found: gives
    'Cisco Nexus N9K-C9364', 'Huawei CE6860'.  pieces_at(i) -> list of candidate strings for regex i."""
    cur = ""
    n = len(rxs)
    for i in range(n - 1, -1, -1):
        done = rxs[i:]
        best = None
        for piece in pieces_at(i):
            for c in _overlays(cur, piece):
                if best is not None and len(c) >= len(best):
                    break
                if all(re.search(r, c) for r in done):
                    best = c
                    break
        if best is None:
            return None
        cur = best
    return cur


def models_for(seq, level=0) -> list:
    """distinct validated model strings on which every regex of seq's chain is found; the first is the primary one.
    level 0: the primary only; 1: primary + plain concatenation of one string per regex;
    level 2: additionally one model per branch alternative / class member of every regex, three compositions."""
    rxs = chain(seq)
    pcs = [_pieces(rx) for rx in rxs]
    if any(not p for p in pcs):
        return []
    out = []

    def add(m):
        if m is not None and m not in out and all(re.search(r, m) for r in rxs):
            out.append(m)

    first = (lambda i: pcs[i][0])
    add(_compose_up(rxs, lambda i: pcs[i]))
    if level >= 1 or not out:
        add(_compose_down(rxs, first, minimal=False))
    if level == 0:
        return out[:1]
    if level >= 2:
        add(_compose_down(rxs, first, minimal=True))
        for j in range(1, max(len(p) for p in pcs)):
            at = (lambda i, j=j: pcs[i][j % len(pcs[i])])
            add(_compose_up(rxs, lambda i, j=j: [pcs[i][j % len(pcs[i])]]))
            add(_compose_down(rxs, at, minimal=False))
            add(_compose_down(rxs, at, minimal=True))
    return out


@functools.lru_cache(None)
def _models(level: int) -> tuple:
    out = []
    for seq in sequences():
        try:
            ms = models_for(seq, level)
        except (KeyError, re.error):
            ms = []
        for m in ms:
            out.append((seq, m))
    return tuple(out)


def models(variants=False, level=None) -> list:
    """[(sequence_tuple, model_string)].  Default: exactly one (the primary) model per sequence; a sequence for which
    none could be synthesised is absent (see unsynthesised()).  variants=True (= level 2): several per sequence."""
    if level is None:
        level = 2 if variants else 0
    return list(_models(int(level)))


def unsynthesised() -> list:
    have = {s for s, _ in _models(0)}
    return [s for s in sequences() if s not in have]
