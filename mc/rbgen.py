"""Canonical enumeration of the patching-rulebook grammar G used by C01/C03/C08/C09 (simplest first)."""
from __future__ import annotations

from mc.ref.rb import Rule

SHAPES = ["{w}", "{w} *", "{w} ~", "{w} */[0-9]+/", "{w} * k"]
LEAF_FLAGS = [{}, {"glob": True}, {"ordered": True}, {"logic": "undo_redo"}, {"logic": "permanent"},
              {"logic": "ignore_changes"}]
CHILD_FLAGS = LEAF_FLAGS + [{"rewrite": True}]
BLOCK_FLAGS = [{}, {"ordered": True}, {"logic": "permanent"}, {"logic": "undo_redo"}]


def shape(i, w):
    return SHAPES[i].format(w=w)


def families(tier):
    """-> list of (family name, [rulebook = list[Rule]]) ; every Rule tree is fresh"""
    fams = []

    def add(name, lst):
        fams.append((name, lst))

    # F1: one top-level leaf rule, every shape x every flag
    add("F1-leaf", [[Rule(shape(s, "a"), **f)] for s in range(len(SHAPES)) for f in LEAF_FLAGS])
    # F2: two top-level leaf rules; plus specific-before-general overlaps
    f2 = [[Rule(shape(s, "a"), **f), Rule("b *")] for s in range(len(SHAPES)) for f in LEAF_FLAGS]
    f2 += [[Rule("a b"), Rule("a *")], [Rule("a b k"), Rule("a * k"), Rule("a ~")],
           [Rule("a 1", logic="undo_redo"), Rule("a *")]]
    add("F2-two-leaves", f2)
    # F3: plain block with one child of every shape x flag
    add("F3-block-child", [[Rule("a *", [Rule(shape(s, "c"), **f)])] for s in range(len(SHAPES)) for f in CHILD_FLAGS])
    # F4: flagged block with a plain, ordered, permanent, ignore_changes or undo_redo child
    # (an %ordered block that moves is removed and re-created; its children are then written anew, whatever their logic)
    add("F4-flagged-block", [[Rule("a *", [Rule("c *", **cf)], **bf)]
                             for bf in BLOCK_FLAGS for cf in ({}, {"ordered": True}, {"logic": "permanent"}, {"logic": "ignore_changes"},
                                                                      {"logic": "undo_redo"})])
    # F5: block with two children: a plain one of every shape and a flagged one
    # (a block whose content is rewritten as a whole has only %rewrite child rules, as in every shipped rulebook;
    #  mixing %rewrite and ordinary child rules in one block is outside the documented meaning of %rewrite)
    add("F5-block-two-children", [[Rule("a *", [Rule(shape(s, "c")), Rule("d *", **f)])]
                                  for s in (0, 1, 2) for f in LEAF_FLAGS]
        + [[Rule("a *", [Rule(shape(s, "c"), rewrite=True), Rule("d *", rewrite=True)])] for s in (0, 1, 2)])
    # F7: a top-level %global leaf is in force inside blocks too
    add("F7-global", [[Rule("g", glob=True), Rule("a *", [Rule("c *")])],
                      [Rule("g *", glob=True), Rule("a *", [Rule("c")])],
                      [Rule("a *", [Rule("g", glob=True), Rule("c *", [Rule("e")])])],
                      [Rule("a *", [Rule("c *")]), Rule("g ~", glob=True)]])
    # F8: block without placeholder, block next to leaf
    add("F8-mixed", [[Rule("a", [Rule("c *")]), Rule("b *")],
                     [Rule("a *", [Rule("c")]), Rule("b", [Rule("d *")])],
                     [Rule("a ~", [Rule("c *")])],
                     [Rule("a 9", ignore=True), Rule("a *")],
                     [Rule("a *", [Rule("c 9", ignore=True), Rule("c *")])]])
    # F14: %rewrite %global as in the shipped rulebooks (xpl / route-policy bodies): rows nest inside rewritten rows
    add("F14-rewrite-global-nested", [[Rule("a *", [Rule("c *", rewrite=True, glob=True)])],
                                      [Rule("a", [Rule("~", rewrite=True, glob=True)])]])
    # F15: an %ordered block with two default-logic leaf children (a moved block is removed and re-created: its
    #      children inherit the move whatever their own position)
    add("F15-ordered-block-two-children", [[Rule("a *", [Rule("c"), Rule("d")], ordered=True)],
                                           [Rule("a *", [Rule("c *"), Rule("d")], ordered=True)]])
    # F16: three rows of one %ordered rule (permutations in which a later row is back on its old index)
    add("F16-ordered-three-rows", [[Rule("a *", ordered=True, nkeys=3)],
                                   [Rule("b"), Rule("a ~", ordered=True, nkeys=3)],
                                   [Rule("a *", [Rule("c *", ordered=True, nkeys=3)])]])
    # F17: heads that merely BEGIN with a vendor's negation word (node/no, undoer/undo, deleter/delete): they are
    #      ordinary rules, their removal is "<negation word> <row>"
    add("F17-negation-word-prefix-heads", [[Rule("node *"), Rule("undoer *"), Rule("deleter *")],
                                           [Rule("a *", [Rule("node"), Rule("undoer *"), Rule("deleter")])]])
    # F18: one block row fits two block rules that both have children (huawei.rul: 'interface */Tunnel.+/' before
    #      'interface *'): the first gives rule, key and logic, the children of both apply inside the block
    add("F18-overlapping-block-rules", [[Rule("a 9", [Rule("c *")]), Rule("a *", [Rule("d *")])],
                                        [Rule("a 9", [Rule("c")], logic="undo_redo"), Rule("a *", [Rule("d *"), Rule("e")])],
                                        [Rule("b"), Rule("a 9 ~", [Rule("c *")]), Rule("a ~", [Rule("d")])]])
    # F19: %ordered together with an explicit %logic on the same rule (the compiler lets %ordered win: moved rows are
    #      removed and re-created whatever the named logic would do)
    add("F19-ordered-with-logic", [[Rule("a *", ordered=True, logic=lg, nkeys=3)] for lg in ("undo_redo", "permanent", "ignore_changes")]
        + [[Rule("a *", [Rule("c *", ordered=True, logic="undo_redo", nkeys=3)])],
           [Rule("a *", [Rule("c")], ordered=True, logic="undo_redo"), Rule("b")]])
    # F20: two flags on one rule (precedence %ordered > %rewrite > %logic; %global with a logic or an order)
    add("F20-two-flags-on-one-rule", [
        [Rule("a *", [Rule("c *", rewrite=True, logic="undo_redo")])],
        [Rule("a *", [Rule("c *", ordered=True, rewrite=True, nkeys=3)])],
        [Rule("g *", glob=True, ordered=True, nkeys=3), Rule("a *", [Rule("c")])],
        [Rule("g *", glob=True, logic="undo_redo"), Rule("a *", [Rule("c")])],
        [Rule("a *", [Rule("g *", glob=True, logic="permanent"), Rule("c *", [Rule("e")])])],
    ])
    # F21: %rewrite children under an %ordered block (a block that moves with an unchanged body is still written anew)
    add("F21-rewrite-under-ordered", [[Rule("a *", [Rule("c *", rewrite=True)], ordered=True, nkeys=2)],
                                      [Rule("a *", [Rule("c ~", rewrite=True, glob=True)], ordered=True, nkeys=2)],
                                      [Rule("b"), Rule("a *", [Rule("c *", rewrite=True), Rule("d", rewrite=True)], ordered=True, nkeys=2)]])
    # F22: %global rules of two origins in force at once: an outer %global rule stays in force inside a block whose rule
    #      brings %global child rules of its own (and below that block's children)
    add("F22-nested-globals", [[Rule("g", glob=True), Rule("a", [Rule("h", glob=True), Rule("c")])],
                               [Rule("g *", glob=True), Rule("a *", [Rule("h", glob=True)])],
                               [Rule("a", [Rule("g", glob=True), Rule("c", [Rule("h", glob=True), Rule("e")])])]])
    # F23: a %rewrite rule that is itself a block with ordinary child rules (its rows are written anew as a whole, and what
    #      is below a row that stays is still compared row by row)
    add("F23-rewrite-block-with-plain-children", [[Rule("a *", [Rule("c *", [Rule("e *")], rewrite=True)])],
                                                  [Rule("a", [Rule("c *", [Rule("e"), Rule("d *")], rewrite=True)])],
                                                  # a child with its own logic below a rewritten row: written anew with the row
                                                  [Rule("a *", [Rule("c *", [Rule("e", logic="undo_redo"), Rule("d *")], rewrite=True)])],
                                                  # at top level (no enclosing block whose body could be replaced as a whole): the
                                                  # block row itself is held by every configuration, only its content changes
                                                  [Rule("a *", [Rule("c *", [Rule("e *")]), Rule("d *")], rewrite=True, mandatory=True, nkeys=1)],
                                                  [Rule("b"), Rule("a", [Rule("c *"), Rule("d")], rewrite=True, mandatory=True)]])
    # F24: %ignore_case (rows of the flagged rule differ in letter case between device and desired configuration; the
    #      sibling rules are case-sensitive and their rows hold upper-case letters)
    add("F24-ignore-case", [[Rule("B *"), Rule("d *", icase=True)],
                            [Rule("a *", [Rule("C ~"), Rule("d *", icase=True)])],
                            [Rule("a", [Rule("d", icase=True), Rule("E *", logic="undo_redo")])]])
    if tier == "thorough":
        # F6: depth 3
        add("F6-depth3", [[Rule("a *", [Rule("c *", [Rule(shape(s, "e"), **f)])])]
                          for s in range(len(SHAPES)) for f in CHILD_FLAGS])
        # F9: two flagged leaves (flag pairs)
        add("F9-flag-pairs", [[Rule("a *", **f1), Rule("b ~", **f2)]
                              for f1 in LEAF_FLAGS for f2 in LEAF_FLAGS if not (f1.get("ordered") and f2.get("ordered"))])
        # F10: flagged block x flagged child, all shapes of child
        add("F10-block-flag-pairs", [[Rule("a *", [Rule(shape(s, "c"), **cf)], **bf)]
                                     for bf in BLOCK_FLAGS[1:] for cf in CHILD_FLAGS[1:] for s in (0, 1, 3)])
        # F11: two blocks, each with a child
        add("F11-two-blocks", [[Rule("a *", [Rule(shape(s, "c"), **f)]), Rule("b *", [Rule("d *")])]
                               for s in (0, 1) for f in CHILD_FLAGS])
        add("F13-rewrite-nested", [[Rule("a *", [Rule("c *", [Rule("e ~", rewrite=True, glob=True)])])],
                                   [Rule("a ~", [Rule("~", rewrite=True, glob=True)])],
                                   [Rule("a *", [Rule("c ~", rewrite=True)]), Rule("b *")]])
        # F12: three siblings
        add("F12-three-leaves", [[Rule("a *", **f), Rule("b"), Rule("c ~")] for f in LEAF_FLAGS])
    return fams


def knobs(tier):
    return {"cap": 44 if tier == "quick" else 220}
