"""Reference ACL semantics (cover relation) - shares no code with annet.

An ACL is a tree of rules.  Level i has local rules RS_i and %global rules G_i in force.
A row r is *covered* at level i iff some rule in RS_i + G_i matches it directly, or in negated form (rows that begin
with the vendor's negation word are negated forms by definition).  A negated row passes unless every generator's
flag of the governing rule says cant_delete.  Children of r are filtered with
    RS_{i+1} = union of the non-global children of the local rules matching r directly (if the governing match is a
               direct match of a local rule), G_{i+1} = G_i + the %global children of those rules.
A %global rule therefore stays a candidate at every deeper level: a catch-all '~ %global' covers the whole subtree.

Domain in which "which rule governs" is unambiguous (stated syntactically, enforced by the generators of ACL texts):
sibling rules have literal first words, pairwise different unless the rows are identical (several generators); the only
overlap allowed is with a catch-all '~' rule, which every specific rule out-ranks; at most one catch-all is in force
on a path.
"""
from __future__ import annotations

from . import rulelang


class ARule:
    __slots__ = ("pattern", "children", "glob", "cant_delete", "prio")

    def __init__(self, pattern, children=(), glob=False, cant_delete=None, prio=None):
        self.pattern, self.children, self.glob, self.cant_delete = pattern, list(children), glob, cant_delete
        self.prio = prio            # %prio=N: among the rules matching a row the one with the highest prio governs (default 0)

    def line(self):
        s = self.pattern
        if self.glob:
            s += " %global"
        if self.cant_delete is not None:
            s += " %%cant_delete=%d" % (1 if self.cant_delete else 0)
        if self.prio is not None:
            s += " %%prio=%d" % self.prio
        return s

    def to_json(self):
        d = {"p": self.pattern, "g": self.glob, "cd": self.cant_delete, "c": [c.to_json() for c in self.children]}
        if self.prio is not None:
            d["pr"] = self.prio
        return d

    @staticmethod
    def from_json(d):
        return ARule(d["p"], [ARule.from_json(c) for c in d.get("c", [])], d.get("g", False), d.get("cd"), d.get("pr"))


def text(rules, indent=0):
    out = []
    for r in rules:
        out.append("    " * indent + r.line())
        if r.children:
            out.append(text(r.children, indent + 1))
    return "\n".join(out)


class MRule:
    """rule of a merged ACL: same row text from several generators is one rule"""
    __slots__ = ("pattern", "children", "glob", "cds", "gens", "_kids", "prio")

    def __init__(self, pattern):
        self.pattern = pattern
        self.children = []
        self.prio = 0           # the highest %prio any generator wrote on this row
        self.glob = False
        self.cds = []
        self.gens = []


def merge(named_acls):
    """[(generator name, [ARule])] -> [MRule]  (what compiling the concatenated, name-tagged texts means)"""
    def go(items):
        out, index = [], {}
        for gen, rules in items:
            for r in rules:
                m = index.get(r.pattern)
                if m is None:
                    m = index[r.pattern] = MRule(r.pattern)
                    m._kids = []
                    out.append(m)
                m.glob = m.glob or r.glob
                m.prio = max(m.prio, r.prio or 0)
                m.cds.append(r.cant_delete if r.cant_delete is not None else r.pattern.startswith("interface"))
                m.gens.append(gen)
                if r.children:
                    m._kids.append((gen, r.children))
        for m in out:
            m.children = go(m._kids) if not m.glob else []
        return out
    return go(named_acls)


class Level:
    __slots__ = ("locals", "globals")

    def __init__(self, locals_, globals_):
        self.locals, self.globals = list(locals_), list(globals_)


def top(mrules):
    return Level([m for m in mrules if not m.glob], [m for m in mrules if m.glob])


def _dedupe(rules):
    """rules with the same row text that meet at one level (children of several matching rules, or a %global rule
    inherited from above meeting one declared here) are one rule: flags and generator names are united, children too"""
    index, out = {}, []
    for r in rules:
        m = index.get(r.pattern)
        if m is None:
            index[r.pattern] = r
            out.append(r)
            continue
        if m is r:
            continue
        u = MRule(r.pattern)
        u.glob = m.glob or r.glob
        u.prio = max(m.prio, r.prio)
        u.cds = list(m.cds) + list(r.cds)
        u.gens = list(m.gens) + list(r.gens)
        u.children = list(m.children) + list(r.children)
        u._kids = []
        out[out.index(m)] = u
        index[r.pattern] = u
    return out


def is_catch_all(m):
    return m.pattern == "~"


def matches(level: Level, row: str, prefix: str):
    """all (rule, is_local, is_reverse) candidates"""
    out = []
    for is_local, rules in ((True, level.locals), (False, level.globals)):
        for m in rules:
            if rulelang.ref_match(m.pattern, row) is not None:
                out.append((m, is_local, False))
            if rulelang.ref_match(rulelang.negate_pattern(m.pattern, prefix), row) is not None:
                out.append((m, is_local, True))
    return out


def govern(level: Level, row: str, prefix: str):
    """-> None (uncovered) | (rule, is_reverse, child_level)"""
    cands = matches(level, row, prefix)
    if not cands:
        return None
    # %prio first: only the matching rules of the highest prio compete for governing the row (the children of every
    # matching local rule still apply below, see the loop over cands further down)
    top_prio = max(c[0].prio for c in cands)
    ranked = [c for c in cands if c[0].prio == top_prio]
    specific = [c for c in ranked if not is_catch_all(c[0])]
    if specific:
        best = specific[0]
    else:
        negated = row.startswith(prefix + " ")
        rev = [c for c in ranked if c[2]]
        best = rev[0] if (negated and rev) else ranked[0]
    rule, is_local, is_rev = best
    cl, cg = [], []
    if is_local and not is_rev:
        for (m, loc, rv) in cands:
            if loc and not rv:
                cl += [c for c in m.children if not c.glob]
                cg += [c for c in m.children if c.glob]
    return rule, is_rev, Level(_dedupe(cl), _dedupe(cg + level.globals))


def ref_filter(level: Level, cfg, prefix: str):
    """cfg: nested lists [[row, children]...] -> filtered nested lists"""
    out = []
    for row, ch in cfg:
        g = govern(level, row, prefix)
        if g is None:
            continue
        rule, is_rev, sub = g
        if is_rev and all(rule.cds):
            continue
        out.append([row, ref_filter(sub, ch, prefix)])
    return out


def first_uncovered(level: Level, cfg, prefix: str, path=()):
    """path of the first row (document order, depth first) that no rule covers although its parents passed"""
    for row, ch in cfg:
        g = govern(level, row, prefix)
        if g is None:
            return path + (row,)
        rule, is_rev, sub = g
        if is_rev and all(rule.cds):
            continue
        r = first_uncovered(sub, ch, prefix, path + (row,))
        if r is not None:
            return r
    return None


def deletable_generators(level: Level, row: str, prefix: str):
    """generators having a deletable (cant_delete=0) rule matching the row, directly or negated"""
    flags = {}
    for (m, loc, rv) in matches(level, row, prefix):
        for g, cd in zip(m.gens, m.cds):
            flags[g] = flags.get(g, True) and cd
    return sorted(g for g, f in flags.items() if not f)


def is_subtree(small, big):
    """order-preserving subtree: rows of `small` appear in `big` in the same relative order, recursively"""
    j = 0
    for row, ch in small:
        while j < len(big) and big[j][0] != row:
            j += 1
        if j >= len(big):
            return False
        if not is_subtree(ch, big[j][1]):
            return False
        j += 1
    return True


def union(a, b):
    """row-wise union of two filtered views of one tree (order of a, then extra rows of b)"""
    out = [[r, list(ch)] for r, ch in a]
    idx = {r: i for i, (r, _) in enumerate(out)}
    for r, ch in b:
        if r in idx:
            out[idx[r]][1] = union(out[idx[r]][1], ch)
        else:
            out.append([r, ch])
    return out
