"""Reference device: "a device that holds one line per rulebook rule and key".

State: ordered tree as nested lists [[row, children], ...].
Executing a command path (b1..bn, cmd):
  * b1..bn must be block rows that exist (each was entered/created by an earlier command path of its own);
  * at that level:
      - an exit word of the vendor is a no-op;
      - if cmd equals the removal command ref_reverse(rule, key) of an existing row, that row and its subtree go;
      - a negation that matches nothing is a no-op (the final-state comparison still catches a wrong key);
      - otherwise cmd must be known to the rulebook at this level (else: error) and is inserted: an identical
        row stays where it is (the block is entered), a sibling with the same (rule,key) is replaced in place,
        a new row is appended;
      - entering a block whose child rules are %rewrite drops the children governed by those rules first
        ("the block can only be overwritten as a whole").
"""
from __future__ import annotations

from . import rb, rulelang


class DeviceError(Exception):
    pass


def clone(cfg):
    return [[row, clone(ch)] for row, ch in cfg]


def find(cfg, row):
    for i, (r, _) in enumerate(cfg):
        if r == row:
            return i
    return -1


def execute(state, top: rb.Level, path, reverse_prefix, exit_words=()):
    """apply one command path in place"""
    level = top
    cfg = state
    for b in path[:-1]:
        i = find(cfg, b)
        if i < 0:
            raise DeviceError("command %r sent inside block %r which does not exist on the device" % (path[-1], b))
        g = rb.govern(level, b)
        if g is None:
            raise DeviceError("block %r is unknown to the rulebook" % (b,))
        level = g[2]
        cfg = cfg[i][1]
    cmd = path[-1]
    if cmd in exit_words:
        return
    # removal?
    if cmd.startswith(reverse_prefix + " "):
        for i, (row, _) in enumerate(cfg):
            g = rb.govern(level, row)
            if g is None:
                continue
            if rulelang.ref_reverse(g[0].pattern, reverse_prefix, g[1]) == cmd:
                del cfg[i]
                return
        # is it a row the rulebook knows in its own right (a rule written in negated form)?
        if rb.govern(level, cmd) is None:
            return      # negation of something that is not there: no-op
    g = rb.govern(level, cmd)
    if g is None:
        raise DeviceError("patch contains a command unknown to the rulebook at this level: %r (path %r)" % (cmd, path))
    rule, key, sub = g
    i = find(cfg, cmd)
    if i >= 0:
        node = cfg[i]
    else:
        node = None
        for j, (row, _) in enumerate(cfg):
            gj = rb.govern(level, row)
            if gj is not None and gj[0] is rule and gj[1] == key:
                cfg[j] = node = [cmd, cfg[j][1] if rule.children else []]
                break
        if node is None:
            node = [cmd, []]
            cfg.append(node)
    # entering a block with %rewrite children rules: those children are overwritten as a whole
    if any(c.rewrite for c in sub.all_rules()):
        kept = []
        for (row, ch) in node[1]:
            gc = rb.govern(sub, row)
            if gc is not None and gc[0].rewrite:
                continue
            kept.append([row, ch])
        node[1][:] = kept


def run(state, top, paths, reverse_prefix, exit_words=()):
    st = clone(state)
    for p in paths:
        execute(st, top, tuple(p), reverse_prefix, exit_words)
    return st


def patch_paths(patch_tree, prefix=()):
    """command paths straight from a PatchTree (used for flattening vendors): item by item, depth first"""
    out = []
    for item in patch_tree.itms:
        row = str(item.row)
        out.append(prefix + (row,))
        if item.child is not None and item.child.itms:
            out.extend(patch_paths(item.child, prefix + (row,)))
    return out


# ---------------------------------------------------------------------------------------------------
def expected(level: rb.Level, state, new):
    """what the device is expected to hold after deploying patch(state -> new), as a config tree (unordered levels
    in `new` order followed by kept rows)"""
    out = []
    new_rows = {}
    for row, ch in new:
        g = rb.govern(level, row)
        new_rows[row] = g
    old_by_rk = {}
    for row, ch in state:
        g = rb.govern(level, row)
        if g is not None:
            old_by_rk[(g[0].uid, g[1])] = (row, ch, g)
    consumed = set()
    for row, ch in new:
        g = new_rows[row]
        if g is None:
            continue                      # rows unknown to the rulebook are not managed; generated universes have none
        rule, key, sub = g
        old = old_by_rk.get((rule.uid, key))
        if old is not None:
            consumed.add((rule.uid, key))
            orow, och, _ = old
            if orow == row:
                out.append([row, expected(sub, och, ch)])
                continue
            # same key, other text
            if _logic(rule) == "ignore_changes":
                out.append([orow, och])
                continue
            if _logic(rule) == "permanent":
                out.append([orow, removed_children(old[2][2], och)])
                continue
            out.append([row, expected(sub, [], ch)])
        else:
            out.append([row, expected(sub, [], ch)])
    for row, ch in state:
        g = rb.govern(level, row)
        if g is None:
            out.append([row, ch])         # unknown rows are left alone
            continue
        rule, key, sub = g
        if (rule.uid, key) in consumed:
            continue
        if _logic(rule) == "permanent":
            out.append([row, removed_children(sub, ch)])
    return out


def _logic(rule):
    """the logic in force for a rule: an %ordered rule is processed by common.ordered whatever %logic it also names
    (the rule compiler gives %ordered precedence), so its rows are removed and re-created like any other"""
    return None if rule.ordered else rule.logic


def removed_children(level, children):
    """children of a permanent block that is no longer wanted: everything goes except permanent rows"""
    out = []
    for row, ch in children:
        g = rb.govern(level, row)
        if g is None:
            out.append([row, ch])
        elif _logic(g[0]) == "permanent":
            out.append([row, removed_children(g[2], ch)])
    return out
