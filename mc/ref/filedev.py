"""Reference model of a file-configured device (property C19) - deliberately naive, shares no code with annet.

A generator is a row of a table: (path, prio, output, reload, is_safe[, how the prio is declared]); prio is the
DECLARED priority - any int, 0 and negative ones included; a generator that declares none has the documented default
100 (the table then says 100). How it is declared (class attribute, in __init__, omitted) is of no concern here.
For one device:

  planned(gens, soft)      the content planned for a path is the output of the generator with the greatest prio
                           among those that name the path (prios are distinct); the listing order plays no part.
                           In safe mode a path is planned only if that winning generator is marked safe.
                           The reload text of a path is the winner's reload string; on etckeeper systems (soft
                           starting with Cumulus / SwitchDev / SONiC) the line
                           "/usr/bin/etckeeper commitreload <path>" is appended (documented by Entire.get_reload_cmds).
  deploy_plan(old,new,m)   a path is uploaded iff the reload mode m is "force" or the device content differs from
                           the planned content (an absent file differs from every content, also from ""); the
                           uploaded bytes are the planned text, UTF-8; the reload text is attached to exactly the
                           uploaded paths unless m is "no".
  diff_paths(old,new)      the paths for which a file diff is shown: content not equal.

`old` maps path -> text; a path that is missing or mapped to None is absent on the device.
"""
from __future__ import annotations

ETCKEEPER_SOFT = ("Cumulus", "SwitchDev", "SONiC")


def reload_text(path, reload, soft):
    lines = [reload] if reload else []
    if any(soft.startswith(s) for s in ETCKEEPER_SOFT):
        lines.append("/usr/bin/etckeeper commitreload " + path)
    return "\n".join(lines)


def winner(gens, path):
    cands = [g for g in gens if g[0] == path]
    top = max(g[1] for g in cands)
    best = [g for g in cands if g[1] == top]
    assert len(best) == 1, "prios must be distinct per path"
    return best[0]


def planned(gens, soft):
    """gens: iterable of (path, prio, output, reload, is_safe, ...) -> (all_files, safe_files), path -> (text, reload)"""
    gens = list(gens)
    full, safe = {}, {}
    for path in sorted({g[0] for g in gens}):
        w = winner(gens, path)
        full[path] = (w[2], reload_text(path, w[3], soft))
        if w[4]:
            safe[path] = full[path]
    return full, safe


def device_text(old, path):
    return old.get(path)           # None = absent


def differs(old_text, new_text):
    return old_text is None or old_text != new_text


def deploy_plan(old, new, mode):
    """new: path -> (text, reload); mode in no/yes/force -> (files: path->bytes, cmds: path->bytes)"""
    files, cmds = {}, {}
    for path, (text, reload) in new.items():
        if mode == "force" or differs(device_text(old, path), text):
            files[path] = text.encode("utf-8")
            if mode != "no":
                cmds[path] = reload.encode("utf-8")
    return files, cmds


def diff_paths(old, new):
    return sorted(p for p, (text, _r) in new.items() if differs(device_text(old, p), text))


def content_class(old_text, new_text):
    """names the relation of two contents; used only to label counterexamples"""
    if old_text is None:
        return "absent on device vs generated empty" if new_text == "" else "absent on device"
    if old_text == new_text:
        return "equal"
    if old_text.rstrip("\n") == new_text.rstrip("\n"):
        return "differs only by trailing newline"
    if old_text.splitlines() == new_text.splitlines():
        return "differs only in line terminators"
    return "different lines"
