"""Reference semantics of "completion with implicit defaults" (C17). Shares no code with annet.

Rule text (what annet/implicit.py keeps per hardware class) is an indented list of rows; a row starting with '!' is
match-only (it selects blocks, it is never added), '#' starts a comment line. Forests are nested lists
[[row, children], ...] throughout.

    parse_rules(text)             -> [Rule]            own indentation parser
    row_matches(pattern, row)     -> bool              word-by-word matcher of the rule language (literal words are regex
                                                       fragments, '*' one word, '*/re/' one word matching re, '~' the rest)
    row_for_pattern(pattern)      -> str | None        a row the pattern matches (validated with row_matches)
    universe(rules)               -> {level: [(row, kind)]}   the row universe derived mechanically from the rule text
    judge(rules, t, m)            -> [(clause, rule_path, direction, info)]   clauses 1 and 3 of the property on one case
    expected_completion(rules, t) -> forest            the least forest containing t that is closed under the rules
"""
from __future__ import annotations

import functools
import re

from mc.ref import regexgen


class Rule:
    __slots__ = ("row", "ignore", "children", "path")

    def __init__(self, row, ignore, path):
        self.row = row
        self.ignore = ignore
        self.children = []
        self.path = path

    def dump(self):
        return [("!" if self.ignore else "") + self.row, [c.dump() for c in self.children]]


def parse_rules(text: str):
    """Indentation parser: a line is a child of the nearest preceding line with a smaller indent."""
    roots = []
    stack = []  # (indent, Rule)
    for raw in text.split("\n"):
        line = raw.expandtabs(8)
        body = line.strip()
        if not body or body.startswith("#"):
            continue
        indent = len(line) - len(line.lstrip(" "))
        while stack and stack[-1][0] >= indent:
            stack.pop()
        ignore = body.startswith("!")
        if ignore:
            body = body[1:].strip()
            if not body:
                continue
        body = " ".join(body.split())
        parent = stack[-1][1] if stack else None
        rule = Rule(body, ignore, ((parent.path if parent else ()) + (("!" if ignore else "") + body,)))
        (parent.children if parent else roots).append(rule)
        stack.append((indent, rule))
    return roots


# ---- matching ------------------------------------------------------------------------------------------------------
def _tokens(pattern):
    return pattern.split()


@functools.lru_cache(maxsize=None)
def row_matches(pattern: str, row: str) -> bool:
    """Word-by-word: token i must describe word i of the row completely; the row may have more words, except that a
    final '~' needs (and takes) at least one word."""
    toks = _tokens(pattern)
    if row[:1].isspace():
        return False
    words = row.split()
    for i, t in enumerate(toks):
        last = i == len(toks) - 1
        if last and t == "~":
            return len(words) > i
        if last and t == "...":
            return True
        if i >= len(words):
            return False
        w = words[i]
        if t == "*":
            continue
        if t.startswith("*/") and t.endswith("/") and len(t) > 3:
            if not re.fullmatch(t[2:-1], w):
                return False
            continue
        if re.fullmatch(r"[A-Za-z0-9_:-]+", t):
            if w != t:
                return False
            continue
        # a literal token with regex metacharacters is a regex fragment for one word
        if not re.fullmatch(t, w):
            return False
    return True


def row_for_pattern(pattern: str, variant=0):
    """a row in the language of the pattern, realistic where the fragments allow it; None if none can be produced"""
    words = []
    toks = _tokens(pattern)
    for i, t in enumerate(toks):
        last = i == len(toks) - 1
        if t == "*":
            words.append("%s%d" % ("wv"[variant % 2], i))
        elif last and t == "~":
            words.append("%s%d" % ("ts"[variant % 2], i))
        elif last and t == "...":
            words.append("more")
        elif t.startswith("*/") and t.endswith("/") and len(t) > 3:
            g = _pick(t[2:-1], variant)
            if g is None:
                return None
            words.append(g)
        elif re.fullmatch(r"[A-Za-z0-9_:-]+", t):
            words.append(t)
        else:
            g = _pick(t, variant)
            if g is None:
                return None
            words.append(g)
    row = " ".join(words)
    return row if row_matches(pattern, row) else None


def _pick(rx, variant):
    cands = [g for g in regexgen.gen_variants(rx, full=True) if g and not re.search(r"\s", g)]
    if not cands:
        return None
    # prefer the longest candidate: 'GigabitEthernet' rather than 'GigabitEtherne', 'Ethernet1/0' rather than 'Ethernet1/'
    cands.sort(key=lambda s: (-len(s), s))
    return cands[variant % len(cands)]


# ---- universe ------------------------------------------------------------------------------------------------------
def valued(row: str, neg_word: str):
    """words of a row that carries a value: at least two words after an optional negation word, else None"""
    ws = row.split()
    body = ws[1:] if ws and ws[0] == neg_word else ws
    return ws if len(body) >= 2 else None


def alt_value(row: str, neg_word: str):
    """same head, another value: the last word replaced (rows without a value - 'no shutdown' - have none)"""
    ws = valued(row, neg_word)
    if ws is None:
        return None
    last = ws[-1]
    return " ".join(ws[:-1] + [str(int(last) + 1) if last.isdigit() else ("rstp" if last == "mstp" else last + "2")])


def same_head(row: str, default: str, neg_word: str) -> bool:
    """row differs from the (valued) default in the last word only"""
    a, b = row.split(), valued(default, neg_word)
    return b is not None and len(a) == len(b) and a[:-1] == b[:-1] and a[-1] != b[-1]


def negation(row: str, word: str):
    ws = row.split()
    if ws[0] == word and len(ws) > 1:
        return " ".join(ws[1:])
    return word + " " + " ".join(ws)


FOREIGN = "zz foreign"


def rules_by_level(rules, level=1, out=None):
    out = {} if out is None else out
    for r in rules:
        out.setdefault(level, []).append(r)
        rules_by_level(r.children, level + 1, out)
    return out


def has_default(rule) -> bool:
    """some default row is defined somewhere inside this block pattern"""
    return any((not c.ignore) or has_default(c) for c in rule.children)


def universe(rules, neg_word):
    """{level: [(row, kind)]}: kind D default row, P row matching a '!' pattern, Q a second row for the first '!' pattern
    of the level that holds a default (two blocks matched by one rule), H same head/other value (one per level,
    from the first default of the level that carries a value),
    X default row with one more word (one per level: matches the default's pattern without being the default),
    N negated default (one per level), F foreign row (every level, also one level below the deepest rule)."""
    by = rules_by_level(rules)
    uni = {}
    depth = max(by) if by else 0
    for level in range(1, depth + 2):
        rows = []

        def add(row, kind):
            if row is not None and all(row != r for r, _ in rows):
                rows.append((row, kind))
        lv = by.get(level, [])
        for r in lv:
            if not r.ignore:
                add(r.row, "D")
        for r in lv:
            if r.ignore:
                add(row_for_pattern(r.row), "P")
        first_block = next((r for r in lv if r.ignore and has_default(r)), None)
        if first_block is not None:
            add(row_for_pattern(first_block.row, 1), "Q")
        defaults = [r.row for r in lv if not r.ignore]
        multi = [d for d in defaults if valued(d, neg_word)]
        if multi:
            add(alt_value(multi[0], neg_word), "H")
        if defaults:
            add(defaults[0] + " x", "X")
            add(negation(defaults[0], neg_word), "N")
        add(FOREIGN, "F")
        uni[level] = rows
    return uni


# ---- forests -------------------------------------------------------------------------------------------------------
def fdict(forest):
    return {r: c for r, c in forest}


def subtree_missing(t, m, path=()):
    """rows of t (with their path) that are not in m at the same place; [] iff t is a subtree of m"""
    out = []
    md = fdict(m)
    for r, c in t:
        if r not in md:
            out.append(path + (r,))
        else:
            out.extend(subtree_missing(c, md[r], path + (r,)))
    return out


def expected_completion(rules, t):
    """The least forest m containing t such that for every rule, at every place where the rule applies (top level,
    or inside a block of m matched by the parent rule), the default row is present unless a row of t at that place
    matches the rule's pattern. Explicit rows first (in their order), then defaults in rule order."""
    m = []
    t_rows = [r for r, _ in t]
    added = []
    for rule in rules:
        if rule.ignore:
            continue
        if rule.row in t_rows or rule.row in added:
            continue
        if any(row_matches(rule.row, r) for r in t_rows):
            continue
        added.append(rule.row)
    for r, c in t:
        m.append([r, expected_completion(child_rules(rules, r), c)])
    for r in added:
        m.append([r, expected_completion(child_rules(rules, r), [])])
    return m


_sub_cache = {}


def child_rules(rules, row):
    """the rules that apply inside block `row`: children of every rule whose pattern matches it (memoised)"""
    key = (tuple(id(r) for r in rules), row)
    got = _sub_cache.get(key)
    if got is None:
        # the rules are stored with the result so that their ids stay unique for the life of the cache
        got = _sub_cache[key] = (tuple(rules), _uniq_rules([x for rule in rules if row_matches(rule.row, row)
                                                            for x in rule.children]))
    return got[1]


def _uniq_rules(rs):
    out = []
    for r in rs:
        if all(r is not o for o in out):
            out.append(r)
    return out


def judge(rules, t, m):
    """Clause 3 of C17 on one case, stated directly on (t, m) without building anything:
    for every rule and every place where it applies: default row in m  <=>  rule is not match-only and
    (no row of t at that place matches the rule's pattern, or the row itself is in t).
    Also: every row of m that is not in t is the default row of some rule applying at that place.
    -> ([(clause, rule_path, direction, place, parent_origin)], stats)
    stats: suppressed = applications where an explicit row other than the default matched the pattern of a default rule,
    explicit = applications where the default row itself is explicit, entered = blocks of t matched by a rule with children"""
    stats = {"suppressed": 0, "explicit": 0, "entered": 0, "applied": 0}
    out = []
    _judge(rules, t, m, (), True, out, stats)
    return out, stats


def _judge(rules, t, m, path, t_present, out, stats):
    t_rows = [r for r, _ in t]
    td = fdict(t)
    md = fdict(m)
    origin = "explicit" if t_present else "added-by-default"
    allowed_extra = set()
    for rule in rules:
        stats["applied"] += 1
        matched_t = [r for r in t_rows if row_matches(rule.row, r)]
        if rule.ignore:
            expected = rule.row in t_rows
        else:
            expected = (not matched_t) or (rule.row in t_rows)
            allowed_extra.add(rule.row)
            if rule.row in t_rows:
                stats["explicit"] += 1
            elif matched_t:
                stats["suppressed"] += 1
        present = rule.row in md
        if present != expected:
            out.append(("default-iff", rule.path, "missing" if expected else "spurious", path, origin))
    for r in md:
        if r not in td and r not in allowed_extra:
            out.append(("only-defaults-added", ("<no rule>",), "spurious", path + (r,), origin))
    for r, mc_ in m:
        sub = child_rules(rules, r)
        if r in td:
            if sub:
                stats["entered"] += 1
            _judge(sub, td[r], mc_, path + (r,), t_present, out, stats)
        else:
            _judge(sub, [], mc_, path + (r,), False, out, stats)


def size(forest):
    return sum(1 + size(c) for _, c in forest)


def rows_not_in(a, b, path=()):
    """rows of forest a (with path) that forest b lacks at that place"""
    return subtree_missing(a, b, path)
