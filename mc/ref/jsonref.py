"""Reference semantics for C13 (JSON pointers with globs, fragment merge, sub-documents).

Deliberately naive and set-theoretic.  Shares nothing with annet, jsonpointer, jsonpatch or fnmatch:
RFC 6901 parsing, the glob matcher, selection, flattening and the judgement of a merge result are all
written out here.

Vocabulary
  path        tuple of str; an array index is the decimal string of the index ("0", "1", ...)
  flat(d)     {path: leaf}; a leaf is a scalar, or EMPTY_OBJ / EMPTY_ARR for an empty container
  sel(P, d)   concrete paths of d whose i-th component glob-matches the i-th reference token of pattern P;
              objects have their keys as children, arrays their indices, scalars (strings included) none
"""
from __future__ import annotations

import functools


class _Marker:
    def __init__(self, name):
        self.name = name

    def __repr__(self):
        return self.name


ABSENT = _Marker("<absent>")
EMPTY_OBJ = _Marker("{}")
EMPTY_ARR = _Marker("[]")


# ---------------------------------------------------------------------------------------- RFC 6901
def unescape(token: str) -> str:
    return token.replace("~1", "/").replace("~0", "~")


def escape(key: str) -> str:
    return key.replace("~", "~0").replace("/", "~1")


@functools.lru_cache(maxsize=4096)
def parse_pointer(text: str):
    """'/a~1b/*' -> ('a/b', '*');  '' -> () (whole document)"""
    if text == "":
        return ()
    if not text.startswith("/"):
        raise ValueError("pointer must start with '/': %r" % (text,))
    return tuple(unescape(t) for t in text[1:].split("/"))


def format_pointer(path) -> str:
    return "".join("/" + escape(str(p)) for p in path)


# ---------------------------------------------------------------------------------------- globs
@functools.lru_cache(maxsize=65536)
def glob_match(pat: str, s: str) -> bool:
    """'*' = any run of characters (also empty), '?' = exactly one character, everything else literal.
    Character classes are outside the alphabet of this check and are refused."""
    if "[" in pat:
        raise NotImplementedError("character classes are not part of the reference")
    if pat == "":
        return s == ""
    c = pat[0]
    if c == "*":
        rest = pat[1:]
        for i in range(len(s) + 1):
            if glob_match(rest, s[i:]):
                return True
        return False
    if s == "":
        return False
    if c == "?" or c == s[0]:
        return glob_match(pat[1:], s[1:])
    return False


# ---------------------------------------------------------------------------------------- documents
def kind(v) -> str:
    if isinstance(v, dict):
        return "object"
    if isinstance(v, list):
        return "array"
    return "scalar"


def children(v):
    if isinstance(v, dict):
        return [(k, v[k]) for k in v]
    if isinstance(v, list):
        return [(str(i), x) for i, x in enumerate(v)]
    return []


def get(doc, path):
    cur = doc
    for comp in path:
        if isinstance(cur, dict):
            if comp not in cur:
                return ABSENT
            cur = cur[comp]
        elif isinstance(cur, list):
            if not (comp.isdigit() and str(int(comp)) == comp and int(comp) < len(cur)):
                return ABSENT
            cur = cur[int(comp)]
        else:
            return ABSENT
    return cur


def select(parts, doc):
    """all concrete paths of doc matched by the pattern tokens `parts` (document order)"""
    cur = [((), doc)]
    for tok in parts:
        nxt = []
        for path, node in cur:
            for key, sub in children(node):
                if glob_match(tok, key):
                    nxt.append((path + (key,), sub))
        cur = nxt
    return [p for p, _ in cur]


def flatten(doc):
    out = {}

    def rec(path, v):
        if isinstance(v, dict):
            if not v:
                out[path] = EMPTY_OBJ
            for k, x in v.items():
                rec(path + (k,), x)
        elif isinstance(v, list):
            if not v:
                out[path] = EMPTY_ARR
            for i, x in enumerate(v):
                rec(path + (str(i),), x)
        else:
            out[path] = v
    rec((), doc)
    return out


def all_nodes(doc):
    """{path: kind} for every node including the root"""
    out = {}

    def rec(path, v):
        out[path] = kind(v)
        for k, x in children(v):
            rec(path + (k,), x)
    rec((), doc)
    return out


def same_leaf(a, b) -> bool:
    """leaf equality that does not confuse 0/False/0.0 or 1/True"""
    if a is b:
        return True
    if isinstance(a, _Marker) or isinstance(b, _Marker):
        return False
    return type(a) is type(b) and a == b


def same_value(a, b) -> bool:
    """deep, type-strict equality of two JSON values; ABSENT equals only ABSENT"""
    if a is ABSENT or b is ABSENT:
        return a is b
    if isinstance(a, dict):
        return isinstance(b, dict) and set(a) == set(b) and all(same_value(a[k], b[k]) for k in a)
    if isinstance(a, list):
        return isinstance(b, list) and len(a) == len(b) and all(same_value(x, y) for x, y in zip(a, b))
    return not isinstance(b, (dict, list)) and same_leaf(a, b)


def clone(v):
    """plain copy of a JSON value"""
    if isinstance(v, dict):
        return {k: clone(x) for k, x in v.items()}
    if isinstance(v, list):
        return [clone(x) for x in v]
    return v


def compatible(d1, d2) -> bool:
    """one schema: every path present in both has the same kind in both"""
    if kind(d1) != kind(d2):
        return False
    if isinstance(d1, dict):
        return all(compatible(d1[k], d2[k]) for k in d1 if k in d2)
    return True


def is_prefix(p, q) -> bool:
    return len(p) <= len(q) and q[:len(p)] == p


# ---------------------------------------------------------------------------------------- merge judgement
def selection(acl, *docs):
    """union over all patterns of acl and all given documents of the selected concrete paths"""
    sel = set()
    for pat in acl:
        parts = parse_pointer(pat)
        for d in docs:
            sel.update(select(parts, d))
    return sel


def _inside(sel, q):
    return any(q[:i] in sel for i in range(len(q) + 1))


def _ancestor_of_selected(sel, q):
    n = len(q)
    return any(len(p) > n and p[:n] == q for p in sel)


def array_selection_satisfiable(old, f, sel):
    """Selecting single array elements can ask for the impossible (a hole in an array).  For every array that has
    selected elements but is not itself inside a selected subtree: the indices that must be present afterwards
    ({selected i < len(f's array)} + {unselected i < len(old's array)}) must be 0..n-1."""
    by_parent = {}
    for p in sel:
        if not p:
            continue
        parent = p[:-1]
        po, pf = get(old, parent), get(f, parent)
        if isinstance(po, list) or isinstance(pf, list):
            if _inside(sel, parent):
                continue
            by_parent.setdefault(parent, set()).add(p[-1])
    for parent, idx in by_parent.items():
        po, pf = get(old, parent), get(f, parent)
        n_old = len(po) if isinstance(po, list) else 0
        n_f = len(pf) if isinstance(pf, list) else 0
        chosen = {int(i) for i in idx if i.isdigit()}
        present = {i for i in chosen if i < n_f} | {i for i in range(n_old) if i not in chosen}
        if present != set(range(len(present))):
            return False
    return True


def judge_fragment(old, f, acl, r, sel=None):
    """Judge r = merge(old, f, acl).  Returns (status, problems, info):
    status 'unsat' = the statement cannot be met by any result (array hole), nothing judged;
    problems = list of {'code', 'path', ...} - empty iff the three clauses hold;
    info = {'selected': n, 'kind_mismatch': [...]} (not part of the verdict)."""
    if sel is None:
        sel = selection(acl, f, old)
    info = {"selected": len(sel), "kind_mismatch": []}
    if not array_selection_satisfiable(old, f, sel):
        return "unsat", [], info
    problems = []
    # clause 1: on every selected part the result equals the fragment (absent in f => absent in r)
    for p in sorted(sel):
        vf, vr = get(f, p), get(r, p)
        if same_value(vf, vr):
            continue
        parent_is_array = isinstance(get(f, p[:-1]), list) or isinstance(get(old, p[:-1]), list)
        how = "stale" if vf is ABSENT else ("missing" if vr is ABSENT else "differs")
        problems.append({"code": "selected-" + how, "path": format_pointer(p),
                         "where": "array element" if parent_is_array else "object member",
                         "fragment": repr(vf), "result": repr(vr)})
    # clause 2: everywhere else the result equals the old document
    fo, fr = flatten(old), flatten(r)
    for q, v in fo.items():
        if _inside(sel, q):
            continue
        if _ancestor_of_selected(sel, q):
            # an empty container of old above a selected part: it may have been filled, it must keep its kind
            vr = get(r, q)
            if vr is ABSENT or kind(vr) != ("object" if v is EMPTY_OBJ else "array" if v is EMPTY_ARR else "scalar"):
                problems.append({"code": "outside-changed", "path": format_pointer(q), "old": repr(v), "result": repr(vr)})
            continue
        if q not in fr:
            problems.append({"code": "outside-lost", "path": format_pointer(q), "old": repr(v), "result": repr(get(r, q))})
        elif not same_leaf(fr[q], v):
            problems.append({"code": "outside-changed", "path": format_pointer(q), "old": repr(v), "result": repr(fr[q])})
    for q, v in fr.items():
        if _inside(sel, q):
            continue
        if _ancestor_of_selected(sel, q):
            # a container that ended up empty above a selected part (its selected members were removed, or it was
            # already empty); it must be a container of the kind the inputs give that path
            want = get(old, q)
            if want is ABSENT:
                want = get(f, q)
            if not isinstance(v, _Marker) or want is ABSENT or kind(want) != ("object" if v is EMPTY_OBJ else "array"):
                problems.append({"code": "outside-added", "path": format_pointer(q), "result": repr(v), "old": repr(get(old, q))})
            continue
        if q not in fo:
            problems.append({"code": "outside-added", "path": format_pointer(q), "result": repr(v), "old": repr(get(old, q))})
        # value differences were reported from the old side
    # not part of the verdict: nodes of r whose kind differs from what old / f have at that path
    nodes_o, nodes_f = all_nodes(old), all_nodes(f)
    for q, k in all_nodes(r).items():
        want = nodes_f.get(q) if _inside(sel, q) else nodes_o.get(q, nodes_f.get(q))
        if want is not None and want != k:
            info["kind_mismatch"].append(format_pointer(q))
    return "ok", problems, info


# ---------------------------------------------------------------------------------------- filter judgement
def judge_filter(doc, filters, res):
    """res = filter(doc, filters).  Problems unless every leaf of res is a leaf of doc (sub-document), and lies inside a
    part selected by one of the filters.  info['exact'] says whether res is the whole restriction of doc."""
    sel = selection([f.strip() for f in filters if f.strip()], doc)
    fd, fr = flatten(doc), flatten(res)
    problems = []
    for q, v in fr.items():
        if isinstance(v, _Marker):
            dv = get(doc, q)
            if q == () and v is EMPTY_OBJ:
                continue
            if dv is ABSENT or kind(dv) != ("object" if v is EMPTY_OBJ else "array"):
                problems.append({"code": "not-subdocument", "path": format_pointer(q), "result": repr(v), "doc": repr(dv)})
            elif not (_inside(sel, q) or _ancestor_of_selected(sel, q)):
                problems.append({"code": "outside-selection", "path": format_pointer(q), "result": repr(v)})
            continue
        if q not in fd or not same_leaf(fd[q], v):
            problems.append({"code": "not-subdocument", "path": format_pointer(q), "result": repr(v), "doc": repr(get(doc, q))})
        elif not _inside(sel, q):
            problems.append({"code": "outside-selection", "path": format_pointer(q), "result": repr(v)})
    want = {q: v for q, v in fd.items() if _inside(sel, q)}
    exact = all(q in fr and same_leaf(fr[q], v) for q, v in want.items())
    return problems, {"selected": len(sel), "exact": exact, "leaves_kept": len(fr), "leaves_doc": len(fd)}


def features(acl, *docs):
    """Syntactic features of a case used only to label violations (never to decide one):
    special   characters of '/~' that occur in a key of a selected path
    string    a pattern continues below a string scalar with a token that matches "0"
    element   a selected path addresses an array element"""
    special = set()
    string = element = False
    for pat in acl:
        parts = parse_pointer(pat.strip())
        for d in docs:
            for p in select(parts, d):
                for i, comp in enumerate(p):
                    if not isinstance(get(d, p[:i]), list):
                        special.update(c for c in comp if c in "/~")
                if p and isinstance(get(d, p[:-1]), list):
                    element = True
            for i in range(1, len(parts)):
                if glob_match(parts[i], "0"):
                    for p in select(parts[:i], d):
                        if isinstance(get(d, p), str) and get(d, p) != "":
                            string = True
    return {"special": "".join(sorted(special)), "string": string, "element": element}
