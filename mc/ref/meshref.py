"""Reference model for property C15 (mesh) - deliberately naive, shares no code with annet.mesh.

Three parts:

1. Data: topologies (devices, parallel links, port numbering), rule descriptors and *handler tables*.
   A handler is a pure function given as a table (a JSON dict); `eval_*_handler` is the definition of what the
   handler with that table assigns, as plain dicts  field -> value.  The harness wraps the same definition into a
   real python handler (so the handler is an *input* to annet, not code under test); the reference feeds it with
   match arguments and port sets that it derives itself from the device names and the topology.

2. `ref_execute(topo, rules, device)`: what a device's BGP view must be:
     * a name template `{v}` captures digits as int, `{v:re}` captures `re` as str, the whole name must match;
       a filter expression that cannot be evaluated (type error ...) is false;
     * a direct rule applies to (A, B) if they are linked and (A,B) or (B,A) fits (left,right); it applies once per
       port group (all links / each link); an indirect rule applies to any two distinct devices; the handler is
       always evaluated as (left, right);
     * session data is merged into both peers; several results for the same (neighbour, neighbour address, vrf)
       are merged field by field: equal values or a conflict, `families` by set union; they must sit on the same
       port set;
     * interface: lag -> Trunk<lag> (sub-interface of it if subif), subif -> <port>.<subif>, svi -> Vlan<svi>,
       else the single port; lag+svi, svi+subif, several ports without lag/svi are errors; for indirect peers
       ifname/subif/svi or no interface at all;
     * the peer seen from A: addr = ip(B's addr), remote_as = B's asnum, local_as = A's asnum, A's own per-peer
       options, session-level families / vrf;
     * global options: assignments of all matching device rules merged path by path (tuples concatenated, sets
       united, dict keys united, otherwise equal-or-conflict).
   The result is either ("error", reason) or expected peers / interface operations / option paths.

3. Merge laws (part B): `ref_merge_value(kind, x, y)` on plain values, models as dicts.
"""
from __future__ import annotations

import ipaddress
import re

NOT_SET = "<NOT_SET>"


class RefConflict(Exception):
    pass


class RefError(Exception):
    """an error the executor is expected to refuse with (not a merge conflict)"""


# ---------------------------------------------------------------------------------------------------
# 1a. topologies
def topo_ports(topo):
    """topo = {"devices": [names], "links": [[a, b, k, crossed], ...], "base": {name: first port number} (optional)}
    -> (ifaces, conns): ifaces[dev] = [(port, nbr|None, nbr_port|None)] in interface-list order (lo0 first);
    conns[(a, b)] = [(a_port, b_port)] in a's interface order"""
    base = topo.get("base") or {}            # first port number per device: the two ends of a link name their ports differently
    counter = {d: int(base.get(d, 0)) for d in topo["devices"]}
    ifaces = {d: [("lo0", None, None)] for d in topo["devices"]}
    for a, b, k, crossed in topo["links"]:
        ap = ["if%d" % (counter[a] + i) for i in range(k)]
        bp = ["if%d" % (counter[b] + i) for i in range(k)]
        counter[a] += k
        counter[b] += k
        peer_of_a = {ap[i]: (bp[k - 1 - i] if crossed else bp[i]) for i in range(k)}
        peer_of_b = {v: u for u, v in peer_of_a.items()}
        for p in ap:
            ifaces[a].append((p, b, peer_of_a[p]))
        for p in bp:
            ifaces[b].append((p, a, peer_of_b[p]))
    conns = {}
    for d in topo["devices"]:
        for port, nbr, nport in ifaces[d]:
            if nbr is not None:
                conns.setdefault((d, nbr), []).append((port, nport))
    return ifaces, conns


def neighbours(ifaces, dev):
    out = []
    for _port, nbr, _np in ifaces[dev]:
        if nbr is not None and nbr not in out:
            out.append(nbr)
    return out


# ---------------------------------------------------------------------------------------------------
# 1b. name templates and filters
SHORT_NAMES = [False]      # registry option match_short_name: names are compared without their domain part


def tmpl_match(tmpl, name):
    """`spine-{n}` / `tor-{n:\\d+}` against a device name -> dict of captured variables or None"""
    if SHORT_NAMES[0]:
        name = name.split(".", 1)[0]
    rx, types = "", []
    for part in re.split(r"(\{[^{}]*\})", tmpl):
        if part.startswith("{") and part.endswith("}"):
            var, sep, custom = part[1:-1].partition(":")
            if sep:
                rx += "(%s)" % custom
                types.append((var, str))
            else:
                rx += r"(\d+)"
                types.append((var, int))
        else:
            rx += re.escape(part)
    m = re.fullmatch(rx, name)
    if not m:
        return None
    return {var: typ(val) for (var, typ), val in zip(types, m.groups())}


PAIR_FILTERS = {
    "": lambda L, R: True,
    "lt": lambda L, R: L["n"] < R["n"],
    "le": lambda L, R: L["n"] <= R["n"],
    "eq": lambda L, R: L["n"] == R["n"],
    "ne": lambda L, R: L["n"] != R["n"],
    "eqc": lambda L, R: L["n"] == int(R["n"]),          # Left.n == Right.n.cast_(int)
    "role_ne": lambda L, R: L["role"] != R["role"],
    "role_ne_lt": lambda L, R: L["role"] != R["role"] and L["n"] <= R["n"],   # two expressions
    "rin1": lambda L, R: R["n"] in (1,),                 # Right.n.in_([1])
}
SINGLE_FILTERS = {
    "": lambda M: True,
    "m1": lambda M: M["n"] == 1,
    "mlt2": lambda M: M["n"] < 2,
}


def _safe(fn, *args):
    try:
        return bool(fn(*args))
    except (TypeError, ValueError, AttributeError, KeyError, IndexError):
        return False


def pair_match(rule, left_name, right_name):
    L = tmpl_match(rule["l"], left_name)
    if L is None:
        return None
    R = tmpl_match(rule["r"], right_name)
    if R is None:
        return None
    if not _safe(PAIR_FILTERS[rule.get("f", "")], L, R):
        return None
    return L, R


def single_match(rule, name):
    M = tmpl_match(rule["l"], name)
    if M is None:
        return None
    if not _safe(SINGLE_FILTERS[rule.get("f", "")], M):
        return None
    return M


# ---------------------------------------------------------------------------------------------------
# 1c. handler tables (the definition of the table-driven handlers)
FAMILIES = {"4": ["ipv4_unicast"], "6": ["ipv6_unicast"], "46": ["ipv4_unicast", "ipv6_unicast"], "": None}
LAG, SUBIF, SVI = 1, 100, 10


def _common_attrs(t, left, right, sess, ln, rn):
    a = t.get("as", "s0")
    if a == "s0":
        sess["asnum"] = 65000
    elif a == "s1":
        sess["asnum"] = 65001
    elif a == "dot":
        sess["asnum"] = "1.10"
    elif a == "side":
        left["asnum"] = 64512 + ln
        right["asnum"] = 64700 + rn
    elif a == "selfconf":               # peer data contradicting the session data of the same handler
        sess["asnum"] = 65000
        left["asnum"] = 65009
    fam = FAMILIES[t.get("fam", "4")]
    if fam is not None:
        sess["families"] = frozenset(fam)
    if t.get("vrf"):
        sess["vrf"] = t["vrf"]
    if t.get("bfd", "") != "":
        sess["bfd"] = bool(int(t["bfd"]))
    mtu = t.get("mtu", "")
    if mtu:
        val = {"1": 1500, "2": 9000}[mtu[1]]
        if mtu[0] in "LB":
            left["mtu"] = val
        if mtu[0] in "RB":
            right["mtu"] = val


def _pnum(port):
    return int(port[2:])


def eval_pair_handler(kind, t, L, R, pairs, acp=None):
    """kind direct|indirect; L, R captured variables of the left/right name; pairs = sorted [(left port, right port)]
    (None for indirect); acp = (left.all_connected_ports, right.all_connected_ports) as sets of names (direct only)
    -> (left fields, right fields, session fields)

    table key "acp" makes the handler a function of the peers' all_connected_ports ("all interconnections", the
    names each peer uses for its own ends):
      lmin / rmin    the processed group is the primary one iff it holds the lowest-numbered of the left / right
                     peer's connected ports; the others get a different subnet
      lname / rname  the subnet is numbered after the lowest-numbered connected port of the left / right peer
      lses / rses    the session-level options bfd and vrf are set for the primary group only"""
    left, right, sess = {}, {}, {}
    ln, rn = int(L["n"]), int(R["n"])
    if t.get("guard") == "lt" and not ln < rn:
        return left, right, sess               # "do the check inside the handler and return without modifications"
    plan = t.get("plan", 0)
    pk = min(_pnum(lp) for lp, _rp in pairs) if pairs else 0
    third = 16 * ln + rn + (64 if "role" in L else 0)
    second = (100 if kind == "indirect" else 0) + (plan & 1)
    mode = t.get("acp", "")
    if mode and kind == "direct":
        side = 0 if mode[0] == "l" else 1
        own_all = min(_pnum(p) for p in acp[side])
        if mode[1:] == "min":
            if min(_pnum(pr[side]) for pr in pairs) != own_all:
                third += 128
        elif mode[1:] == "name":
            second += 2 * (1 + own_all)
    left["addr"] = "10.%d.%d.%d/31" % (second, third, 2 * pk)
    right["addr"] = "10.%d.%d.%d/31" % (second, third, 2 * pk + 1)
    if plan == 2:                              # shares the left address of plan 0, own right address
        right["addr"] = "10.%d.%d.%d/31" % (second, third, 2 * pk + 129)
    _common_attrs(t, left, right, sess, ln, rn)
    if mode in ("lses", "rses") and kind == "direct":
        # session-level options on the primary group only (the one holding the peer's lowest-numbered connected port):
        # a handler may set an option for one of several parallel links and leave the others at their defaults
        if min(_pnum(pr[0 if mode[0] == "l" else 1]) for pr in pairs) != min(_pnum(p) for p in acp[0 if mode[0] == "l" else 1]):
            sess.pop("bfd", None)
            sess.pop("vrf", None)
    sel = t.get("if", "port" if kind == "direct" else "none")
    if kind == "direct":
        for side, obj in (("L", left), ("R", right)):
            s = sel
            if s[0] in "LR" and s[1:] in ("lag", "svi", "subif"):
                s = s[1:] if s[0] == side else "port"
            if s in ("lag", "lagsub", "lagsvi", "lagmin"):
                obj["lag"] = LAG
            if s == "lagmin":
                obj["lag_links_min"] = 1
            if s in ("subif", "lagsub", "svisub"):
                obj["subif"] = SUBIF
            if s in ("svi", "lagsvi", "svisub"):
                obj["svi"] = SVI
    else:
        for side, obj in (("L", left), ("R", right)):
            s = sel
            if s[0] in "LR" and s[1:] in ("lo", "svi"):
                s = s[1:] if s[0] == side else "none"
            if s in ("lo", "losub"):
                obj["ifname"] = "lo0"
            if s == "nolo":
                obj["ifname"] = "lo9"
            if s in ("losub", "svisub"):
                obj["subif"] = SUBIF
            if s in ("svi", "svisub"):
                obj["svi"] = SVI
    return left, right, sess


def eval_virtual_handler(t, M, num):
    local, virt, sess = {}, {}, {}
    n = int(M["n"])
    plan = t.get("plan", 0)
    local["addr"] = "10.%d.%d.254/24" % (200 + plan, n)
    virt["addr"] = "10.%d.%d.%d" % (200 + plan, n, num)
    if t.get("if", "svi") == "svi":
        local["svi"] = SVI + plan
    a = t.get("as", "s0")
    if a == "s0":
        sess["asnum"] = 65000
    elif a == "side":
        local["asnum"] = 64512 + n
        virt["asnum"] = 64900 + num
    fam = FAMILIES[t.get("fam", "4")]
    if fam is not None:
        sess["families"] = frozenset(fam)
    if t.get("mtu"):
        local["mtu"] = {"1": 1500, "2": 9000}[t["mtu"][1]]
    if t.get("bfd", "") != "":
        sess["bfd"] = bool(int(t["bfd"]))
    return local, virt, sess


def eval_device_handler(t, M):
    """-> list of (path tuple, value); a path walks attributes and dict keys of the GlobalOptions object"""
    n = int(M["n"])
    out = []
    a = t.get("as", "")
    if a == "c":
        out.append((("local_as",), 65000))
    elif a == "n":
        out.append((("local_as",), 64512 + n))
    if t.get("rid"):
        out.append((("router_id",), "1.1.%s.%d" % (t["rid"], n)))
    agg = t.get("agg", "")
    if agg:
        out.append((("ipv4_unicast", "aggregate", "routes"), tuple({"x": "10.0.0.0/8", "y": "10.1.0.0/16"}[c] for c in agg)))
    if t.get("aggpol"):
        out.append((("ipv4_unicast", "aggregate", "policy"), t["aggpol"]))
    v = t.get("vrf", "")
    if v == "a":
        out.append((("vrf", "v", "rt_import"), ("1:1",)))
        out.append((("vrf", "v", "groups", "g", "families"), frozenset(["ipv4_unicast"])))
        out.append((("vrf", "v", "groups", "g", "mtu"), 1500))
    elif v == "b":
        out.append((("vrf", "v", "rt_import"), ("2:2", "1:1")))
        out.append((("vrf", "v", "groups", "g", "families"), frozenset(["ipv6_unicast"])))
        out.append((("vrf", "v", "import_policy"), "IMP"))
    elif v == "c":
        out.append((("vrf", "w", "rt_export"), ("3:3",)))
        out.append((("vrf", "v", "groups", "h", "mtu"), 9000))
    g = t.get("grp", "")
    if g == "a":
        out.append((("groups", "g", "remote_as"), 65001))
        out.append((("groups", "g", "families"), frozenset(["ipv4_unicast"])))
    elif g == "b":
        out.append((("groups", "g", "remote_as"), 65002))
    elif g == "c":
        out.append((("groups", "h", "families"), frozenset(["ipv6_unicast"])))
        out.append((("groups", "g", "families"), frozenset(["ipv6_unicast"])))
    return out


# ---------------------------------------------------------------------------------------------------
# 2. reference executor
UNITE_FIELDS = ("families",)
CONCAT_FIELDS = ("routes", "redistributes", "rt_import", "rt_export", "rt_import_v4", "rt_export_v4")


def merge_fields(acc, new, what):
    """field-by-field merge of two plain dicts; returns a new dict"""
    out = dict(acc)
    for k, v in new.items():
        if k not in out:
            out[k] = v
        elif k in UNITE_FIELDS:
            out[k] = frozenset(out[k]) | frozenset(v)
        elif k in CONCAT_FIELDS:
            out[k] = tuple(out[k]) + tuple(v)
        elif out[k] == v and type(out[k]) is type(v):
            pass
        else:
            raise RefConflict("%s: field %s: %r vs %r" % (what, k, out[k], v))
    return out


def flatten(reg):
    """registry descriptor {"rules": [...], "nested": [reg, ...]} -> rules in lookup order (own first, then nested)"""
    out = list(reg.get("rules", []))
    for sub in reg.get("nested", []):
        out.extend(flatten(sub))
    return out


def ip_of(addr):
    return str(ipaddress.ip_interface(addr).ip)


def _asn(v):
    if isinstance(v, str) and "." in v:
        hi, lo = v.split(".")
        return (int(hi) << 16) + int(lo)
    return int(v)


PEER_OPTION_FIELDS = ("mtu", "bfd")


def _peer(kind, hostname, local, conn, interface, roles):
    opts = {"local_as": _asn(local["asnum"]) if "asnum" in local else None}
    for f in PEER_OPTION_FIELDS:
        opts[f] = local.get(f)
    return {
        "kind": kind, "hostname": hostname, "addr": ip_of(conn["addr"]), "interface": interface,
        "remote_as": _asn(conn["asnum"]) if "asnum" in conn else None,
        "families": sorted(conn.get("families", ())), "vrf_name": conn.get("vrf", ""),
        "options": opts, "local_addr": local.get("addr"), "roles": "".join(sorted(roles)),
    }


def _iface_changes(local):
    lag, svi, subif = local.get("lag"), local.get("svi"), local.get("subif")
    if lag is not None and svi is not None:
        raise RefError("lag and svi together")
    if svi is not None and subif is not None:
        raise RefError("svi and subif together")
    return lag, svi, subif


def ref_sessions(topo, rules, dev):
    """the merged sessions of `dev`, before interface selection: list of dicts
    {kind, nbr, local, conn, ports (sorted tuple | None), roles}; raises RefConflict / RefError"""
    ifaces, conns = topo_ports(topo)
    out = []
    # direct
    sessions = {}
    order = []
    for nbr in neighbours(ifaces, dev):
        for rule in rules:
            if rule["k"] != "direct":
                continue
            for local_is_left in (True, False):
                lname, rname = (dev, nbr) if local_is_left else (nbr, dev)
                m = pair_match(rule, lname, rname)
                if m is None:
                    continue
                all_pairs = conns[(dev, nbr)]                      # (local port, remote port)
                groups = [list(all_pairs)] if rule.get("pp", "u") == "u" else [[p] for p in all_pairs]
                for grp in groups:
                    lr_pairs = sorted((lp, rp) if local_is_left else (rp, lp) for lp, rp in grp)
                    # what each peer must see as all_connected_ports: its own names of all links of this pair
                    own_all = frozenset(lp for lp, _rp in all_pairs)
                    nbr_all = frozenset(rp for _lp, rp in all_pairs)
                    acp = (own_all, nbr_all) if local_is_left else (nbr_all, own_all)
                    left, right, sess = eval_pair_handler("direct", rule["h"], m[0], m[1], lr_pairs, acp)
                    if not left and not right and not sess:
                        continue
                    left = merge_fields(left, sess, "session vs left peer")
                    right = merge_fields(right, sess, "session vs right peer")
                    local, conn = (left, right) if local_is_left else (right, left)
                    key = (nbr, conn["addr"], conn.get("vrf", ""))
                    ports = tuple(sorted(lp for lp, _rp in grp))
                    role = "L" if local_is_left else "R"
                    if key in sessions:
                        s = sessions[key]
                        s["local"] = merge_fields(s["local"], local, "local peer")
                        s["conn"] = merge_fields(s["conn"], conn, "connected peer")
                        if s["ports"] != ports:
                            raise RefConflict("two results for one session on different port sets")
                        s["roles"].add(role)
                    else:
                        sessions[key] = {"kind": "direct", "nbr": nbr, "local": local, "conn": conn, "ports": ports,
                                         "roles": {role}}
                        order.append(key)
    out.extend(sessions[k] for k in order)
    # virtual
    for rule in rules:
        if rule["k"] != "virtual":
            continue
        M = single_match(rule, dev)
        if M is None:
            continue
        for num in rule["nums"]:
            local, virt, sess = eval_virtual_handler(rule["h"], M, num)
            if not local and not virt and not sess:
                continue
            virt = merge_fields(virt, sess, "session vs virtual peer")
            # the local side of a virtual pair takes from the session only what a local virtual peer can carry
            local = merge_fields(local, {k: v for k, v in sess.items() if k in ("asnum", "bfd")}, "session vs local")
            if "svi" not in local:
                raise RefError("virtual peer without svi")
            out.append({"kind": "virtual", "nbr": "", "local": local, "conn": virt, "ports": None, "roles": {"L"}})
    # indirect
    sessions = {}
    order = []
    for other in topo["devices"]:
        if other == dev:
            continue                                               # self pairs are outside the explored domain
        for rule in rules:
            if rule["k"] != "indirect":
                continue
            for local_is_left in (True, False):
                lname, rname = (dev, other) if local_is_left else (other, dev)
                m = pair_match(rule, lname, rname)
                if m is None:
                    continue
                left, right, sess = eval_pair_handler("indirect", rule["h"], m[0], m[1], None)
                if not left and not right and not sess:
                    continue
                left = merge_fields(left, sess, "session vs left peer")
                right = merge_fields(right, sess, "session vs right peer")
                local, conn = (left, right) if local_is_left else (right, left)
                key = (other, conn["addr"], conn.get("vrf", ""))
                role = "L" if local_is_left else "R"
                if key in sessions:
                    s = sessions[key]
                    s["local"] = merge_fields(s["local"], local, "local peer")
                    s["conn"] = merge_fields(s["conn"], conn, "connected peer")
                    s["roles"].add(role)
                else:
                    sessions[key] = {"kind": "indirect", "nbr": other, "local": local, "conn": conn, "ports": None,
                                     "roles": {role}}
                    order.append(key)
    out.extend(sessions[k] for k in order)
    return out


def self_pair_rules(topo, rules):
    """indirect rules that would pair a device with itself (outside the explored domain)"""
    bad = []
    for i, rule in enumerate(rules):
        if rule["k"] == "indirect" and any(pair_match(rule, d, d) for d in topo["devices"]):
            bad.append(i)
    return bad


def ref_execute(topo, rules, dev):
    """-> {"status": "ok", "peers": [...], "ops": [...], "global": {path: value}, "dict_keys": {...}}
        | {"status": "error", "why": str, "conflict": bool}"""
    SHORT_NAMES[0] = bool(topo.get("short"))
    try:
        return _ref_execute(topo, rules, dev)
    finally:
        SHORT_NAMES[0] = False


def _ref_execute(topo, rules, dev):
    try:
        glob, dict_keys = ref_global(rules, dev)
        sess = ref_sessions(topo, rules, dev)
        ifaces, _conns = topo_ports(topo)
        own_ifaces = {p for p, _n, _np in ifaces[dev]}
        peers, ops = [], []
        for s in sess:
            local = s["local"]
            if s["kind"] == "direct":
                lag, svi, subif = _iface_changes(local)
                ports = s["ports"]
                if len(ports) > 1 and lag is None and svi is None:
                    raise RefError("several links and neither lag nor svi")
                if lag is not None:
                    name = "Trunk%d" % lag
                    ops.append(["make_lag", lag, list(ports), local.get("lag_links_min")])
                    if subif is not None:
                        ops.append(["add_subif", name, subif])
                        name = "%s.%d" % (name, subif)
                elif subif is not None:
                    ops.append(["add_subif", ports[0], subif])
                    name = "%s.%d" % (ports[0], subif)
                elif svi is not None:
                    ops.append(["add_svi", svi])
                    name = "Vlan%d" % svi
                else:
                    name = ports[0]
                ops.append(["add_addr", name, local["addr"], local.get("vrf")])
            elif s["kind"] == "indirect":
                _lag, svi, subif = _iface_changes(local)
                ifname = local.get("ifname")
                if subif is not None:
                    ops.append(["add_subif", ifname, subif])
                    name = "%s.%d" % (ifname, subif)
                elif svi is not None:
                    ops.append(["add_svi", svi])
                    name = "Vlan%d" % svi
                elif not ifname:
                    name = None
                else:
                    if ifname not in own_ifaces:
                        raise RefError("interface %s does not exist" % ifname)
                    name = ifname
                if name is not None:
                    ops.append(["add_addr", name, local["addr"], local.get("vrf")])
            else:
                ops.append(["add_svi", local["svi"]])
                name = "Vlan%d" % local["svi"]
            if "asnum" not in s["conn"]:
                raise RefError("no asnum for the connected peer")
            peers.append(_peer(s["kind"], s["nbr"], local, s["conn"], name, s["roles"]))
        return {"status": "ok", "peers": peers, "ops": ops, "global": glob, "dict_keys": dict_keys}
    except RefConflict as e:
        return {"status": "error", "why": str(e), "conflict": True}
    except RefError as e:
        return {"status": "error", "why": str(e), "conflict": False}


def ref_global(rules, dev):
    """-> ({path: value}, {dict path: set of keys}) for the paths assigned by the matching device rules"""
    vals = {}
    for rule in rules:
        if rule["k"] != "device":
            continue
        M = single_match(rule, dev)
        if M is None:
            continue
        for path, value in eval_device_handler(rule["h"], M):
            last = path[-1]
            if path not in vals:
                vals[path] = value
            elif last in UNITE_FIELDS:
                vals[path] = frozenset(vals[path]) | frozenset(value)
            elif last in CONCAT_FIELDS:
                vals[path] = tuple(vals[path]) + tuple(value)
            elif vals[path] == value:
                pass
            else:
                raise RefConflict("global option %s: %r vs %r" % ("/".join(path), vals[path], value))
    keys = {}
    for path in vals:
        for i, step in enumerate(path[:-1]):
            if step in ("vrf", "groups", "l2vpn") and (i == 0 or path[i - 1] != step):
                keys.setdefault(path[:i + 1], set()).add(path[i + 1])
    return vals, keys


# ---------------------------------------------------------------------------------------------------
# 3. merge laws on plain values.  A model instance is {"__model__": class name, field: value, ...};
#    `spec(class name)` gives field -> merger kind, where a kind is one of
#    "forbid_change", "forbid", "unite", "concat", "use_first", "use_last", ("merge", class name),
#    ("dict", value kind)
class Undefined(Exception):
    """the merge is refused (MergeForbiddenError expected)"""


def ref_merge_value(kind, x, y, spec):
    if x == NOT_SET:
        return y
    if y == NOT_SET:
        return x
    if kind == "forbid_change":
        if x == y:
            return x
        raise Undefined()
    if kind == "forbid":
        raise Undefined()
    if kind == "unite":
        return frozenset(x) | frozenset(y)
    if kind == "concat":
        return tuple(x) + tuple(y)
    if kind == "use_first":
        return x
    if kind == "use_last":
        return y
    if kind[0] == "merge":
        return ref_merge_model(x, y, spec)
    if kind[0] == "dict":
        out = dict(x)
        for k, v in y.items():
            out[k] = ref_merge_value(kind[1], out[k], v, spec) if k in out else v
        return out
    raise AssertionError(kind)


def ref_merge_model(a, b, spec):
    """fields of the first argument's class are merged; the result has the first argument's class"""
    out = {"__model__": a["__model__"]}
    for field, kind in spec(a["__model__"]).items():
        v = ref_merge_value(kind, a.get(field, NOT_SET), b.get(field, NOT_SET), spec)
        if v != NOT_SET:
            out[field] = v
    return out


# the mergers the models are expected to declare: everything is single-valued (equal or conflict) except:
DECLARED = {
    "families": "unite",
    "routes": "concat", "redistributes": "concat",
    "rt_import": "concat", "rt_export": "concat", "rt_import_v4": "concat", "rt_export_v4": "concat",
    "aggregate": ("merge", "Aggregate"),
    "ipv4_unicast": ("merge", "FamilyOptions"), "ipv6_unicast": ("merge", "FamilyOptions"),
    "ipv4_labeled_unicast": ("merge", "FamilyOptions"), "ipv6_labeled_unicast": ("merge", "FamilyOptions"),
    "l2vpn_evpn": ("merge", "FamilyOptions"),
    "groups": ("dict", ("merge", "MeshPeerGroup")),
    "l2vpn": ("dict", ("merge", "L2VpnOptions")),
}
DECLARED_PER_CLASS = {
    ("GlobalOptionsDTO", "vrf"): ("dict", ("merge", "VrfOptions")),
    ("GlobalOptions", "vrf"): ("dict", ("merge", "VrfOptions")),
    ("Pair", "local"): ("merge", None), ("Pair", "connected"): ("merge", None), ("Pair", "device"): "use_last",
    ("VirtualPair", "local"): ("merge", "VirtualLocalDTO"), ("VirtualPair", "connected"): ("merge", "VirtualPeerDTO"),
}
# classes in which `families`/... keep the default although the name is in DECLARED: none so far
SCALAR_VRF_CLASSES = ("MeshSession", "DirectPeerDTO", "IndirectPeerDTO", "VirtualPeerDTO", "DirectPeer", "IndirectPeer",
                      "VirtualPeer")     # here `vrf` is the session's vrf name (single-valued)


def expected_kind(cls_name, field):
    if (cls_name, field) in DECLARED_PER_CLASS:
        return DECLARED_PER_CLASS[(cls_name, field)]
    if field == "vrf":
        return "forbid_change"
    return DECLARED.get(field, "forbid_change")
