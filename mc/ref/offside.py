"""Reference offside-rule parser (C05). Deliberately naive; shares no code with annet.

Reading of the property:

* A text is a sequence of lines. A line is one of
    - a *section break*: '#' is one of the comment markers and the line has '#' in column 0
      (Huawei prints a bare '#' between top-level sections); it closes every open block and the next
      content line sets a new base column;
    - *ignored*: nothing but blanks, or the first non-blank characters are a comment marker;
    - *content*: anything else. Its column is the number of leading blanks (a tab counts as ONE column),
      its text is the line without surrounding blanks.
* The first content line of a section fixes the base column. A later content line left of the base column
  is refused ("negative-top-indent").
* Every content line is placed under the nearest preceding content line (of the same section) that is
  still open and has a strictly smaller column. Lines at a column >= the new line's column are closed.
* If the new line is left of the previous content line (a dedent), its column must be the column of one of
  the blocks that were open - otherwise the text is refused ("inconsistent-dedent"): it returns to a
  column no enclosing block started at.
* Repeated identical texts under the same parent are one node (first-seen order is kept).

`Machine` is the incremental form (one line at a time, used in lock-step with the real generator chain),
`parse_text` the whole-text form.
"""
from __future__ import annotations

import re

BLANKS = (" ", "\t")

NEG_TOP = "negative-top-indent"
BAD_DEDENT = "inconsistent-dedent"


class RefError(Exception):
    def __init__(self, reason, number, text):
        super().__init__("%s at line %d: %s" % (reason, number, text))
        self.reason = reason
        self.number = number      # 1-based, counted over the lines handed to the machine
        self.text = text


def classify(raw, comments):
    """-> ("break",) | ("skip",) | ("content", column, text)"""
    if "#" in comments and raw[:1] == "#":
        return ("break",)
    col = 0
    while col < len(raw) and raw[col] in BLANKS:
        col += 1
    text = raw.strip()
    if text == "":
        return ("skip",)
    for mark in comments:
        if text[:len(mark)] == mark:
            return ("skip",)
    return ("content", col, text)


class Machine:
    def __init__(self, comments=("!", "#")):
        self.comments = tuple(comments)
        self.root = {}
        self.open = []        # [(column, text, node)] outermost first; columns strictly increase
        self.base = None      # column of the first content line of the current section
        self.number = 0       # lines fed so far
        self.dead = None      # RefError once refused
        self.resets = 0
        self.merged = 0
        self.maxdepth = 0

    def feed(self, raw):
        """Feed one line. Returns the path (tuple of texts, outermost first) for a content line, else None.
        Raises RefError where the text is refused."""
        assert self.dead is None
        self.number += 1
        kind = classify(raw, self.comments)
        if kind[0] == "break":
            self.open = []
            self.base = None
            self.resets += 1
            return None
        if kind[0] == "skip":
            return None
        _, col, text = kind
        if self.base is None:
            self.base = col
        if col < self.base:
            self.dead = RefError(NEG_TOP, self.number, text)
            raise self.dead
        prev_col = self.open[-1][0] if self.open else None
        open_cols = [c for (c, _, _) in self.open]
        if prev_col is not None and col < prev_col and col not in open_cols:
            self.dead = RefError(BAD_DEDENT, self.number, text)
            raise self.dead
        while self.open and self.open[-1][0] >= col:
            self.open.pop()
        parent = self.open[-1][2] if self.open else self.root
        if text in parent:
            self.merged += 1
        else:
            parent[text] = {}
        self.open.append((col, text, parent[text]))
        self.maxdepth = max(self.maxdepth, len(self.open))
        return tuple(t for (_, t, _) in self.open)

    # state abstraction used for the refinement map in the state-space search
    def columns(self):
        return [c for (c, _, _) in self.open]

    def path(self):
        return tuple(t for (_, t, _) in self.open)


def tree_list(node):
    """nested dict -> [[text, children], ...] in insertion order"""
    return [[k, tree_list(v)] for k, v in node.items()]


# --- splitter models ---------------------------------------------------------------------------------
def lines_common(text):
    """A text is cut at newlines; empty lines are not lines (they do not count for line numbers)."""
    return [ln for ln in text.split("\n") if ln != ""]


_INNER_BLANKS = re.compile(r"(\S) {2,}(?=\S)")


def lines_huawei(text):
    """As lines_common, and runs of >= 2 spaces *inside* a line (between non-blank characters) are one space.
    (The real Huawei splitter also drops 'end-list'/'endif'/'end-filter' lines; the alphabet has none.)"""
    return [_INNER_BLANKS.sub(r"\1 ", ln) for ln in text.split("\n") if ln != ""]


LINE_MODELS = {"common": lines_common, "huawei": lines_huawei}


def parse_text(text, comments=("!", "#"), splitter="common"):
    """-> ("ok", tree_list, machine) | ("error", RefError, machine)"""
    m = Machine(comments)
    for ln in LINE_MODELS[splitter](text):
        try:
            m.feed(ln)
        except RefError as e:
            return ("error", e, m)
    return ("ok", tree_list(m.root), m)
