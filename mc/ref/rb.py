"""Reference view of a patching rulebook: the *structure* a rulebook text is rendered from.

The text handed to annet's compiler is produced from Rule objects, so the reference never parses rule texts;
it interprets the structure with the token matcher of mc/ref/rulelang.py.

Rule selection (what the rule language documents, and what shipped rulebooks rely on by listing specific
rules before general ones): at a level the candidates are the local rules in file order followed by the
%global rules in force (those of the matching parents first, then the inherited ones); the first candidate
whose pattern matches governs the row.  Child rules of a row = children of *all* matching local rules if the
governing rule is local, else none; %global rules stay in force at every level below.
A '!' rule hides the row from the rulebook (the row is unknown).
"""
from __future__ import annotations

import itertools

from . import rulelang

LOGIC_TEXT = {
    None: "",
    "undo_redo": " %logic=common.undo_redo",
    "permanent": " %logic=common.permanent",
    "ignore_changes": " %logic=common.ignore_changes",
}


class Rule:
    __slots__ = ("pattern", "children", "glob", "ordered", "rewrite", "logic", "ignore", "uid", "nkeys", "written", "icase", "mandatory")
    _n = 0

    def __init__(self, pattern, children=(), glob=False, ordered=False, rewrite=False, logic=None, ignore=False, nkeys=None, icase=False, mandatory=False):
        self.pattern = pattern
        self.mandatory = mandatory  # universe only: every configuration holds this rule's rows (no transition adds or removes them)
        self.icase = icase          # %ignore_case: rows of this rule are matched and compared without regard to letter case
        self.children = list(children)
        self.glob = glob
        # what the rule line says, and what is in force: the rule compiler gives %ordered precedence over %rewrite, and
        # both over an explicit %logic (annet/rulebook/patching.py: _compile_patching); a %global rule has no children
        self.written = (ordered, rewrite, logic)
        self.ordered = ordered
        self.rewrite = rewrite and not ordered
        self.logic = None if (ordered or rewrite) else logic
        self.ignore = ignore
        self.nkeys = nkeys          # force this many keys in the universe (e.g. 3 rows of an %ordered rule)
        Rule._n += 1
        self.uid = Rule._n

    def line(self):
        s = ("!" if self.ignore else "") + self.pattern
        if self.glob:
            s += " %global"
        ordered, rewrite, logic = self.written
        if ordered:
            s += " %ordered"
        if rewrite:
            s += " %rewrite"
        s += LOGIC_TEXT[logic]
        if self.icase:
            s += " %ignore_case"
        return s

    def flags(self):
        ordered, rewrite, logic = self.written
        return [f for f, on in (("global", self.glob), ("ordered", ordered), ("rewrite", rewrite),
                                (logic, logic), ("ignore", self.ignore), ("icase", self.icase), ("mandatory", self.mandatory)) if on]

    def to_json(self):
        return {"p": self.pattern, "f": self.flags(), "c": [c.to_json() for c in self.children], "k": self.nkeys}

    @staticmethod
    def from_json(d):
        f = set(d.get("f", []))
        logic = next((x for x in ("undo_redo", "permanent", "ignore_changes") if x in f), None)
        return Rule(d["p"], [Rule.from_json(c) for c in d.get("c", [])], glob="global" in f, ordered="ordered" in f,
                    rewrite="rewrite" in f, logic=logic, ignore="ignore" in f, nkeys=d.get("k"), icase="icase" in f, mandatory="mandatory" in f)


def text(rules, indent=0):
    out = []
    for r in rules:
        out.append("    " * indent + r.line())
        if r.children:
            out.append(text(r.children, indent + 1))
    return "\n".join(out)


class Level:
    """rules in force at one nesting level"""
    __slots__ = ("locals", "globals")

    def __init__(self, locals_, globals_):
        self.locals = list(locals_)
        self.globals = _dedupe(globals_)

    def candidates(self):
        return [(r, True) for r in self.locals] + [(r, False) for r in self.globals]

    def all_rules(self):
        return self.locals + self.globals


def _dedupe(rules):
    seen, out = set(), []
    for r in rules:
        if r.line() not in seen:
            seen.add(r.line())
            out.append(r)
    return out


def top_level(rules):
    return Level([r for r in rules if not r.glob], [r for r in rules if r.glob])


def govern(level: Level, row: str):
    """-> (rule, key, child_level) or None if the rulebook does not know the row"""
    matches = []
    for (r, is_local) in level.candidates():
        k = rulelang.ref_match(r.pattern.lower(), row.lower()) if r.icase else rulelang.ref_match(r.pattern, row)
        if k is not None:
            if r.ignore:
                return None
            matches.append((r, is_local, k))
    if not matches:
        return None
    first, first_local, key = matches[0]
    cl, cg = [], []
    if first_local:
        for (r, is_local, _) in matches:
            if is_local:
                cl += [c for c in r.children if not c.glob]
                cg += [c for c in r.children if c.glob]
    return first, key, Level(_dedupe(cl), cg + level.globals)


# ---------------------------------------------------------------------------------------------------
# row universes

STAR_VALUES = ["1", "2", "3"]
TILDE_VALUES = ["1", "2 3", "4"]


def rule_keys(rule: Rule, nkeys=2):
    toks = rule.pattern.split()
    ph = [t for t in toks if rulelang.tok_class(t) in ("*", "*/re/", "~")]
    if not ph:
        return [()]
    keys = []
    for i in range(rule.nkeys or nkeys):
        k = []
        for t in ph:
            c = rulelang.tok_class(t)
            k.append(TILDE_VALUES[i] if c == "~" else STAR_VALUES[i])
        keys.append(tuple(k))
    return keys


def rule_rows(rule: Rule, key, nvalues=2):
    """config rows of this (rule,key): the instantiated pattern, and for leaf rules whose tail is free a second text"""
    toks = rule.pattern.split()
    k = list(key)
    out = []
    for t in toks:
        c = rulelang.tok_class(t)
        out.append(k.pop(0) if c in ("*", "*/re/", "~") else t)
    base = " ".join(out)
    rows = [base]
    tail_free = rulelang.tok_class(toks[-1]) != "~"
    # rows of %ordered rules are identified by their whole text: where a row whose text changes under the same key
    # ends up in the sequence is device-specific (replace in place vs. re-append), so the universe has one text per key
    if rule.icase:
        # a second spelling of the same row (other letter case): for the rulebook it is the same line
        if nvalues > 1 and base.upper() != base:
            rows.append(base.upper())
    elif nvalues > 1 and tail_free and not rule.children and not rule.ordered:
        rows.append(base + " x")
    return rows


def universe(level: Level, nkeys=2, nvalues=2, cap=None, _depth=0, child_nkeys=1):
    """all config trees (nested lists [[row, children], ...]) over the row universe of the rules in force:
    at most one row per (rule,key); children only under present parents; rows of %ordered rules in every order."""
    groups = []   # one entry per rule: list of alternatives, each alternative = list of [row, children] (in order)
    for r in level.all_rules():
        if r.ignore:
            # a row hidden by a '!' rule is unmanaged: it may be present on either side and is left alone
            if not rule_keys(r, 1)[0]:
                groups.append([[], [[r.pattern, []]]])
            continue
        per_key = []
        for key in rule_keys(r, nkeys):
            opts = [None]
            for row in rule_rows(r, key, nvalues):
                g = govern(level, row)
                if g is None or g[0] is not r or g[1] != key:
                    continue          # shadowed by an earlier sibling: not this rule's row
                # rows governed by a %global rule are leaves of the universe (the rule is in force inside itself,
                # which would nest without end)
                # (%rewrite %global rules - "the block is rewritten as a whole" - get one level of nesting so that
                #  changes deep inside a rewritten block are part of the universe)
                nest_ok = (not r.glob) or (r.rewrite and _depth < 2)
                sub = (universe(g[2], child_nkeys, nvalues, cap, _depth + 1, child_nkeys)
                       if (g[2].all_rules() and nest_ok and _depth < 4) else [[]])
                for ch in sub:
                    opts.append([row, ch])
            per_key.append(opts[1:] if (r.mandatory and len(opts) > 1) else opts)
        alts = []
        for combo in itertools.product(*per_key):
            chosen = [c for c in combo if c is not None]
            if r.ordered and len(chosen) > 1:
                for perm in itertools.permutations(chosen):
                    alts.append(list(perm))
            else:
                alts.append(chosen)
        groups.append(alts)
    out = []
    for combo in itertools.product(*groups):
        cfg = []
        for part in combo:
            cfg.extend(part)
        out.append(cfg)
        if cap is not None and len(out) > cap:
            return out
    return out


def canon_state(level: Level, cfg):
    """canonical form of a config: rows of non-%ordered rules sorted, %ordered groups kept in order"""
    items = []
    for row, ch in cfg:
        g = govern(level, row)
        if g is None:
            items.append((2, row, row, ()))
            continue
        r, key, sub = g
        # (rows of an %ignore_case rule are the same line whatever their letter case)
        items.append((0 if not r.ordered else 1, r.uid, row.lower() if r.icase else row, canon_state(sub, ch)))
    unordered = sorted([(uid, row, ch) for (o, uid, row, ch) in items if o == 0])
    ordered = [(uid, row, ch) for (o, uid, row, ch) in items if o == 1]
    unknown = sorted([(uid, row, ch) for (o, uid, row, ch) in items if o == 2])
    return (tuple((row, ch) for (_, row, ch) in unordered), tuple((row, ch) for (_, row, ch) in ordered),
            tuple((row, ch) for (_, row, ch) in unknown))
