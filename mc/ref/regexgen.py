"""Produce a string in the language of a (small) regex by walking re's parse tree.

Every produced string is re-validated with re.fullmatch / re.search by the caller-facing helpers, so a
sampler bug cannot cause a false alarm - it can only shrink coverage (which is counted).
"""
from __future__ import annotations

import re

try:
    import re._parser as sre_parse
    import re._constants as sre_c
except ImportError:  # py<3.11
    import sre_parse
    import sre_constants as sre_c


def _char_for_in(items, avoid_space=True, pick=0):
    negate = False
    pos = []
    for (op, av) in items:
        if op == sre_c.NEGATE:
            negate = True
        elif op == sre_c.LITERAL:
            pos.append(chr(av))
        elif op == sre_c.RANGE:
            lo, hi = av
            pos.append(chr(lo))
            if hi > lo:
                pos.append(chr(lo + 1))
        elif op == sre_c.CATEGORY:
            pos.append({sre_c.CATEGORY_DIGIT: "7", sre_c.CATEGORY_WORD: "w", sre_c.CATEGORY_SPACE: " ",
                        sre_c.CATEGORY_NOT_SPACE: "x", sre_c.CATEGORY_NOT_DIGIT: "d",
                        sre_c.CATEGORY_NOT_WORD: "-"}.get(av, "x"))
    if not negate:
        return pos[pick % len(pos)] if pos else "x"
    for c in "xq7Z-_.":
        if c not in pos:
            ok = True
            for (op, av) in items:
                if op == sre_c.RANGE and av[0] <= ord(c) <= av[1]:
                    ok = False
                if op == sre_c.CATEGORY:
                    if av == sre_c.CATEGORY_DIGIT and c.isdigit():
                        ok = False
                    if av == sre_c.CATEGORY_SPACE and c.isspace():
                        ok = False
                    if av == sre_c.CATEGORY_WORD and (c.isalnum() or c == "_"):
                        ok = False
            if ok:
                return c
    return "x"


def _gen(parsed, variant=0, pick=0):
    """variant selects the alternative of every branch and lengthens repeats; pick selects the member of
    every positive character class.  (0, 0) is the historical behaviour."""
    out = []
    for (op, av) in parsed:
        if op == sre_c.LITERAL:
            out.append(chr(av))
        elif op == sre_c.NOT_LITERAL:
            out.append("x" if chr(av) != "x" else "y")
        elif op == sre_c.ANY:
            out.append("x")
        elif op == sre_c.IN:
            out.append(_char_for_in(av, pick=pick))
        elif op == sre_c.BRANCH:
            alts = av[1]
            out.append(_gen(alts[variant % len(alts)], variant, pick))
        elif op == sre_c.SUBPATTERN:
            out.append(_gen(av[3], variant, pick))
        elif op in (sre_c.MAX_REPEAT, sre_c.MIN_REPEAT):
            lo, hi, sub = av
            n = lo
            if variant and hi > lo:
                n = lo + 1
            out.append("".join(_gen(sub, variant, pick) for _ in range(n)))
        elif op == sre_c.AT:
            pass
        elif op in (sre_c.ASSERT, sre_c.ASSERT_NOT):
            pass
        elif op == sre_c.CATEGORY:
            out.append(_char_for_in([(op, av)]))
        elif op == sre_c.GROUPREF:
            return None
        else:
            return None
        if out and out[-1] is None:
            return None
    return "".join(out)


def gen(regex: str, full=True, flags=0):
    """a string matching regex (fullmatch if full else search), or None"""
    try:
        parsed = sre_parse.parse(regex, flags)
    except Exception:
        return None
    for variant in range(4):
        try:
            s = _gen(parsed, variant)
        except Exception:
            s = None
        if s is None:
            continue
        try:
            ok = re.fullmatch(regex, s, flags) if full else re.search(regex, s, flags)
        except re.error:
            return None
        if ok:
            return s
    return None


def gen_variants(regex: str, full=False, flags=0, variants=12, picks=2):
    """Distinct strings in the language of regex (fullmatch if full else search), one per (branch alternative /
    repeat length, character-class member) choice; each is validated with re, so the list may be shorter than
    variants*picks but never contains a non-matching string.  [] if nothing could be produced."""
    try:
        parsed = sre_parse.parse(regex, flags)
    except Exception:
        return []
    out = []
    for variant in range(variants):
        for pick in range(picks):
            try:
                s = _gen(parsed, variant, pick)
            except Exception:
                s = None
            if s is None or s in out:
                continue
            try:
                ok = re.fullmatch(regex, s, flags) if full else re.search(regex, s, flags)
            except re.error:
                return out
            if ok:
                out.append(s)
    return out


def anchored_at_start(regex: str, flags=0) -> bool:
    """True if the regex can only match at the beginning of the string (starts with ^ or \\A)."""
    try:
        parsed = sre_parse.parse(regex, flags)
    except Exception:
        return False
    return bool(len(parsed)) and parsed[0][0] == sre_c.AT and parsed[0][1] in (sre_c.AT_BEGINNING,
                                                                              sre_c.AT_BEGINNING_STRING)


# -------- rule rows -----------------------------------------------------------------------------------
_SIMPLE = re.compile(r"^[A-Za-z0-9_:-]+$")


def is_simple_row(row: str) -> bool:
    """rows the token-walking reference matcher fully understands"""
    if "(?i)" in row:
        row = row.replace("(?i)", "")
    toks = row.split()
    for i, t in enumerate(toks):
        last = (i == len(toks) - 1)
        if t == "*" or (last and t in ("~", "...")):
            continue
        if t.startswith("*/") and t.endswith("/") and len(t) > 3:
            inner = t[2:-1]
            if "(" in inner or "\\s" in inner or " " in inner or "." in inner or "\\S" in inner or "^" in inner or "$" in inner:
                return False
            continue
        if not _SIMPLE.match(t):
            return False
    return True


def synth_row(row: str):
    """-> (text, key|None) or None.  key is given only where the expected key is unambiguous."""
    icase = "(?i)" in row
    r = row.replace("(?i)", "") if icase else row
    toks = r.split()
    if not toks:
        return None
    words, key = [], []
    key_known = True
    has_star = "*" in r
    for i, t in enumerate(toks):
        last = (i == len(toks) - 1)
        if t == "*":
            words.append("w%d" % i)
            key.append("w%d" % i)
        elif t.startswith("*/") and t.endswith("/") and len(t) > 3:
            g = gen(t[2:-1], full=True, flags=re.I if icase else 0)
            if g is None or not g or re.search(r"\s", g):
                return None
            words.append(g)
            key.append(g)
            if "(" in t[2:-1].replace("(?", ""):
                key_known = key_known and has_star  # inner groups are made non-capturing only with '*'
        elif last and t == "~":
            words.append("t%d" % i)
            key.append("t%d" % i)
        elif last and t == "...":
            words.append("more")
        elif t.startswith("~/") and t.endswith("/"):
            g = gen(t[2:-1], full=True)
            if g is None:
                return None
            if g:
                words.append(g)
            key_known = False
        elif "~" in t or "*" in t:
            # glued forms such as name:~ or X?GigabitEthernet* - outside the token grammar
            return None
        else:
            g = gen(t, full=True, flags=re.I if icase else 0)
            if g is None or re.search(r"\s", g) or not g:
                return None
            words.append(g)
            if "(" in t.replace("(?", ""):
                key_known = key_known and has_star  # a literal alternative is made non-capturing only with '*'; the key is then the placeholders' words
    if "<" in r:
        key_known = False
    return " ".join(words), (tuple(key) if key_known else None)


def near_misses(row: str, text: str):
    """mutations of a synthesised row; only meaningful for simple rows (the caller compares with ref_match)."""
    ws = text.split(" ")
    out = []
    if len(ws) > 1:
        out.append(("drop-last-word", " ".join(ws[:-1])))
    out.append(("extend-last-word", text + "q"))
    out.append(("extend-first-word", " ".join([ws[0] + "q"] + ws[1:])))
    if len(ws) > 1:
        out.append(("insert-word-before-last", " ".join(ws[:-1] + ["zz", ws[-1]])))
        out.append(("swap-last-two", " ".join(ws[:-2] + [ws[-1], ws[-2]])))
    out.append(("glue-words", text.replace(" ", "", 1)))
    out.append(("append-word", text + " zz"))
    out.append(("upper", text.upper()))
    return out
