"""Reference pieces for C14 (routing-policy generators). Shares no code with annet.

* tree_from_trace   - the nesting a generator program *executed* (rows tagged with the depth of open block() contexts)
* tree_from_indent  - the nesting of a cumulus/FRR row stream (a row whose first token is the indent token hangs below
                      the latest row without it)
* refs / defs       - per-vendor line grammars: which named lists a policy line refers to, which a list line defines.
                      A name is a pair (kind, name); kinds are the vendor's own object classes, so that a
                      community-filter reference is only satisfied by a community-filter definition.
* line_head         - leading lower-case keywords of a config line (at most two) - used for signatures only
* lcp               - length of the longest common prefix of two item lists
"""
from __future__ import annotations

import re


def norm_row(row: str) -> str:
    """a config row as the vendor splitters see it: outer blanks dropped, inner runs of blanks are one blank"""
    return " ".join(str(row).split())


def tree_from_trace(records):
    """records: [(depth, row)] in emission order; depth = number of block() contexts open when the row was appended
    (a block header is appended before its own context counts). Same row under the same parent = same node."""
    root = {}
    stack = [root]
    for depth, row in records:
        if depth >= len(stack):
            raise ValueError("row %r at depth %d but only %d levels are open" % (row, depth, len(stack)))
        del stack[depth + 1:]
        node = stack[depth].setdefault(norm_row(row), {})
        stack.append(node)
    return root


def tree_from_indent(items, indent_token=" ", comments=("!", "#")):
    """items: rows as tuples of tokens (or plain strings)."""
    root = {}
    last = None
    orphans = []
    for it in items:
        toks = [it] if isinstance(it, str) else [str(t) for t in it]
        indented = len(toks) > 1 and toks[0] == indent_token
        row = norm_row(" ".join(toks[1:] if indented else toks))
        if not row or row.startswith(tuple(comments)):
            if not indented:
                last = None
            continue
        if indented:
            if last is None:
                orphans.append(row)
            else:
                last.setdefault(row, {})
        else:
            last = root.setdefault(row, {})
    return root, orphans


def as_list(tree):
    return [[k, as_list(v)] for k, v in tree.items()]


def flat_rows(tree, out=None):
    out = [] if out is None else out
    for k, v in tree.items():
        out.append(k)
        flat_rows(v, out)
    return out


_KW = re.compile(r"^[a-z][a-z0-9-]*$")


def line_head(row: str, n=2) -> str:
    out = []
    for w in norm_row(row).split(" "):
        if len(out) >= n or not _KW.match(w):
            break
        out.append(w)
    return " ".join(out)


def lcp(a, b) -> int:
    n = 0
    for x, y in zip(a, b):
        if x != y:
            break
        n += 1
    return n


# ---------------------------------------------------------------------------------------------------
# which list generator is responsible for which kind
COMMUNITY, PREFIX, ASPATH, RD = "community", "prefix", "aspath", "rd"

KIND_OWNER = {
    "huawei": {
        "community-filter": COMMUNITY, "large-community-filter": COMMUNITY, "extcommunity-filter": COMMUNITY,
        "extcommunity-list soo": COMMUNITY, "rd-filter": RD, "ip-prefix": PREFIX, "ipv6-prefix": PREFIX,
        "as-path-filter": ASPATH,
    },
    "arista": {
        "community-list": COMMUNITY, "extcommunity-list": COMMUNITY, "large-community-list": COMMUNITY,
        "ip prefix-list": PREFIX, "ipv6 prefix-list": PREFIX, "as-path access-list": ASPATH,
    },
    "cumulus": {
        "community-list": COMMUNITY, "extcommunity-list": COMMUNITY, "large-community-list": COMMUNITY,
        "ip prefix-list": PREFIX, "ipv6 prefix-list": PREFIX, "as-path access-list": ASPATH,
    },
}


def _words(row):
    return norm_row(row).split(" ")


def _starts(w, *head):
    return w[:len(head)] == list(head)


def _strip_tail(names, tails):
    names = list(names)
    while names and names[-1] in tails:
        names.pop()
    return names


def refs_huawei(row):
    w = _words(row)
    if _starts(w, "if-match", "community-filter") and len(w) >= 3:
        return [("community-filter", w[2])]
    if _starts(w, "if-match", "large-community-filter") and len(w) >= 3:
        return [("large-community-filter", w[2])]
    if _starts(w, "if-match", "extcommunity-filter") and len(w) >= 3:
        return [("extcommunity-filter", w[2])]
    if _starts(w, "if-match", "extcommunity-list", "soo") and len(w) >= 4:
        return [("extcommunity-list soo", w[3])]
    if _starts(w, "if-match", "rd-filter") and len(w) >= 3:
        return [("rd-filter", w[2])]
    if _starts(w, "if-match", "ip-prefix") and len(w) >= 3:
        return [("ip-prefix", w[2])]
    if _starts(w, "if-match", "ipv6", "address", "prefix-list") and len(w) >= 5:
        return [("ipv6-prefix", w[4])]
    if _starts(w, "if-match", "as-path-filter") and len(w) >= 3:
        return [("as-path-filter", n) for n in _strip_tail(w[2:], ())]
    if _starts(w, "apply", "comm-filter") and len(w) >= 3:
        return [("community-filter", w[2])]
    if _starts(w, "apply", "extcommunity-filter", "rt") and len(w) >= 4:
        return [("extcommunity-filter", w[3])]
    return []


def defs_huawei(row):
    w = _words(row)
    if not _starts(w, "ip"):
        return []
    if len(w) >= 4 and w[1] in ("community-filter", "large-community-filter", "extcommunity-filter") \
            and w[2] in ("basic", "advanced"):
        return [(w[1], w[3])]
    if len(w) >= 5 and _starts(w, "ip", "extcommunity-list", "soo") and w[3] in ("basic", "advanced"):
        return [("extcommunity-list soo", w[4])]
    if len(w) >= 3 and w[1] in ("rd-filter", "ip-prefix", "ipv6-prefix", "as-path-filter"):
        return [(w[1], w[2])]
    return []


_EOS_TAILS = ("additive", "delete", "exact-match", "or-results")


def refs_arista(row):
    w = _words(row)
    if _starts(w, "match", "ip", "address", "prefix-list") and len(w) >= 5:
        return [("ip prefix-list", w[4])]
    if _starts(w, "match", "ipv6", "address", "prefix-list") and len(w) >= 5:
        return [("ipv6 prefix-list", w[4])]
    if _starts(w, "match", "as-path") and len(w) == 3 and w[2] != "length":
        return [("as-path access-list", w[2])]
    if _starts(w, "match", "as-path"):
        return []
    for kw, kind in (("community", "community-list"), ("extcommunity", "extcommunity-list"),
                     ("large-community", "large-community-list")):
        if _starts(w, "match", kw):
            return [(kind, n) for n in _strip_tail(w[2:], _EOS_TAILS)]
        if _starts(w, "set", kw, kind):
            return [(kind, n) for n in _strip_tail(w[3:], _EOS_TAILS)]
    return []


def defs_arista(row):
    w = _words(row)
    if _starts(w, "ip", "prefix-list") and len(w) >= 3:
        return [("ip prefix-list", w[2])]
    if _starts(w, "ipv6", "prefix-list") and len(w) >= 3:
        return [("ipv6 prefix-list", w[2])]
    if _starts(w, "ip", "as-path", "access-list") and len(w) >= 4:
        return [("as-path access-list", w[3])]
    if _starts(w, "ip") and len(w) >= 3 and w[1] in ("community-list", "extcommunity-list", "large-community-list"):
        rest = w[2:]
        if rest[0] in ("regexp", "standard", "expanded") and len(rest) >= 3 and rest[2] in ("permit", "deny"):
            return [(w[1], rest[1])]
        return [(w[1], rest[0])]
    return []


def refs_cumulus(row):
    w = _words(row)
    if _starts(w, "match", "ip", "address", "prefix-list") and len(w) >= 5:
        return [("ip prefix-list", w[4])]
    if _starts(w, "match", "ipv6", "address", "prefix-list") and len(w) >= 5:
        return [("ipv6 prefix-list", w[4])]
    if _starts(w, "match", "as-path") and len(w) >= 3:
        return [("as-path access-list", w[2])]
    if _starts(w, "match", "community") and len(w) >= 3:
        return [("community-list", w[2])]
    if (_starts(w, "match", "large-community") or _starts(w, "match", "large-community-list")) and len(w) >= 3:
        return [("large-community-list", w[2])]
    if _starts(w, "match", "extcommunity") and len(w) >= 3:
        return [("extcommunity-list", w[2])]
    if _starts(w, "set", "comm-list") and len(w) >= 3:
        return [("community-list", w[2])]
    if _starts(w, "set", "large-comm-list") and len(w) >= 3:
        return [("large-community-list", w[2])]
    return []


def defs_cumulus(row):
    w = _words(row)
    if _starts(w, "ip", "prefix-list") and len(w) >= 3:
        return [("ip prefix-list", w[2])]
    if _starts(w, "ipv6", "prefix-list") and len(w) >= 3:
        return [("ipv6 prefix-list", w[2])]
    if (_starts(w, "ip", "as-path", "access-list") or _starts(w, "bgp", "as-path", "access-list")) and len(w) >= 4:
        return [("as-path access-list", w[3])]
    if _starts(w, "bgp") and len(w) >= 4 and w[2] in ("standard", "expanded"):
        # the shipped generator writes 'bgp extcommunity <standard|expanded> NAME'; FRR's own spelling is
        # 'bgp extcommunity-list ...'. Both are read as a definition: the property is about names, not spelling.
        kind = {"community-list": "community-list", "large-community-list": "large-community-list",
                "extcommunity-list": "extcommunity-list", "extcommunity": "extcommunity-list"}.get(w[1])
        if kind:
            return [(kind, w[3])]
    return []


REFS = {"huawei": refs_huawei, "arista": refs_arista, "cumulus": refs_cumulus}
DEFS = {"huawei": defs_huawei, "arista": defs_arista, "cumulus": defs_cumulus}


def collect(fn, rows):
    out = []
    for r in rows:
        for x in fn(r):
            if x not in out:
                out.append(x)
    return out
