"""Reference semantics of the rule language - deliberately naive, shares no code with annet.

A pattern is a sequence of whitespace-separated tokens:
    literal        the word itself
    *              exactly one word, captured
    */re/          exactly one word fully matching re (re cannot match whitespace), captured
    ~   (last)     one or more words: the rest of the line, captured as written
    ... (last)     at least one more word, not captured
    (x|y)          one word out of the listed literals, not captured (in patterns that have a placeholder)
    (?i)           glued in front of the first token: literals compare case-insensitively
A row matches when it starts with the corresponding words, separated by one or more blanks; after the
last token anything may follow provided it starts at a word boundary.
"""
from __future__ import annotations

import re


def split_flags(pattern: str):
    icase = "(?i)" in pattern
    if icase:
        pattern = pattern.replace("(?i)", "")
    return pattern.split(), icase


def tok_class(t: str) -> str:
    if t == "*":
        return "*"
    if t.startswith("*/") and t.endswith("/"):
        return "*/re/"
    if t == "~":
        return "~"
    if t == "...":
        return "..."
    if t.startswith("~/"):
        return "~/re/"
    return "lit"


def shape(pattern: str) -> str:
    toks, icase = split_flags(pattern)
    return ("(?i)" if icase else "") + " ".join(tok_class(t) for t in toks)


def ref_match(pattern: str, row: str):
    """-> tuple key if row matches else None."""
    toks, icase = split_flags(pattern)
    fl = re.IGNORECASE if icase else 0
    pos = 0
    n = len(row)
    key = []
    for i, t in enumerate(toks):
        last = (i == len(toks) - 1)
        if i > 0:
            j = pos
            while j < n and row[j].isspace():
                j += 1
            if j == pos:
                return None
            pos = j
        if last and t == "~":
            if pos >= n:
                return None
            key.append(row[pos:])
            return tuple(key)
        if last and t == "...":
            if i == 0:
                return tuple(key)
            return tuple(key)
        j = pos
        while j < n and not row[j].isspace():
            j += 1
        word = row[pos:j]
        if not word:
            return None
        if t == "*":
            key.append(word)
        elif t.startswith("*/") and t.endswith("/") and len(t) > 3:
            if not re.fullmatch(t[2:-1], word, fl):
                return None
            key.append(word)
        elif t.startswith("(") and t.endswith(")"):
            # a parenthesised alternative of literals, (x|y): one word out of the alternatives, not part of the key
            alts = t[1:-1].replace("?:", "", 1).split("|")
            if not any((word.lower() == a.lower()) if icase else (word == a) for a in alts):
                return None
        else:
            if icase:
                if word.lower() != t.lower():
                    return None
            elif word != t:
                return None
        pos = j
    return tuple(key)


def ref_reverse(pattern: str, prefix: str, key) -> str:
    """The removal command: negation word + the rule's words with the key substituted
    (a rule that is itself written negated loses the negation word instead)."""
    toks = pattern.split()
    if len(toks) > 1 and toks[0] == prefix:
        toks = toks[1:]
    else:
        toks = [prefix] + toks
    out = []
    k = list(key)
    for t in toks:
        c = tok_class(t)
        if c in ("*", "*/re/", "~"):
            out.append(k.pop(0))
        else:
            out.append(t)
    assert not k
    return " ".join(out)


def negate_pattern(pattern: str, prefix: str) -> str:
    toks = pattern.split()
    if len(toks) > 1 and toks[0] == prefix:
        return " ".join(toks[1:])
    return " ".join([prefix] + toks)
