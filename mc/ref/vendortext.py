"""Reference for C04: per-vendor alphabets, well-formed domains (syntactic rules) and device-style printers.

Nothing here imports annet. A forest is a nested list [[row, children], ...].

Device-style printers render a forest the way the device (or the project's own fixtures in
tests/annet/test_formatter.py and tests/annet/test_patch/cisco_bgp_address_family.yaml) writes it, i.e. with the
decorations that the vendor's `split` is there to remove: `#` separators, `!` lines, block terminators
(`end-filter`, `end-list`, `endif`, `end-set`, `end-policy`), the old-IOS flat `address-family` form, braces and
`;`, `## SECRET-DATA` end-of-line comments, Nokia's `configure { }` wrapper followed by `persistent-indices`,
RouterOS `/path to section` headers. They are deliberately plain recursive printers.
"""
from __future__ import annotations

VENDORS = ["huawei", "h3c", "optixtrans", "cisco", "nexus", "iosxr", "arista", "aruba", "b4com",
           "juniper", "ribbon", "nokia", "routeros", "pc"]

FAMILY = {
    "pc": "common", "optixtrans": "common",
    "huawei": "huawei", "h3c": "huawei",
    "cisco": "cisco",
    "nexus": "blockexit", "arista": "blockexit", "aruba": "blockexit", "b4com": "blockexit",
    "iosxr": "asr",
    "juniper": "juniper", "ribbon": "juniper",
    "nokia": "nokia",
    "routeros": "routeros",
}

# The Juniper comment row is written in a tree as `/* {"row": <next sibling>, "comment": <text>} */`; the
# alphabet carries a placeholder that materialise() fills in from the next sibling.
JCOMMENT = "/*c*/"
JCOMMENT_TEXT = "note 1"

ROS_SECTIONS = ("ip", "address", "user")
ROS_LEAVES = ("add address=10.0.0.1/24 interface=ether1", "set [ find default=yes ] disabled=no")

ALPHABET = {
    # CommonFormatter: nothing is special; rows may contain several blanks and '#'/'!' after the first character
    "common": ["a", "b 1", "no a", "c  d", "e #1 !x"],
    # xpl blocks / if-then / else are what HuaweiFormatter.block_exit and split look at
    "huawei": ["interface X", "xpl route-filter F", "if a then", "else", "xpl ip-prefix-list L"],
    # 'exit-address-family' is not in the alphabet: materialise() appends it as the last child of every
    # address-family row, which is exactly the Cisco domain (a bijection, so nothing has to be filtered)
    "cisco": ["router bgp 1", "address-family ipv4", "address-family ipv6", "neighbor x", "no shutdown"],
    # plain block-exit vendors; 'address-family' and 'exit' mean nothing special here
    "blockexit": ["interface X", "no shutdown", "vrf member V", "address-family ipv4", "ip address 10.0.0.1/24"],
    "asr": ["router bgp 1", "address-family ipv4 unicast", "route-policy P", "if d in X then", "prefix-set S"],
    "juniper": ["system", "host-name r1", "inactive: protocols", "members [ a b ]", 'user "x y"', JCOMMENT],
    "nokia": ["card 1", "mda-type s36", 'slope-policy "W"', "configure", "members [ a b ]"],
    "routeros": list(ROS_SECTIONS) + list(ROS_LEAVES),
}

SPECIAL = {
    "common": {"c  d": "multi-blank", "e #1 !x": "comment-chars"},
    "huawei": {"xpl route-filter F": "xpl", "if a then": "if", "else": "if", "xpl ip-prefix-list L": "xpl"},
    "cisco": {"address-family ipv4": "address-family", "address-family ipv6": "address-family"},
    "blockexit": {"address-family ipv4": "address-family-plain"},
    "asr": {"route-policy P": "policy", "if d in X then": "policy", "prefix-set S": "set",
            "address-family ipv4 unicast": "address-family-plain"},
    "juniper": {"inactive: protocols": "inactive", "members [ a b ]": "list", 'user "x y"': "quoted",
                JCOMMENT: "comment"},
    "nokia": {"configure": "configure", "members [ a b ]": "list", 'slope-policy "W"': "quoted"},
    "routeros": {},
}

DOMAIN_RULE = {
    "common": "every forest over the alphabet (rows do not begin with '!' or '#', no leading/trailing blank)",
    "huawei": "every forest over the alphabet (no row begins with end-list/endif/end-filter: those are block "
              "terminators of the device syntax, not rows; words are separated by single blanks)",
    "cisco": "a row beginning with 'address-family' has children and its last child is 'exit-address-family' (as "
             "IOS prints the block); 'exit-address-family' occurs nowhere else and has no children; words are "
             "separated by single blanks. Realised constructively: the alphabet has no 'exit-address-family' and "
             "materialise() appends it to every address-family row, a bijection onto this domain",
    "blockexit": "every forest over the alphabet (words separated by single blanks)",
    "asr": "every forest over the alphabet (no row ends with end-set/endif/end-policy: block terminators, not "
           "rows; words separated by single blanks)",
    "juniper": "rows contain none of '{', '}', ';', '#'; a comment row is `/* {json} */` naming its next sibling, "
               "(the empty row when it is the last statement of its block), is not at top level (Junos prints "
               "annotations inside a block, indented) and has no children",
    "nokia": "rows contain none of '{', '}', ';', '#'; the word 'configure' is not a top-level row (there it is "
             "the wrapper that split removes by design)",
    "routeros": "a row has children iff it is a section word (ip, address, user); every top-level row is a "
                "section; leaf rows are 'add ...'/'set ...' commands; the sections `file` and `user ssh-keys`, "
                "whose device listings split rewrites into commands by design, are not used",
}


# ---- domains ------------------------------------------------------------------------------------
def _walk(forest, parent=None, level=1):
    for i, (r, c) in enumerate(forest):
        yield r, c, parent, level, i, forest
        yield from _walk(c, r, level + 1)


def _ros_node_ok(row, level, is_leaf):
    return (row in ROS_SECTIONS) == (not is_leaf) and (level > 1 or not is_leaf)


def _nokia_node_ok(row, level, is_leaf):
    return not (level == 1 and row == "configure")


# local part of a domain rule, usable by mc.enum to prune while enumerating (in_domain() is still applied)
NODE_OK = {"routeros": _ros_node_ok, "nokia": _nokia_node_ok}


def in_domain(family, forest) -> bool:
    """`forest` is over the alphabet (before materialise)."""
    if family == "juniper":
        for r, c, parent, level, i, sibs in _walk(forest):
            if r == JCOMMENT:
                if c or level == 1:
                    return False
        return True
    if family == "nokia":
        return all(r != "configure" for r, _ in forest)
    if family == "routeros":
        for r, c, parent, level, i, sibs in _walk(forest):
            if bool(c) != (r in ROS_SECTIONS):
                return False
            if level == 1 and r not in ROS_SECTIONS:
                return False
        return True
    return True


def materialise(family, forest):
    """Alphabet forest -> the forest of real rows: Cisco address-family blocks get their closing last child,
    Juniper's comment placeholder becomes the annotation row of its next sibling."""
    if family == "cisco":
        return [[r, materialise(family, c) + ([["exit-address-family", []]] if r.startswith("address-family") else [])]
                for r, c in forest]
    if family != "juniper":
        return forest
    import json
    out = []
    for i, (r, c) in enumerate(forest):
        if r == JCOMMENT:
            nxt = forest[i + 1][0] if i + 1 < len(forest) else ""     # last in its block: names nothing (a '}' follows)
            nxt = " ".join(w.strip("\"'") for w in nxt.split(" "))     # Junos annotates the statement name
            r = "/* %s */" % json.dumps({"row": nxt, "comment": JCOMMENT_TEXT})
        out.append([r, materialise(family, c)])
    return out


def tags(family, forest):
    sp = SPECIAL[family]
    found = set()
    for r, c, *_ in _walk(forest):
        if r in sp:
            found.add(sp[r])
    return sorted(found)


def depth(forest):
    return 1 + max(depth(c) for _, c in forest) if forest else 0


def shape(family, forest):
    """coarse syntactic class of a case, used in violation signatures"""
    d = depth(forest)
    if family == "routeros":
        return "nested section" if d >= 3 else "flat sections"
    dc = "flat" if d <= 1 else ("one level of blocks" if d == 2 else "blocks nested >= 2 deep")
    return dc + (", special rows" if tags(family, forest) else ", plain rows")


# ---- device-style printers ------------------------------------------------------------------------
def _plain(forest, ind, level, out):
    for r, c in forest:
        out.append(ind * level + r)
        _plain(c, ind, level + 1, out)


def dev_common(forest):
    out = ["# managed file", ""]
    _plain(forest, "    ", 0, out)
    return "\n".join(out) + "\n"


def _huawei_block(forest, base, level, out):
    for i, (r, c) in enumerate(forest):
        out.append(" " * (base + level) + r)
        if c:
            _huawei_block(c, base, level + 1, out)
        if r.startswith("xpl route-filter"):
            out.append(" " * (base + level + 1) + "end-filter")
        elif r.startswith("xpl"):
            out.append(" " * (base + level + 1) + "end-list")
        elif r.startswith(("if ", "elseif ", "else")):
            nxt = forest[i + 1][0] if i + 1 < len(forest) else ""
            if not nxt.startswith(("elseif ", "else")):
                out.append(" " * (base + level) + "endif")


def dev_huawei(forest):
    """'#' between top-level blocks; every second top-level block carries the odd extra indentation that VRP shows
    after a '#' (fixture test_comment_block_end); xpl / if blocks are closed by their terminators."""
    out = ["!Software Version V200R001", "#"]
    for i, tree in enumerate(forest):
        _huawei_block([tree], i % 2, 0, out)
        out.append("#")
    return "\n".join(out) + "\n"


def _cisco_block(forest, level, out):
    for r, c in forest:
        if r.startswith("address-family"):
            out.append(" " * level + "!")
        out.append(" " * level + r)
        if r.startswith("address-family"):
            _cisco_block(c, level, out)          # old IOS: the block body is not indented
        else:
            _cisco_block(c, level + 1, out)


def dev_cisco(forest):
    out = ["!", "! Last configuration change", "!"]
    for tree in forest:
        _cisco_block([tree], 0, out)
        out.append("!")
    return "\n".join(out) + "\n"


def _bang_block(forest, level, out):
    for r, c in forest:
        out.append(" " * level + r)
        if c:
            _bang_block(c, level + 1, out)
            out.append(" " * (level + 1) + "!")


def dev_blockexit(forest):
    out = ["! device: sw1", "!", ""]
    for tree in forest:
        _bang_block([tree], 0, out)
        out.append("!")
        out.append("")
    return "\n".join(out)


def _asr_block(forest, level, out):
    for r, c in forest:
        out.append(" " * level + r)
        _asr_block(c, level + 1, out)
        if r.startswith(("prefix-set", "as-path-set", "community-set")):
            out.append(" " * level + "end-set")
        elif r.startswith("route-policy"):
            out.append(" " * level + "end-policy")
        elif r.startswith("if ") and r.endswith(" then"):
            out.append(" " * level + "endif")
        elif c or level > 0 and r.startswith("address-family"):
            out.append(" " * level + "!")


def dev_asr(forest):
    out = ["!! IOS XR Configuration", "!"]
    for tree in forest:
        _asr_block([tree], 0, out)
        if not tree[1]:
            out.append("!")
    return "\n".join(out) + "\n"


def _brace_block(forest, ind, level, out, stmt_end, secret):
    for r, c in forest:
        if r.startswith("/*"):
            import json
            out.append(ind * level + "/* %s */" % json.loads(r[2:-2])["comment"])
        elif c:
            out.append(ind * level + r + " {")
            _brace_block(c, ind, level + 1, out, stmt_end, secret)
            out.append(ind * level + "}")
        elif secret and r.startswith("user "):
            out.append(ind * level + r + "; ## SECRET-DATA")
        else:
            out.append(ind * level + r + stmt_end)


def _brace_block_alt(forest, ind, level, out, stmt_end):
    """the same tree as a device may also print it: a childless row as an EMPTY BLOCK on one line ('row { }' and 'row {}',
    alternating), and a tab-separated remark after an opening or closing brace ('row {<TAB># remark') - the two spellings the
    brace formatters' split() is written to read (its 'collapse empty blocks' and '(\t# .+)?' substitutions)"""
    n = 0
    for r, c in forest:
        if r.startswith("/*"):
            import json
            out.append(ind * level + "/* %s */" % json.loads(r[2:-2])["comment"])
        elif c:
            out.append(ind * level + r + " {\t# remark")
            _brace_block_alt(c, ind, level + 1, out, stmt_end)
            out.append(ind * level + "}\t# remark")
        else:
            n += 1
            out.append(ind * level + r + (" { }" if n % 2 else " {}"))


def dev_juniper_alt(forest):
    out = ["## Last commit: 2021-01-01 00:00:00 UTC by root"]
    _brace_block_alt(forest, "    ", 0, out, ";")
    return "\n".join(out) + "\n"


def dev_ribbon_alt(forest):
    out = []
    _brace_block_alt(forest, "    ", 0, out, ";")
    return "\n".join(out) + "\n"


def dev_nokia_alt(forest):
    out = ["# TiMOS-B-21.2.R1 both/hops64 Nokia 7750 SR", "", "configure {"]
    _brace_block_alt(forest, "    ", 1, out, "")
    out += ["}"]
    return "\n".join(out) + "\n"


def dev_juniper(forest):
    out = ["## Last commit: 2021-01-01 00:00:00 UTC by root"]
    _brace_block(forest, "    ", 0, out, ";", True)
    return "\n".join(out) + "\n"


def dev_ribbon(forest):
    out = []
    _brace_block(forest, "    ", 0, out, ";", False)
    return "\n".join(out) + "\n"


def dev_nokia(forest):
    """`admin show configuration` form: header comments, configure { } wrapper, then blocks that are not config"""
    out = ["# TiMOS-B-21.2.R1 both/hops64 Nokia 7750 SR", "# Generated MON JUN 07 17:54:06 2021 MSK", "",
           "configure {"]
    _brace_block(forest, "    ", 1, out, "", False)
    out += ["}", "persistent-indices {", '    description "Persistent indices"', "    vrtr-id {",
            '        router-name "x" vrtr-id 2', "    }", "}"]
    return "\n".join(out) + "\n"


def _ros_sections(forest, path, out):
    """RouterOS export: one `/path to section` header per run of leaf rows, rows not indented"""
    i = 0
    while i < len(forest):
        r, c = forest[i]
        if c:
            _ros_sections(c, path + [r], out)
            i += 1
        else:
            out.append("/" + " ".join(path))
            while i < len(forest) and not forest[i][1]:
                out.append(forest[i][0])
                i += 1


def dev_routeros(forest):
    out = ["# apr/23/2021 17:00:25 by RouterOS 6.45.7", "# software id = HDTP-PUJA", "#"]
    _ros_sections(forest, [], out)
    return "\n".join(out) + "\n"


# ---- canonical text: what join() is expected to print, character for character ------------------------
def canonical_text(family, forest, indent):
    """The plain rendering of a forest in the vendor's syntax with the given indent unit: one row per line,
    children one unit deeper; for the brace vendors `row {` ... `}` around children, `;` after a Junos leaf
    (nothing after a Nokia leaf), annotations as `/* text */`. None for RouterOS (path headers; see ros_dev)."""
    if family == "routeros":
        return None
    out = []
    if family in ("juniper", "nokia"):
        _brace_block(forest, indent, 0, out, ";" if family == "juniper" else "", False)
    else:
        _plain(forest, indent, 0, out)
    return "\n".join(out)


# further device spellings of the same tree (each must parse to the tree as well)
DEVICE_PRINTER_ALT = {"juniper": [dev_juniper_alt], "ribbon": [dev_ribbon_alt], "nokia": [dev_nokia_alt]}

DEVICE_PRINTER = {
    "pc": dev_common, "optixtrans": dev_common,
    "huawei": dev_huawei, "h3c": dev_huawei,
    "cisco": dev_cisco,
    "nexus": dev_blockexit, "arista": dev_blockexit, "aruba": dev_blockexit, "b4com": dev_blockexit,
    "iosxr": dev_asr,
    "juniper": dev_juniper, "ribbon": dev_ribbon,
    "nokia": dev_nokia,
    "routeros": dev_routeros,
}
