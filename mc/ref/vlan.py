"""Reference model for C11: VLAN range lists and a VLAN-set machine.  Deliberately naive; imports nothing from annet.

Dialects
  huawei    items separated by blanks, a run of >= 2 consecutive ids is written `a to b`
  nexus     items separated by commas, a run of >= 2 consecutive ids is written `a-b`
  catalyst  as nexus, but a run of exactly 2 ids is written as two items `a,b` (IOS on Catalyst never prints `a-b`
            for two neighbours)

The machine executes configuration command rows on a set of VLAN ids.  What each row form means is fixed here by
the vendor CLI, not by what annet intends:

  list forms (Huawei `port trunk allow-pass vlan`, `port hybrid tagged|untagged vlan`, `vlan batch`,
              `instance N vlan`, Cisco global `vlan`, `vlan group G vlan-list`)
      <prefix> <list>            add the ids
      <neg> <prefix> <list>      remove the ids                      (neg = undo | no)
      <neg> <prefix> all         remove everything                   (only where the CLI has it: Huawei port lists)
      a spec may name further exact rows that clear the list         (`undo instance N`)
  id forms (Huawei `vlan N` block next to `vlan batch`)
      <prefix> N                 add N (entering the block creates the VLAN)
      <neg> <prefix> N           remove N
  swtrunk (Cisco `switchport trunk allowed vlan`)
      <prefix> add <list>        add
      <prefix> remove <list>     remove
      no <prefix> remove <list>  remove   (what annet emits; accepted as the removal it evidently stands for - see
                                           ASSUMPTIONS of the check)
      <prefix> none              remove everything
      <prefix> <list>            REPLACE the set by the list
      no <prefix>                back to the default: every VLAN 1..4094
"""
from __future__ import annotations

import itertools
import re

ALL_VLANS = frozenset(range(1, 4095))


class Unparseable(Exception):
    pass


# ---------------------------------------------------------------------------------------------------
# rendering
def runs(vlans):
    """sorted maximal runs [(first, last), ...]"""
    out = []
    for v in sorted(set(vlans)):
        if out and out[-1][1] + 1 == v:
            out[-1][1] = v
        else:
            out.append([v, v])
    return [(a, b) for a, b in out]


def collapse(vlans, dialect):
    """the list of range items the vendor prints for this set"""
    items = []
    for a, b in runs(vlans):
        if a == b:
            items.append(str(a))
        elif dialect == "huawei":
            items.append("%d to %d" % (a, b))
        elif dialect == "catalyst" and b == a + 1:
            items.append(str(a))
            items.append(str(b))
        elif dialect in ("nexus", "catalyst"):
            items.append("%d-%d" % (a, b))
        else:
            raise ValueError(dialect)
    return items


def join_items(items, dialect, sep=None):
    if sep is None:
        sep = " " if dialect == "huawei" else ","
    return sep.join(items)


def cuts(n, maxparts):
    """every way to cut a sequence of n items into 1..maxparts non-empty contiguous parts: list of lists of slices.
    n == 0 has exactly one way: no part at all."""
    if n == 0:
        return [[]]
    out = []
    for k in range(1, min(maxparts, n) + 1):
        for inner in itertools.combinations(range(1, n), k - 1):
            bounds = (0,) + inner + (n,)
            out.append([(bounds[i], bounds[i + 1]) for i in range(k)])
    return out


def wrap(n, width):
    """the one cut a device makes when it wraps after `width` items"""
    return [(i, min(i + width, n)) for i in range(0, n, width)]


def render(items, cut, dialect, prefix, swtrunk=False):
    lines = []
    for idx, (a, b) in enumerate(cut):
        body = join_items(items[a:b], dialect)
        if swtrunk and idx > 0:
            lines.append("%s add %s" % (prefix, body))
        else:
            lines.append("%s %s" % (prefix, body))
    return lines


# ---------------------------------------------------------------------------------------------------
# parsing (strict)
_INT = re.compile(r"[1-9][0-9]{0,3}$")


def _vid(tok):
    if not _INT.match(tok):
        raise Unparseable("not a VLAN id: %r" % tok)
    v = int(tok)
    if not 1 <= v <= 4094:
        raise Unparseable("VLAN id out of range: %r" % tok)
    return v


def parse_list(text, dialect):
    """the set denoted by a vendor range list; raises Unparseable on anything that is not one"""
    out = set()
    if dialect == "huawei":
        toks = text.split()
        if not toks:
            raise Unparseable("empty list")
        i = 0
        while i < len(toks):
            a = _vid(toks[i])
            if i + 1 < len(toks) and toks[i + 1] == "to":
                if i + 2 >= len(toks):
                    raise Unparseable("dangling 'to' in %r" % text)
                b = _vid(toks[i + 2])
                if b <= a:
                    raise Unparseable("descending range in %r" % text)
                out.update(range(a, b + 1))
                i += 3
            else:
                out.add(a)
                i += 1
        return out
    if dialect in ("nexus", "catalyst"):
        if not text or text != text.strip():
            raise Unparseable("empty list")
        for part in re.split(r",\s*", text):
            m = re.match(r"(\d+)(?:-(\d+))?$", part)
            if not m:
                raise Unparseable("bad item %r in %r" % (part, text))
            a = _vid(m.group(1))
            if m.group(2) is None:
                out.add(a)
            else:
                b = _vid(m.group(2))
                if b <= a:
                    raise Unparseable("descending range in %r" % text)
                out.update(range(a, b + 1))
        return out
    raise ValueError(dialect)


# ---------------------------------------------------------------------------------------------------
# the machine
class Spec:
    """What rows mean for one rule kind.
    forms: list of (prefix, mode) tried in order; mode in {"list", "id", "swtrunk"}
    neg: "undo" | "no";  all_ok: `<neg> <prefix> all` exists;  clear_rows: exact rows that empty the set"""

    def __init__(self, dialect, forms, neg, all_ok=False, clear_rows=()):
        self.dialect = dialect
        self.forms = list(forms)
        self.neg = neg
        self.all_ok = all_ok
        self.clear_rows = set(clear_rows)


def _after(row, head):
    """text after `head` + blank if row starts with it, else None"""
    if row.startswith(head + " "):
        return row[len(head) + 1:].strip()
    return None


def step(spec, state, row):
    """execute one command row; returns (op, new_state).  op names the command kind:
    add | remove | clear-all | clear | none | replace | reset-default"""
    row = " ".join(row.split())
    if row in spec.clear_rows:
        return "clear", frozenset()
    for prefix, mode in spec.forms:
        if mode == "swtrunk":
            if row == "no " + prefix:
                return "reset-default", ALL_VLANS
            rest = _after(row, "no " + prefix)
            if rest is not None:
                words = rest.split(None, 1)
                if len(words) == 2 and words[0] == "remove":
                    return "remove", frozenset(state - parse_list(words[1], spec.dialect))
                raise Unparseable("no such command: %r" % row)
            rest = _after(row, prefix)
            if rest is None:
                continue
            if rest == "none":
                return "none", frozenset()
            words = rest.split(None, 1)
            if len(words) == 2 and words[0] == "add":
                return "add", frozenset(state | parse_list(words[1], spec.dialect))
            if len(words) == 2 and words[0] == "remove":
                return "remove", frozenset(state - parse_list(words[1], spec.dialect))
            return "replace", frozenset(parse_list(rest, spec.dialect))
        rest = _after(row, spec.neg + " " + prefix)
        if rest is not None:
            if rest == "all":
                if spec.all_ok and mode == "list":
                    return "clear-all", frozenset()
                raise Unparseable("'all' is not valid here: %r" % row)
            if mode == "id":
                return "remove", frozenset(state - {_vid(rest)})
            return "remove", frozenset(state - parse_list(rest, spec.dialect))
        rest = _after(row, prefix)
        if rest is not None:
            if mode == "id":
                try:
                    return "add", frozenset(state | {_vid(rest)})
                except Unparseable:
                    continue
            try:
                return "add", frozenset(state | parse_list(rest, spec.dialect))
            except Unparseable:
                if len(spec.forms) > 1:
                    continue
                raise
    raise Unparseable("row is not a command of this VLAN list: %r" % row)


def execute(spec, start, rows, keep):
    """run rows in order on `start`.  Returns a dict:
    trace        [(row, op, sorted state after it)]
    final        sorted final state (state before the offending row if one could not be executed)
    unparseable  None | (index, message): the machine has no meaning for that row; execution stops there
    loss         None | (index, op, sorted lost ids): the first row after which `keep` is not contained in the state"""
    state = frozenset(start)
    keep = frozenset(keep)
    trace = []
    loss = None
    bad = None
    for i, row in enumerate(rows):
        try:
            op, state = step(spec, state, row)
        except Unparseable as e:
            bad = (i, str(e))
            break
        trace.append((row, op, sorted(state)))
        if loss is None and not keep <= state:
            loss = (i, op, sorted(keep - state))
    return {"trace": trace, "final": sorted(state), "unparseable": bad, "loss": loss}
