"""E3: controlled scheduler + virtual multiprocessing primitives for running annet.parallel unmodified.

A virtual process is a Python thread that runs only while it holds the baton.  Every operation on a virtual
primitive is a *scheduling point*: the thread announces the operation (with an enabledness predicate) and the
scheduler picks who moves next from a recorded choice sequence (replay) or the default (keep running).

Choice numbering at a point (canonical): the running thread first if its operation is enabled, then the other
enabled threads by ascending id, then enabled daemon actions (feeder flushes) in sorted order.
"""
from __future__ import annotations

import collections
import pickle
import queue as _queue
import sys
import threading


class Abort(BaseException):
    """the execution is being torn down (pruned, deadlocked, horizon)"""


class Killed(BaseException):
    """this virtual process was terminate()d"""


class ReplayDivergence(Exception):
    pass


class VThread:
    def __init__(self, tid, name, fn, proc=None):
        self.tid = tid
        self.name = name
        self.fn = fn
        self.proc = proc
        self.sem = threading.Semaphore(0)
        self.done = False
        self.started = False
        self.killed = False
        self.op = ("spawned",)
        self.enabled_fn = lambda: True
        self.thread = None
        self.obs = []          # observation history: values the primitives returned to this thread
        self.dirty = True      # frames changed since the last digest
        self.digest = None

    def enabled(self):
        return (not self.done) and (not self.killed) and self.enabled_fn()


Point = collections.namedtuple("Point", "choices chosen running_enabled current")


class Scheduler:
    HORIZON = 5000

    def __init__(self, prefix=(), state_hook=None):
        self.prefix = list(prefix)
        self.trace = []            # list[Point]
        self.threads = []
        self.current = None
        self.daemons = lambda: []  # -> sorted list of (label, action)
        self.finished = threading.Event()
        self.aborting = False
        self.verdict = None        # None | "deadlock" | "horizon" | "pruned"
        self.state_hook = state_hook   # called at each point beyond the prefix; may return "prune"
        self.progress = True       # somebody other than the poller moved since its last Empty
        self.error = None
        self.steps = 0
        self.preempt_count = 0
        self.chooser = None            # optional: (sched, me, choices) -> index, used beyond the prefix (conformance replay)
        self.allow_idle_polls = False  # conformance mode: a timed poll may find nothing any number of times

    # ---- thread management -----------------------------------------------------------------------
    def spawn(self, name, fn, proc=None):
        t = VThread(len(self.threads), name, fn, proc)
        self.threads.append(t)
        t.thread = threading.Thread(target=self._body, args=(t,), daemon=True)
        t.thread.start()
        return t

    def _body(self, t):
        t.sem.acquire()
        try:
            if self.aborting:
                raise Abort()
            if t.killed:
                raise Killed()
            t.started = True
            t.fn()
        except Abort:
            t.done = True
            return
        except Killed:
            t.done = True
            return
        except BaseException as e:  # harness bug or uncaught error in virtual process body
            if self.error is None:
                self.error = e
            t.done = True
            if self.aborting:
                return
        t.done = True
        # this thread is finished: give the baton to somebody else or finish the execution
        try:
            self._schedule(None)
        except Abort:
            pass

    def run(self, root_fn, name="main"):
        t = self.spawn(name, root_fn)
        self.current = t
        t.sem.release()
        self.finished.wait()
        # unwind everything that is still parked
        self.aborting = True
        for th in self.threads:
            th.sem.release()
        for th in self.threads:
            th.thread.join()
        return self

    # ---- scheduling ------------------------------------------------------------------------------
    def point(self, op, enabled=None):
        """announce a visible operation of the current thread; returns when this thread is chosen to do it"""
        me = self.current
        assert me is not None and threading.current_thread() is me.thread, "point() from a thread without the baton"
        me.op = op
        me.enabled_fn = enabled or (lambda: True)
        self._schedule(me)

    def _abort(self, verdict):
        self.verdict = verdict
        self.aborting = True
        self.finished.set()
        raise Abort()

    def _schedule(self, me):
        while True:
            if self.aborting:
                raise Abort()
            threads = [t for t in self.threads if t is not me and t.enabled()]
            me_enabled = me is not None and me.enabled()
            choices = ([("t", me.tid)] if me_enabled else []) + [("t", t.tid) for t in threads]
            dm = self.daemons()
            choices += [("d", lab) for (lab, _) in dm]
            if not choices:
                if all(t.done or t.killed for t in self.threads):
                    self.finished.set()
                    if me is not None and not me.done:
                        raise Abort()
                    return
                self._abort("deadlock")
            if len(self.trace) >= self.HORIZON:
                self._abort("horizon")
            i = len(self.trace)
            if i < len(self.prefix):
                k = self.prefix[i]
                if k >= len(choices):
                    self.error = ReplayDivergence("choice %d out of range at point %d: %r" % (k, i, choices))
                    self._abort("divergence")
            else:
                k = 0
                if self.state_hook is not None:
                    if self.state_hook(self, me, choices) == "prune":
                        self._abort("pruned")
                if self.chooser is not None:
                    k = self.chooser(self, me, choices)
                    if k is None:
                        self._abort("stopped")
            self.trace.append(Point(choices, k, me_enabled, me.tid if me is not None else None))
            if me_enabled and k != 0:
                self.preempt_count += 1
            self.steps += 1
            kind, what = choices[k]
            if kind == "d":
                action = dict(dm)[what]
                action()
                self.progress = True
                continue
            if me is not None and what == me.tid:
                me.dirty = True
                return
            other = self.threads[what]
            other.dirty = True
            self.progress = True
            self.current = other
            other.sem.release()
            if me is None or me.done:
                return
            me.sem.acquire()
            if self.aborting:
                raise Abort()
            if me.killed:
                raise Killed()
            return

    def choices_taken(self):
        return [p.chosen for p in self.trace]

    def preemptions_before(self, i):
        n = 0
        for p in self.trace[:i]:
            if p.running_enabled and p.chosen != 0:
                n += 1
        return n


# -------------------------------------------------------------------------------------------------------
# virtual multiprocessing

class VQueue:
    _n = 0

    def __init__(self, sched, name):
        self.sched = sched
        self.name = name
        self.pipe = collections.deque()
        self.buffers = collections.OrderedDict()   # producer process name -> deque (unflushed)
        self.dropped = []                          # items the feeder could not pickle (the real feeder logs and drops them)

    def put(self, item):
        # put() itself is local to the producer (it only appends to the producer's private buffer, which nobody
        # else can observe); the visible step is the feeder's flush (a daemon action), or for the parent - the
        # single producer of the task queue, whose items are all queued before the first worker exists - the put.
        s = self.sched
        proc = s.current.proc
        if proc is None:
            s.point(("put", self.name))
            self._send(item)
        else:
            self.buffers.setdefault(proc.name, collections.deque()).append(item)

    def get(self, block=True, timeout=None):
        s = self.sched
        me = s.current
        if block and timeout is None:
            s.point(("get", self.name), enabled=lambda: bool(self.pipe))
            item = self.pipe.popleft()
            me.obs.append(("got", _item_id(item)))
            return item
        # Waiting is made visible: a timed poll that found nothing may find nothing *again* only if somebody else
        # moved in between, or the poller's own state changed (otherwise the second poll is a stutter step).
        # A poll that does not wait (timeout 0 / non-blocking) is always enabled.
        dg = stack_digest(me.thread)
        changed = dg != getattr(me, "last_empty_digest", None)
        nowait = (not block) or timeout == 0
        s.point(("poll", self.name), enabled=lambda: bool(self.pipe) or s.progress or changed or nowait or s.allow_idle_polls)
        if self.pipe:
            item = self.pipe.popleft()
            me.obs.append(("got", _item_id(item)))
            return item
        s.progress = False
        me.last_empty_digest = dg
        me.obs.append(("empty",))
        raise _queue.Empty()

    def qsize(self):
        return len(self.pipe)

    def close(self):
        pass

    def flush_actions(self):
        out = []
        for pname, buf in self.buffers.items():
            if buf:
                def act(buf=buf):
                    self._send(buf.popleft())
                out.append((("flush", self.name, pname), act))
        return out

    def _send(self, item):
        """what multiprocessing.Queue's feeder thread does with one buffered object: pickle it and write the bytes to the
        pipe; an object that cannot be pickled is reported on stderr and DROPPED (Queue._feed catches the exception and
        goes on). The reader gets a copy, never the producer's object."""
        try:
            data = pickle.dumps(item)
        except Exception as e:  # noqa
            self.dropped.append((_item_id(item), repr(e)[:120]))
            return
        self.pipe.append(pickle.loads(data))

    def unflushed(self, pname):
        return bool(self.buffers.get(pname))


def _item_id(item):
    try:
        if isinstance(item, tuple) and len(item) == 4:      # done-queue item
            return ("done", item[0], repr(item[1].payload))
        return ("task", item.type.value, repr(item.payload))
    except Exception:
        return repr(item)


class VProcess:
    def __init__(self, mp, name, target, args):
        self.mp = mp
        self.name = name
        self.target = target
        self.args = args
        self._exitcode = None
        self.gen = mp.generation[name] = mp.generation.get(name, -1) + 1
        self.pid = 1000 + len(mp.processes)
        self.vthread = None
        self.terminated = False
        mp.processes.append(self)

    def start(self):
        s = self.mp.sched
        s.point(("start", self.name))
        args = self.mp.wrap_args(self.args)

        def body():
            code = 0
            try:
                self.target(*args)
            except SystemExit as e:
                code = e.code if isinstance(e.code, int) else (0 if e.code is None else 1)
            except Exception:
                code = 1
            # multiprocessing joins the queue feeder threads before the process exits
            s.point(("exit", self.name, code),
                    enabled=lambda: not any(q.unflushed(self.name) for q in self.mp.queues))
            self._exitcode = code
        self.vthread = s.spawn(self.name, body, proc=self)

    @property
    def exitcode(self):
        # Consecutive exitcode reads by one thread form one batch with a single scheduling point in front:
        # a read is a both-mover w.r.t. everything but the exit step of the process it reads, and exit steps of
        # different processes are independent, so any interleaving inside a batch is equivalent to one outside.
        # (A batch holds at most one read per process: reading the SAME process again is a new observation - the process may
        #  have exited in between - and gets a scheduling point of its own.)
        s = self.mp.sched
        me = s.current
        batch = getattr(me, "exitcode_batch", None)
        if me.op[0] != "exitcode" or batch is None or self.name in batch:
            s.point(("exitcode", self.name))
            batch = me.exitcode_batch = set()
        batch.add(self.name)
        me.op = ("exitcode", self.name)
        me.obs.append(("exitcode", self.name, self._exitcode))
        return self._exitcode

    def join(self, timeout=None):
        s = self.mp.sched
        if self._exitcode is not None:
            return           # joining a dead process is a local no-op
        s.point(("join", self.name), enabled=lambda: self._exitcode is not None)

    def terminate(self):
        s = self.mp.sched
        s.point(("terminate", self.name))
        self.mp.terminated.append(self.name)
        if self._exitcode is None:
            self._exitcode = -15
            self.terminated = True
            if self.vthread is not None:
                self.vthread.killed = True
            for q in self.mp.queues:
                q.buffers.pop(self.name, None)

    def is_alive(self):
        return self._exitcode is None


class _MainProc:
    name = "MainProcess"


class VMp:
    """stands in for the `multiprocessing` module inside annet.parallel"""

    def __init__(self, sched, wrap_args=lambda a: a):
        self.sched = sched
        self.queues = []
        self.processes = []
        self.generation = {}
        self.terminated = []
        self.wrap_args = wrap_args
        sched.daemons = self._daemons

    def _daemons(self):
        out = []
        for q in self.queues:
            out.extend(q.flush_actions())
        out.sort(key=lambda x: x[0])
        return out

    def Queue(self):
        q = VQueue(self.sched, "q%d" % len(self.queues))
        self.queues.append(q)
        return q

    def Process(self, name=None, target=None, args=()):
        return VProcess(self, name, target, args)

    def current_process(self):
        cur = self.sched.current
        return cur.proc if (cur is not None and cur.proc is not None) else _MainProc

    def cpu_count(self):
        return 4


class VTime:
    """virtual clock: constant, so the 1800 s watchdog never fires; a parent that can only poll while nobody
    else can move is reported as a hang by the scheduler instead"""

    def monotonic(self):
        return 0.0

    def time(self):
        return 0.0

    def sleep(self, _):
        pass


class _Nop:
    def __getattr__(self, _):
        return _Nop()

    def __call__(self, *a, **k):
        return _Nop()


# -------------------------------------------------------------------------------------------------------
# state digest from the implementation's own frames

def crepr(o, depth=0):
    if depth > 6:
        return "..."
    if o is None or isinstance(o, (bool, int, str, float)):
        return repr(o)
    if isinstance(o, (list, tuple, collections.deque)):
        return "[" + ",".join(crepr(x, depth + 1) for x in o) + "]"
    if isinstance(o, dict):
        return "{" + ",".join(crepr(k, depth + 1) + ":" + crepr(v, depth + 1) for k, v in o.items()) + "}"
    if isinstance(o, VProcess):
        return "P(%s#%d,%r)" % (o.name, o.gen, o._exitcode)
    if isinstance(o, VQueue):
        return "Q(%s)" % o.name
    if isinstance(o, BaseException):
        return "E(%s,%s)" % (type(o).__name__, crepr(getattr(o, "args", ()), depth + 1)[:200])
    d = getattr(o, "__dict__", None)
    n = type(o).__name__
    if n in ("TaskResult", "PoolWorkerTask"):
        if n == "PoolWorkerTask":
            return "T(%s,%r)" % (o.type.value, o.payload)
        return "R(%s,%r,%s,%s)" % (o.worker_name, o.device_id, crepr(o.result, depth + 1), crepr(o.exc, depth + 1))
    if n == "PoolWorkerTaskType":
        return o.value
    return "<%s>" % n


# source files whose frames make up the state of the pool implementation (suffixes of co_filename); the harness of C12 extends the
# list with every annet module that holds the multiprocessing module (a reorganisation may spread the pool over several files)
POOL_FILES = ["annet/parallel.py"]


def in_pool_file(filename):
    return any(filename.endswith(sfx) for sfx in POOL_FILES)


_SKIP_LOCALS = ("_logger", "span", "last_task_ts", "qsize", "context_carrier", "worker_args", "cap_stdout", "cap_stderr",
                "worker_id", "pool_span", "self", "pool")


def frame_digest(fr, skip_locals=_SKIP_LOCALS):
    loc = fr.f_locals
    items = []
    for k in sorted(loc):
        if k in skip_locals and not (k == "pool" and isinstance(loc[k], dict)):
            continue
        items.append(k + "=" + crepr(loc[k]))
    return "%s@%d{%s}" % (fr.f_code.co_name, fr.f_lasti, ";".join(items))


def stack_digest(thread, filename_suffix=None, skip_locals=_SKIP_LOCALS):
    if thread is None or thread.ident is None:
        return "nothread"
    fr = sys._current_frames().get(thread.ident)
    out = []
    while fr is not None:
        if (fr.f_code.co_filename.endswith(filename_suffix) if filename_suffix else in_pool_file(fr.f_code.co_filename)):
            out.append(frame_digest(fr, skip_locals))
        fr = fr.f_back
    return "|".join(out)


def suspended_generator_digest(gen):
    """the state of a generator that is suspended at a yield (its frame is then on no thread's stack): the generator's own
    frame and those of the generators it delegates to (yield from), for frames of the pool files"""
    out = []
    seen = 0
    while gen is not None and seen < 8:
        seen += 1
        fr = getattr(gen, "gi_frame", None)
        if fr is None or getattr(gen, "gi_running", False):
            break
        if in_pool_file(fr.f_code.co_filename):
            out.append(frame_digest(fr))
        gen = getattr(gen, "gi_yieldfrom", None)
    return "|".join(out)
