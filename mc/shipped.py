"""Access to the shipped rulebook texts, independent of annet's own parser (plain line processing)."""
from __future__ import annotations

import functools
import os
import re


def texts_dir():
    import annet.rulebook
    return os.path.join(os.path.dirname(annet.rulebook.__file__), "texts")


@functools.lru_cache(None)
def rendered_rule_lines():
    """(kind, file, row) for every distinct rule line of every shipped text; all template branches at once."""
    out = []
    seen = set()
    d = texts_dir()
    for fname in sorted(os.listdir(d)):
        kind = fname.rsplit(".", 1)[-1]
        if kind not in ("rul", "order", "deploy"):
            continue
        for line in open(os.path.join(d, fname), encoding="utf-8").read().split("\n"):
            s = line.strip()
            if not s or s.startswith("#") or s.startswith("%"):
                continue
            m = re.search(r"\s%[a-zA-Z_]", s)
            if m:
                s = s[:m.start()].strip()
            s = re.sub(r"\s+#.*$", "", s) if kind != "rul" else s
            if s.startswith("!"):
                s = s[1:].strip()
            if not s or s.startswith(("dialog:", "ignore:")):
                continue
            s = re.sub(r"\s+", " ", s)
            if (fname, s) in seen:
                continue
            seen.add((fname, s))
            out.append((kind, fname, s))
    return out
