"""Structural hashing of live object graphs, and the process-global state fingerprint used by C20.

Nothing here imports annet logic: objects are walked through generic Python introspection only.

walk rules (class Session / Walker):
  * str/int/float/bool/None/bytes by value; tuples, namedtuples, lists, dicts (in insertion order), sets (sorted by
    the elements' own token strings) recursively;
  * compiled regular expressions by (pattern, flags); functions, builtins and methods by module + qualified name;
    classes by qualified name (classes defined in an annet module additionally by their non-callable class attributes);
    modules by name; enum members by class + name;
  * functools.lru_cache / functools.cache wrappers by their *cached content*: the ordered list (least recently used first)
    of (key, cached value) for bounded caches, the insertion-ordered list for unbounded ones (extracted through the
    garbage collector's view of the wrapper, see lru_items());
  * instances of classes defined in annet (or in this harness) by class name + attribute dictionary (+ __slots__);
    instances of anything else are opaque ("opaque:<class>"), counted, and listed in the evidence;
  * every mutable container / instance is given a number at its first visit; a later visit emits a back reference, so
    the hash also captures which cached objects are *the same object* (aliasing), and cycles terminate;
  * in a dict that has both the keys 'direct_regexp' and 'cant_delete' (= the attrs of a compiled ACL rule, and nothing
    else in annet) the key 'match' is skipped: the property allows matching to overwrite that scratch field.
"""
from __future__ import annotations

import ast
import collections
import enum
import functools
import gc
import hashlib
import os
import re
import sys
import types

_ATOMS = (int, float, bool, type(None), complex)
_FUNCS = (types.FunctionType, types.BuiltinFunctionType, types.MethodDescriptorType, types.WrapperDescriptorType,
          types.MethodWrapperType, types.ClassMethodDescriptorType, types.GetSetDescriptorType,
          types.MemberDescriptorType)
_RX = type(re.compile(""))
_WALK_PREFIXES = ("annet", "mc.", "checks.")


class FingerprintError(Exception):
    pass


def _is_lru(o):
    return type(o).__name__ == "_lru_cache_wrapper" and type(o).__module__ == "functools"


def lru_items(fn):
    """[(key, value)] held by a functools.lru_cache wrapper, in LRU order (bounded) / insertion order (unbounded).

    CPython keeps the content private; the only generic read-only access is the wrapper's GC traversal
    (lru_cache_tp_traverse): type(self), then for each link from the least recently used one (key, result, type(link)),
    then the cache dict, the wrapped function, the kwd mark, ...   Everything read is validated against
    cache_info().currsize and the cache dict; a layout that does not validate raises FingerprintError (reported by C20
    as 'fingerprint-incomplete'), so a different interpreter cannot silently yield an empty fingerprint."""
    info = fn.cache_info()
    n = info.currsize
    refs = gc.get_referents(fn)
    if not refs or refs[0] is not type(fn):
        raise FingerprintError("lru layout: first referent of %r is not its type" % (fn,))
    if info.maxsize is None:
        cache = refs[1]
        if not isinstance(cache, dict) or len(cache) != n or refs[2] is not fn.__wrapped__:
            raise FingerprintError("lru layout (unbounded) not recognised for %r" % (fn,))
        return [(k, v) for k, v in cache.items()]
    if info.maxsize == 0:
        return []
    if len(refs) < 3 * n + 3:
        raise FingerprintError("lru layout (bounded): too few referents for %r" % (fn,))
    cache = refs[1 + 3 * n]
    if not isinstance(cache, dict) or len(cache) != n or refs[2 + 3 * n] is not fn.__wrapped__:
        raise FingerprintError("lru layout (bounded) not recognised for %r" % (fn,))
    out = []
    for i in range(n):
        key, val, ltype = refs[1 + 3 * i], refs[2 + 3 * i], refs[3 + 3 * i]
        if not isinstance(ltype, type) or ltype.__name__ != "_lru_list_elem" or type(cache.get(key)) is not ltype:
            raise FingerprintError("lru layout (bounded): link %d of %r not recognised" % (i, fn))
        out.append((key, val))
    return out


def selftest():
    """lru_items() must read back a known cache exactly; called once per process by the check's setup()."""
    @functools.lru_cache()
    def bounded(a, b=0):
        return {"a": a, "b": [b]}

    @functools.lru_cache(None)
    def unbounded(a):
        return [a]

    @functools.lru_cache(maxsize=2)
    def tiny(a):
        return None if a == 2 else (a,)
    bounded("x", 1), bounded("y"), bounded("x", 1), unbounded(1), unbounded(2), tiny(1), tiny(2), tiny(3)
    got = lru_items(bounded)
    if [v for _, v in got] != [{"a": "y", "b": [0]}, {"a": "x", "b": [1]}] or got[0][0] != "y":
        raise FingerprintError("selftest bounded: %r" % (got,))
    if lru_items(unbounded) != [(1, [1]), (2, [2])]:
        raise FingerprintError("selftest unbounded: %r" % (lru_items(unbounded),))
    if lru_items(tiny) != [(2, None), (3, (3,))]:
        raise FingerprintError("selftest tiny: %r" % (lru_items(tiny),))
    return True


class Session:
    """One hashing pass.  Components are hashed one after the other; an object first met in component A and met again
    in component B is emitted in B as a back reference to (A, index), so per-component digests stay comparable."""

    def __init__(self):
        self.owner = {}         # id(obj) -> "component#index"
        self.keep = []          # keeps temporaries (dict views, lru lists) alive so that ids stay unique
        self.opaque = collections.Counter()
        self.digests = collections.OrderedDict()
        self.nodes = 0

    def component(self, name, obj):
        w = _Walker(self, name)
        w.walk(obj)
        d = hashlib.sha1("\x1f".join(w.out).encode("utf-8", "surrogatepass")).hexdigest()[:16]
        self.digests[name] = d
        self.nodes += len(w.out)
        return d

    def total(self):
        return hashlib.sha1(repr(sorted(self.digests.items())).encode()).hexdigest()[:16]


class _Walker:
    def __init__(self, session, name):
        self.s = session
        self.name = name
        self.out = []
        self.n = 0

    def _first(self, o):
        """-> True if o is visited for the first time (then it is numbered), else emits a back reference"""
        ref = self.s.owner.get(id(o))
        if ref is not None:
            self.out.append("R" + ref)
            return False
        self.s.owner[id(o)] = "%s#%d" % (self.name, self.n)
        self.s.keep.append(o)
        self.n += 1
        return True

    def walk(self, o):  # noqa: C901
        out = self.out
        t = type(o)
        if t is str:
            out.append("s" + o)
        elif t in _ATOMS:
            out.append(repr(o))
        elif t is tuple:
            out.append("(")
            for x in o:
                self.walk(x)
            out.append(")")
        elif t is dict or t is collections.OrderedDict or t is collections.defaultdict:
            if not self._first(o):
                return
            out.append("{" if t is dict else "o{")
            skip_match = "direct_regexp" in o and "cant_delete" in o
            for k, v in o.items():
                if skip_match and k == "match":
                    continue
                self.walk(k)
                self.walk(v)
            out.append("}")
        elif t is list:
            if not self._first(o):
                return
            out.append("[")
            for x in o:
                self.walk(x)
            out.append("]")
        elif t is set or t is frozenset:
            if t is set and not self._first(o):
                return
            toks = []
            for x in o:
                w = _Walker(self.s, self.name + "/set")
                w.walk(x)
                toks.append("\x1e".join(w.out))
            toks.sort()
            out.append("set<")
            out.extend(toks)
            out.append(">")
        elif t is _RX:
            out.append("rx%r/%d" % (o.pattern, o.flags))
        elif t is bytes:
            out.append("b%r" % (o,))
        elif _is_lru(o):
            out.append("lru:%s.%s" % (getattr(o, "__module__", "?"), getattr(o, "__qualname__", "?")))
            if not self._first(o):
                return
            items = lru_items(o)
            self.s.keep.append(items)
            out.append("<%s" % (o.cache_info().maxsize,))
            for k, v in items:
                self.walk_key(k)
                self.walk(v)
            out.append(">")
        elif isinstance(o, _FUNCS) or t is staticmethod or t is classmethod or t is property:
            f = getattr(o, "__func__", None) or getattr(o, "fget", None) or o
            out.append("fn:%s.%s" % (getattr(f, "__module__", "?"), getattr(f, "__qualname__", getattr(f, "__name__", "?"))))
        elif t is types.MethodType:
            out.append("meth:%s.%s@%s" % (getattr(o.__func__, "__module__", "?"), o.__func__.__qualname__,
                                          type(o.__self__).__qualname__))
        elif t is functools.partial:
            out.append("partial(")
            self.walk(o.func)
            self.walk(o.args)
            self.walk(o.keywords)
            out.append(")")
        elif isinstance(o, type):
            mod = getattr(o, "__module__", "?")
            out.append("cls:%s.%s" % (mod, o.__qualname__))
            if isinstance(mod, str) and mod.startswith(_WALK_PREFIXES) and not issubclass(o, enum.Enum):
                if not self._first(o):
                    return
                out.append("{")
                for k in sorted(vars(o)):
                    if k.startswith("__") and k.endswith("__"):
                        continue
                    v = vars(o)[k]
                    if isinstance(v, _FUNCS) or isinstance(v, (staticmethod, classmethod, property, functools.cached_property)):
                        continue
                    out.append("a" + k)
                    self.walk(v)
                out.append("}")
        elif t is types.ModuleType:
            out.append("mod:" + o.__name__)
        elif isinstance(o, enum.Enum):
            out.append("enum:%s.%s" % (t.__qualname__, o.name))
        elif isinstance(o, tuple):           # namedtuple and other tuple subclasses
            out.append("nt:%s(" % t.__qualname__)
            for x in o:
                self.walk(x)
            out.append(")")
        elif isinstance(o, (str, int, float)):
            out.append("%s:%r" % (t.__qualname__, o))
        elif isinstance(o, (dict, list, set, collections.deque)):  # other subclasses of containers
            if not self._first(o):
                return
            out.append("c:%s<" % t.__qualname__)
            if isinstance(o, dict):
                for k, v in o.items():
                    self.walk(k)
                    self.walk(v)
            else:
                for x in (sorted(o, key=repr) if isinstance(o, set) else o):
                    self.walk(x)
            out.append(">")
        else:
            mod = getattr(t, "__module__", "?")
            if not (isinstance(mod, str) and mod.startswith(_WALK_PREFIXES)):
                self.s.opaque["%s.%s" % (mod, t.__qualname__)] += 1
                out.append("opaque:%s.%s" % (mod, t.__qualname__))
                return
            out.append("obj:%s.%s" % (mod, t.__qualname__))
            if not self._first(o):
                return
            out.append("{")
            d = getattr(o, "__dict__", None)
            if isinstance(d, dict):
                for k in sorted(d):
                    out.append("a" + k)
                    self.walk(d[k])
            for klass in t.__mro__:
                slots = vars(klass).get("__slots__", ()) or ()
                for sl in ((slots,) if isinstance(slots, str) else slots):
                    if sl in ("__dict__", "__weakref__"):
                        continue
                    try:
                        v = object.__getattribute__(o, sl)
                    except AttributeError:
                        continue
                    out.append("a" + sl)
                    self.walk(v)
            out.append("}")

    def walk_key(self, k):
        """lru cache key: kwd marks (a bare object()) are positional separators"""
        if type(k) is object:
            self.out.append("<kw>")
        elif type(k) is tuple or type(k).__name__ == "_HashedSeq":
            self.out.append("k(")
            for x in k:
                self.walk_key(x)
            self.out.append(")")
        else:
            self.walk(k)


def digest_of(obj) -> str:
    s = Session()
    return s.component("x", obj)


# ---------------------------------------------------------------------------------------------------
# process-global state
def annet_modules():
    return sorted(n for n, m in list(sys.modules.items()) if m is not None and (n == "annet" or n.startswith("annet.")))


def global_fingerprint(named_roots=()):
    """-> Session (digests: {component: digest}) over every global of every loaded annet module (sorted by module, name).

    Component names are '<module>:<global>'.  Dunder globals are skipped (module metadata), everything else is walked.
    named_roots = ['<module>:<global>', ...] are walked right after the lru caches under the name 'root:<module>:<global>',
    so that a change inside such an object (a connector, the vendor registry) is reported under that name and not under
    the alphabetically first module that happens to import it."""
    s = Session()
    mods = annet_modules()
    # pass 1: every lru_cache wrapper under the name of the module that defines it ("lru:<module>.<name>"), so that the
    # component that changes when a cache changes is the cache itself and not whichever module imports it first
    for mn in mods:
        g = getattr(sys.modules.get(mn), "__dict__", None)
        if not isinstance(g, dict):
            continue
        for name in sorted(g):
            v = g[name]
            if _is_lru(v) and getattr(v, "__module__", None) == mn and id(v) not in s.owner:
                s.component("lru:%s.%s" % (mn, getattr(v, "__qualname__", name)), v)
    for ref in named_roots:
        mn, _, name = ref.partition(":")
        g = getattr(sys.modules.get(mn), "__dict__", None)
        if isinstance(g, dict) and name in g:
            s.component("root:" + ref, g[name])
    for mn in mods:
        m = sys.modules.get(mn)
        g = getattr(m, "__dict__", None)
        if not isinstance(g, dict):
            continue
        for name in sorted(g):
            if name.startswith("__") and name.endswith("__"):
                continue
            v = g[name]
            if isinstance(v, types.ModuleType):
                continue
            s.component("%s:%s" % (mn, name), v)
    return s


# ---------------------------------------------------------------------------------------------------
# static scan of the source tree: what *could* hold process-global mutable state
_CACHE_DECOS = {"lru_cache", "cache", "cached_property"}
_CONTAINER_CALLS = {"dict", "list", "set", "odict", "OrderedDict", "defaultdict", "deque", "Counter", "WeakValueDictionary",
                    "WeakKeyDictionary"}


def _deco_name(d):
    if isinstance(d, ast.Call):
        d = d.func
    if isinstance(d, ast.Attribute):
        return d.attr
    if isinstance(d, ast.Name):
        return d.id
    return None


def _is_container_expr(v):
    if isinstance(v, (ast.Dict, ast.List, ast.Set, ast.ListComp, ast.DictComp, ast.SetComp)):
        return True
    if isinstance(v, ast.Call):
        n = _deco_name(v)
        return n in _CONTAINER_CALLS
    return False


def scan_tree(root):
    """AST scan of <root>/annet/**.py.  -> list of findings
         {"module", "kind": lru|cached_property|module-container|class-container|instance-cache, "name", "scope"}
       scope: 'module' (module-level def / assignment), 'class:<C>' or 'local:<enclosing function>'."""
    out = []
    base = os.path.join(root, "annet")
    for dirpath, _dirs, files in os.walk(base):
        for fn in sorted(files):
            if not fn.endswith(".py"):
                continue
            path = os.path.join(dirpath, fn)
            rel = os.path.relpath(path, root)[:-3].replace(os.sep, ".")
            if rel.endswith(".__init__"):
                rel = rel[:-len(".__init__")]
            try:
                tree = ast.parse(open(path, encoding="utf-8").read())
            except SyntaxError:
                continue
            _scan_body(tree.body, rel, "module", out)
    return out


def _scan_body(body, module, scope, out):
    for node in body:
        if isinstance(node, (ast.FunctionDef, ast.AsyncFunctionDef)):
            for d in node.decorator_list:
                n = _deco_name(d)
                if n in _CACHE_DECOS:
                    out.append({"module": module, "kind": "cached_property" if n == "cached_property" else "lru",
                                "name": node.name, "scope": scope})
            inner = "local:" + node.name if scope == "module" or scope.startswith("class:") else scope
            if scope.startswith("class:") and node.name == "__init__":
                for sub in ast.walk(node):
                    if isinstance(sub, (ast.Assign, ast.AnnAssign)):
                        tgts = sub.targets if isinstance(sub, ast.Assign) else [sub.target]
                        for t in tgts:
                            if (isinstance(t, ast.Attribute) and isinstance(t.value, ast.Name) and t.value.id == "self"
                                    and sub.value is not None and _is_container_expr(sub.value) and "cache" in t.attr.lower()):
                                out.append({"module": module, "kind": "instance-cache", "name": t.attr, "scope": scope})
            _scan_body(node.body, module, inner, out)
        elif isinstance(node, ast.ClassDef):
            _scan_body(node.body, module, "class:" + node.name, out)
        elif isinstance(node, (ast.Assign, ast.AnnAssign)) and (scope == "module" or scope.startswith("class:")):
            if node.value is None or not _is_container_expr(node.value):
                continue
            tgts = node.targets if isinstance(node, ast.Assign) else [node.target]
            for t in tgts:
                if isinstance(t, ast.Name):
                    out.append({"module": module, "kind": "module-container" if scope == "module" else "class-container",
                                "name": t.id, "scope": scope})
        elif isinstance(node, (ast.If, ast.Try, ast.With)) and scope == "module":
            for fld in ("body", "orelse", "finalbody"):
                _scan_body(getattr(node, fld, []) or [], module, scope, out)
            for h in getattr(node, "handlers", []) or []:
                _scan_body(h.body, module, scope, out)
