---------------------------- MODULE PoolProto ----------------------------
(* Protocol of annet.parallel.Parallel.irun (multi-process path, no task failures):                    *)
(* parent loop x workers x task queue x done queue (per-worker feeder buffer + shared pipe).           *)
(* One action per scheduling point of the controlled scheduler in /verif/mc/sched.py; the model is     *)
(* never trusted on its own: models/conform.py replays TLC's labelled state graph edge by edge on the  *)
(* real code and compares the abstraction of the implementation state with the model state.            *)
EXTENDS Naturals, Sequences, FiniteSets

CONSTANTS N,      \* number of submitted ids 1..N
          PS,     \* pool size (number of worker slots 0..PS-1), PS = min(parallel, N) >= 2
          Q       \* max_tasks: a worker retires (exit code 9) after Q tasks

STOP == 0
NONE == 99        \* exitcode not set
EMPTY == 98       \* the poll found nothing
W == 0 .. (PS - 1)

VARIABLES taskq, buf, pipe, ws, code, ec, cnt, pc, k, pool, drained, got, retired, delivered, after

vars == <<taskq, buf, pipe, ws, code, ec, cnt, pc, k, pool, drained, got, retired, delivered, after>>

Init ==
    /\ taskq = [i \in 1..N |-> i]
    /\ buf = [w \in W |-> <<>>]
    /\ pipe = <<>>
    /\ ws = [w \in W |-> "none"]
    /\ code = [w \in W |-> 0]
    /\ ec = [w \in W |-> NONE]
    /\ cnt = [w \in W |-> 0]
    /\ pc = "putstop"
    /\ k = 0
    /\ pool = {}
    /\ drained = FALSE
    /\ got = EMPTY
    /\ retired = <<>>
    /\ delivered = [i \in 1..N |-> 0]
    /\ after = "poll"

\* ---------------------------------------------------------------- parent
PPutStop ==
    /\ pc = "putstop"
    /\ taskq' = Append(taskq, STOP)
    /\ pool' = pool \cup {k}        \* pool[name] = worker is assigned before worker.start()
    /\ pc' = "start"
    /\ UNCHANGED <<buf, pipe, ws, code, ec, cnt, k, drained, got, retired, delivered, after>>

PStart ==
    /\ pc = "start"
    /\ ws' = [ws EXCEPT ![k] = "spawned"]
    /\ cnt' = [cnt EXCEPT ![k] = 0]
    /\ ec' = [ec EXCEPT ![k] = NONE]
    /\ k' = k + 1
    /\ pc' = IF k + 1 < PS THEN "putstop" ELSE "poll"
    /\ UNCHANGED <<taskq, buf, pipe, code, pool, drained, got, retired, delivered, after>>

Deliver(d, g) == IF g = EMPTY THEN d ELSE [d EXCEPT ![g] = @ + 1]

\* the poll; with an empty pool there is no exitcode read, so the rest of the iteration belongs to this step
PPoll ==
    /\ pc = "poll"
    /\ LET g == IF pipe # <<>> THEN Head(pipe) ELSE EMPTY
           dr == (pool = {})
       IN /\ got' = g
          /\ drained' = dr
          /\ pipe' = IF pipe # <<>> THEN Tail(pipe) ELSE pipe
          /\ IF pool # {}
             THEN /\ pc' = "check"
                  /\ delivered' = delivered
             ELSE /\ delivered' = Deliver(delivered, g)
                  /\ pc' = IF g = EMPTY THEN "done" ELSE "consume"
    /\ after' = "poll"
    /\ UNCHANGED <<taskq, buf, ws, code, ec, cnt, k, pool, retired>>

\* smallest element first: pool is a dict in insertion order Worker-0, Worker-1, ...
RECURSIVE SortedSeq(_)
SortedSeq(S) == IF S = {} THEN <<>>
                ELSE LET m == CHOOSE x \in S : \A y \in S : x <= y
                     IN <<m>> \o SortedSeq(S \ {m})

\* pool[name] = mp.Process(...) replaces the dead process object *before* its start() (a scheduling point):
\* from then on the parent's handle has no exit code and no running body
Fresh(f, w, v) == [f EXCEPT ![w] = v]

PCheck ==
    /\ pc = "check"
    /\ LET reaped == {w \in pool : ec[w] = 0}
           ret == {w \in pool : ec[w] = 9}
           r == SortedSeq(ret)
       IN /\ pool' = pool \ reaped
          /\ retired' = r
          /\ after' = IF ret # {} THEN "restart" ELSE "poll"
          \* a dequeued result is handed to the caller before the loop goes on (PConsume)
          /\ pc' = IF got # EMPTY THEN "consume" ELSE (IF ret # {} THEN "restart" ELSE "poll")
          \* (the replacement of the first retired worker's process object follows the hand-over of the result, if there is one)
          /\ ws' = IF r # <<>> /\ got = EMPTY THEN Fresh(ws, Head(r), "none") ELSE ws
          /\ ec' = IF r # <<>> /\ got = EMPTY THEN Fresh(ec, Head(r), NONE) ELSE ec
    /\ delivered' = Deliver(delivered, got)
    /\ UNCHANGED <<taskq, buf, pipe, code, cnt, k, drained, got>>

\* the caller holds the yielded result for as long as it likes; everybody else may move meanwhile
PConsume ==
    /\ pc = "consume"
    /\ pc' = after
    /\ ws' = IF after = "restart" THEN Fresh(ws, Head(retired), "none") ELSE ws
    /\ ec' = IF after = "restart" THEN Fresh(ec, Head(retired), NONE) ELSE ec
    /\ UNCHANGED <<taskq, buf, pipe, code, cnt, k, pool, drained, got, retired, delivered, after>>

PRestart ==
    /\ pc = "restart"
    /\ LET w == Head(retired)
           rest == Tail(retired)
       IN /\ ws' = IF rest # <<>> THEN [ws EXCEPT ![w] = "spawned", ![Head(rest)] = "none"]
                                ELSE [ws EXCEPT ![w] = "spawned"]
          /\ ec' = IF rest # <<>> THEN [ec EXCEPT ![w] = NONE, ![Head(rest)] = NONE]
                                ELSE [ec EXCEPT ![w] = NONE]
          /\ cnt' = [cnt EXCEPT ![w] = 0]
          /\ retired' = rest
          /\ pc' = IF rest = <<>> THEN "poll" ELSE "restart"
    /\ UNCHANGED <<taskq, buf, pipe, code, k, pool, drained, got, delivered, after>>

\* ---------------------------------------------------------------- workers and feeders
\* a started process runs up to its first visible operation (the blocking get on the task queue)
WBoot(w) ==
    /\ ws[w] = "spawned"
    /\ ws' = [ws EXCEPT ![w] = "atget"]
    /\ UNCHANGED <<taskq, buf, pipe, code, ec, cnt, pc, k, pool, drained, got, retired, delivered, after>>

WGet(w) ==
    /\ ws[w] = "atget"
    /\ taskq # <<>>
    /\ LET item == Head(taskq)
       IN /\ taskq' = Tail(taskq)
          /\ IF item = STOP
             THEN /\ ws' = [ws EXCEPT ![w] = "exiting"]
                  /\ code' = [code EXCEPT ![w] = 0]
                  /\ UNCHANGED <<buf, cnt, after>>
             ELSE /\ buf' = [buf EXCEPT ![w] = Append(@, item)]
                  /\ cnt' = [cnt EXCEPT ![w] = @ + 1]
                  /\ IF cnt[w] + 1 >= Q
                     THEN /\ ws' = [ws EXCEPT ![w] = "exiting"]
                          /\ code' = [code EXCEPT ![w] = 9]
                     ELSE UNCHANGED <<ws, code, after>>
    /\ UNCHANGED <<pipe, ec, pc, k, pool, drained, got, retired, delivered, after>>

Flush(w) ==
    /\ buf[w] # <<>>
    /\ pipe' = Append(pipe, Head(buf[w]))
    /\ buf' = [buf EXCEPT ![w] = Tail(@)]
    /\ UNCHANGED <<taskq, ws, code, ec, cnt, pc, k, pool, drained, got, retired, delivered, after>>

\* multiprocessing joins the feeder before the process exits
WExit(w) ==
    /\ ws[w] = "exiting"
    /\ buf[w] = <<>>
    /\ ws' = [ws EXCEPT ![w] = "dead"]
    /\ ec' = [ec EXCEPT ![w] = code[w]]
    /\ UNCHANGED <<taskq, buf, pipe, code, cnt, pc, k, pool, drained, got, retired, delivered, after>>

\* per-worker action names so that TLC's -dump dot,actionlabels identifies the acting worker
WBoot0 == 0 \in W /\ WBoot(0)
WBoot1 == 1 \in W /\ WBoot(1)
WBoot2 == 2 \in W /\ WBoot(2)
WBoot3 == 3 \in W /\ WBoot(3)
WGet0 == 0 \in W /\ WGet(0)
WGet1 == 1 \in W /\ WGet(1)
WGet2 == 2 \in W /\ WGet(2)
WGet3 == 3 \in W /\ WGet(3)
Flush0 == 0 \in W /\ Flush(0)
Flush1 == 1 \in W /\ Flush(1)
Flush2 == 2 \in W /\ Flush(2)
Flush3 == 3 \in W /\ Flush(3)
WExit0 == 0 \in W /\ WExit(0)
WExit1 == 1 \in W /\ WExit(1)
WExit2 == 2 \in W /\ WExit(2)
WExit3 == 3 \in W /\ WExit(3)

Done == pc = "done" /\ UNCHANGED vars

Next == PPutStop \/ PStart \/ PPoll \/ PCheck \/ PConsume \/ PRestart
        \/ WBoot0 \/ WBoot1 \/ WBoot2 \/ WBoot3
        \/ WGet0 \/ WGet1 \/ WGet2 \/ WGet3
        \/ Flush0 \/ Flush1 \/ Flush2 \/ Flush3
        \/ WExit0 \/ WExit1 \/ WExit2 \/ WExit3
        \/ Done

Spec == Init /\ [][Next]_vars

\* ---------------------------------------------------------------- properties
ExactlyOnce == pc = "done" => \A i \in 1..N : delivered[i] = 1
NoDuplicate == \A i \in 1..N : delivered[i] <= 1
\* when the parent has finished every worker is dead and nothing is left anywhere
Quiescent == pc = "done" => /\ pipe = <<>>
                            /\ \A w \in W : buf[w] = <<>> /\ ws[w] \in {"dead", "none"}
\* terminal states other than Done are deadlocks: checked by TLC's deadlock detection (Done stutters)
=============================================================================
