"""E4: TLC explores models/PoolProto.tla; its labelled state graph is replayed edge by edge on the real
annet.parallel through the controlled scheduler (mc/sched.py), checking at every step that
  (i)  the set of actions enabled in the model state equals the set of moves the implementation offers, and
  (ii) the abstraction of the implementation state equals the model state.
Every edge of the graph is covered by at least one replayed path (edge cover); all paths start at the initial state.
"""
from __future__ import annotations

import os
import re
import shutil
import subprocess
import sys
import tempfile

HERE = os.path.dirname(os.path.abspath(__file__))


# ---- TLC -------------------------------------------------------------------------------------------
def run_tlc(N, PS, Q, workdir, dump=True):
    os.makedirs(workdir, exist_ok=True)
    shutil.copy(os.path.join(HERE, "PoolProto.tla"), workdir)
    cfg = open(os.path.join(HERE, "PoolProto.cfg.tmpl")).read() % {"N": N, "PS": PS, "Q": Q}
    open(os.path.join(workdir, "PoolProto.cfg"), "w").write(cfg)
    cmd = ["tlc", "-workers", "1" if dump else "4", "-noGenerateSpecTE", "-metadir", os.path.join(workdir, "meta")]
    if dump:
        cmd += ["-dump", "dot,actionlabels", os.path.join(workdir, "graph.dot")]
    cmd += ["-config", "PoolProto.cfg", "PoolProto.tla"]
    try:
        r = subprocess.run(cmd, cwd=workdir, capture_output=True, text=True, timeout=int(os.environ.get("VERIF_TLC_TIMEOUT", "1500")))
        out = r.stdout + r.stderr
    except subprocess.TimeoutExpired as e:
        out = "TLC-INCOMPLETE (timeout)\n" + str(e.stdout or "")[-500:]
    ok = "Model checking completed. No error has been found." in out
    if not ok and "Error:" not in out and "is violated" not in out:
        out = "TLC-INCOMPLETE\n" + out[-800:]
    m = re.search(r"(\d+) states generated, (\d+) distinct states found", out)
    return ok, (int(m.group(1)), int(m.group(2))) if m else (0, 0), out, os.path.join(workdir, "graph.dot")


# ---- TLA+ value parser (subset printed by TLC) ------------------------------------------------------
def parse_value(s):
    s = s.strip()
    v, rest = _pv(s)
    assert not rest.strip(), (s, rest)
    return v


def _pv(s):
    s = s.lstrip()
    if s.startswith("<<"):
        s = s[2:].lstrip()
        items = []
        while not s.startswith(">>"):
            v, s = _pv(s)
            items.append(v)
            s = s.lstrip()
            if s.startswith(","):
                s = s[1:].lstrip()
        return tuple(items), s[2:]
    if s.startswith("{"):
        s = s[1:].lstrip()
        items = []
        while not s.startswith("}"):
            v, s = _pv(s)
            items.append(v)
            s = s.lstrip()
            if s.startswith(","):
                s = s[1:].lstrip()
        return frozenset(items), s[1:]
    if s.startswith("("):
        s = s[1:].lstrip()
        d = {}
        while not s.startswith(")"):
            kk, s = _pv(s)
            s = s.lstrip()
            assert s.startswith(":>"), s
            v, s = _pv(s[2:])
            d[kk] = v
            s = s.lstrip()
            if s.startswith("@@"):
                s = s[2:].lstrip()
        return d, s[1:]
    if s.startswith('"'):
        j = s.index('"', 1)
        return s[1:j], s[j + 1:]
    m = re.match(r"(TRUE|FALSE|-?\d+)", s)
    assert m, s
    t = m.group(1)
    return (True if t == "TRUE" else False if t == "FALSE" else int(t)), s[m.end():]


def parse_dot(path):
    states, edges, init = {}, [], None
    node_re = re.compile(r'^(-?\d+) \[label="((?:[^"\\]|\\.)*)"(,style = filled)?')
    edge_re = re.compile(r'^(-?\d+) -> (-?\d+) \[label="(\w+)"')
    for line in open(path):
        m = edge_re.match(line)
        if m:
            edges.append((m.group(1), m.group(3), m.group(2)))
            continue
        m = node_re.match(line)
        if m:
            sid = m.group(1)
            if sid not in states:
                lab = m.group(2).replace("\\n", "\n").replace('\\"', '"').replace("\\\\", "\\")
                st = {}
                for ln in lab.split("\n"):
                    ln = ln.strip()
                    if ln.startswith("/\\"):
                        name, _, val = ln[2:].partition("=")
                        st[name.strip()] = parse_value(val)
                states[sid] = st
            if m.group(3) and init is None:
                init = sid
    return states, edges, init


def seq_of(v, n):
    """TLC prints a function with domain 1..n as a sequence; 0..n-1 as (0 :> ..)"""
    if isinstance(v, dict):
        return [v[i] for i in range(n)]
    return list(v)


class LayoutChanged(Exception):
    """the implementation keeps the state the abstraction reads somewhere else (a refactoring): conformance replay cannot
    run on this tree; reported as 'not decided', never as a violation"""


# ---- abstraction of the implementation state ---------------------------------------------------------
def parent_pool(parent_thread, memo=None):
    """the set of workers the parent still tracks, read from the implementation's own state: the dict of live worker
    processes (name -> process object) held by a frame of annet/parallel.py on the parent's stack - as a local (`pool`
    in irun) or as an attribute of a local state object (a refactoring may keep it in a dataclass). The dict is
    recognised by what it holds (virtual process objects keyed by their names), and once seen it is followed by identity,
    so that it is still found when it is empty. Anything ambiguous raises LayoutChanged (= not decided)."""
    from mc import sched as sched_mod
    from mc.sched import VProcess
    memo = memo if memo is not None else {}
    fr = sys._current_frames().get(parent_thread.ident)
    dicts = {}
    in_parallel = False
    while fr is not None:
        if sched_mod.in_pool_file(fr.f_code.co_filename):
            in_parallel = True
            for name, val in list(fr.f_locals.items()):
                objs = [(name, val)]
                inner = getattr(val, "__dict__", None)
                if isinstance(inner, dict) and not isinstance(val, type) and type(val).__module__ != "builtins":
                    objs += [("%s.%s" % (name, k), v) for k, v in inner.items()]
                for label, obj in objs:
                    if isinstance(obj, dict):
                        dicts.setdefault(id(obj), (label, obj))
        fr = fr.f_back
    if not in_parallel and memo.get("pool_obj") is None:
        return None
    full = [(lbl, d) for (lbl, d) in dicts.values() if d and all(isinstance(v, VProcess) for v in d.values())
            and all(isinstance(k, str) for k in d)]
    ids = {id(d) for _, d in full}
    if len(ids) > 1:
        raise LayoutChanged("more than one dict of worker processes on the parent's stack: %r" % sorted(l for l, _ in full))
    if full:
        memo["pool_id"] = id(full[0][1])
        memo["pool_label"] = full[0][0]
        memo["pool_obj"] = full[0][1]
        d = full[0][1]
    elif memo.get("pool_id") in dicts:
        d = dicts[memo["pool_id"]][1]
    elif not in_parallel and memo.get("pool_obj") is not None:
        # the caller holds a yielded result: irun's frame is suspended and on nobody's stack; the dict it keeps is the one seen before
        d = memo["pool_obj"]
    elif "pool_id" not in memo:
        # no worker has been created yet: nothing is tracked
        return frozenset()
    else:
        # the dict seen before is gone and no populated one is in sight: an emptied pool kept in a fresh object
        empties = [lbl for (lbl, d) in dicts.values() if not d and lbl == memo.get("pool_label")]
        if empties:
            return frozenset()
        raise LayoutChanged("the dict of worker processes seen earlier (%s) is no longer on the parent's stack" % memo.get("pool_label"))
    try:
        return frozenset(int(n.split("-")[1]) for n in d.keys())
    except (ValueError, IndexError):
        raise LayoutChanged("worker names are no longer Worker-<n>: %r" % list(d.keys()))


def abstract(ex, PS, N):
    sched, vmp = ex.sched, ex.vmp
    tq = vmp.queues[0].pipe if vmp.queues else []
    dq = vmp.queues[1] if len(vmp.queues) > 1 else None
    taskq = tuple((0 if it.type.value == "stop" else it.payload + 1) for it in tq)
    pipe = tuple(it[1].payload + 1 for it in dq.pipe) if dq else ()
    buf = []
    for w in range(PS):
        b = dq.buffers.get("Worker-%d" % w, ()) if dq else ()
        buf.append(tuple(it[1].payload + 1 for it in b))
    latest = {}
    for p in vmp.processes:
        latest[p.name] = p
    ws, ec = [], []
    for w in range(PS):
        p = latest.get("Worker-%d" % w)
        if p is None or p.vthread is None:
            ws.append("none")
            ec.append(99)
            continue
        t = p.vthread
        if t.done:
            ws.append("dead")
        elif not t.started:
            ws.append("spawned")
        elif t.op[0] == "get":
            ws.append("atget")
        elif t.op[0] == "exit":
            ws.append("exiting")
        else:
            ws.append("?%r" % (t.op,))
        ec.append(99 if p._exitcode is None else p._exitcode)
    parent = sched.threads[0]
    if parent.done:
        pc = "done"
    else:
        pc = {"put": "putstop", "start": "start|restart", "poll": "poll", "exitcode": "check",
              "consume": "consume"}.get(parent.op[0], "?%r" % (parent.op,))
    pool = parent_pool(parent.thread, ex.__dict__.setdefault('_conform_memo', {})) if not parent.done else frozenset()
    delivered = [0] * N
    for d in ex.delivered:
        delivered[d[0]] += 1
    return {"taskq": taskq, "pipe": pipe, "buf": buf, "ws": ws, "ec": ec, "pc": pc, "pool": pool, "delivered": delivered}


def model_view(st, PS, N):
    pc = st["pc"]
    return {"taskq": tuple(st["taskq"]), "pipe": tuple(st["pipe"]), "buf": [tuple(x) for x in seq_of(st["buf"], PS)],
            "ws": seq_of(st["ws"], PS), "ec": seq_of(st["ec"], PS),
            "pc": "start|restart" if pc in ("start", "restart") else pc,
            "pool": frozenset(st["pool"]), "delivered": seq_of(st["delivered"], N)}


def impl_labels(sched, choices):
    out = []
    for kind, what in choices:
        if kind == "d":
            out.append("Flush%d" % int(what[2].split("-")[1]))
            continue
        t = sched.threads[what]
        if t.proc is None:
            out.append({"put": "PPutStop", "start": "PStart|PRestart", "poll": "PPoll", "exitcode": "PCheck",
                        "consume": "PConsume"}.get(t.op[0], "?%r" % (t.op,)))
        else:
            w = int(t.name.split("-")[1])
            if not t.started:
                out.append("WBoot%d" % w)
            else:
                out.append({"get": "WGet%d", "exit": "WExit%d"}.get(t.op[0], "?" + t.op[0] + "%d") % w)
    return out


def norm(label):
    return "PStart|PRestart" if label in ("PStart", "PRestart") else label


# ---- replay ----------------------------------------------------------------------------------------
def conform(N, PS, Q, workdir, budget_paths=None):
    """-> dict(result counters, problems list)"""
    from checks import c12_pool as c12
    ok, counts, out, dot = run_tlc(N, PS, Q, workdir)
    res = {"tlc_ok": ok, "tlc_generated": counts[0], "tlc_distinct": counts[1], "edges": 0, "paths": 0, "steps": 0,
           "problems": []}
    if not ok:
        res["problems"].append(("tlc", out[-1500:]))
        return res
    states, edges, init = parse_dot(dot)
    adj = {}
    for (a, lab, b) in edges:
        if lab == "Done":
            continue
        adj.setdefault(a, []).append((lab, b))
    real_edges = {(a, lab, b) for a in adj for (lab, b) in adj[a]}
    res["edges"] = len(real_edges)
    # BFS tree for shortest paths
    parent = {init: None}
    order = [init]
    for s in order:
        for (lab, b) in adj.get(s, []):
            if b not in parent:
                parent[b] = (s, lab)
                order.append(b)
    uncovered = set(real_edges)
    cfg = {"n": N, "pool": PS, "max_tasks": Q, "raising": [], "tolerate": 1}
    # edges in BFS order of their source state: the next uncovered edge is found with a moving cursor
    edge_order = [(s_, lab, b) for s_ in order for (lab, b) in adj.get(s_, [])]
    cursor = 0

    def path_to(s):
        p = []
        while parent[s] is not None:
            ps, lab = parent[s]
            p.append((ps, lab, s))
            s = ps
        return list(reversed(p))

    while uncovered:
        if budget_paths is not None and res["paths"] >= budget_paths:
            break
        while cursor < len(edge_order) and edge_order[cursor] not in uncovered:
            cursor += 1
        if cursor >= len(edge_order):
            break
        e = edge_order[cursor]
        plan = path_to(e[0]) + [e]
        # extend greedily along uncovered edges
        cur = e[2]
        seen_local = {e}
        while True:
            nxt = None
            for (lab, b) in adj.get(cur, []):
                ed = (cur, lab, b)
                if ed in uncovered and ed not in seen_local:
                    nxt = ed
                    break
            if nxt is None:
                break
            plan.append(nxt)
            seen_local.add(nxt)
            cur = nxt[2]
        ex = c12.Execution(cfg, [0] * N)
        ex.sched.allow_idle_polls = True
        pos = [0]
        problems = res["problems"]

        def chooser(sched, me, choices, plan=plan, pos=pos, ex=ex):
            i = pos[0]
            st_id = plan[i][0] if i < len(plan) else plan[-1][2]
            mv = model_view(states[st_id], PS, N)
            try:
                av = abstract(ex, PS, N)
            except LayoutChanged as e:
                if not any(p[0] == "layout" for p in problems):
                    problems.insert(0, ("layout", str(e)))
                return None
            if av["pc"] == "start|restart" and mv["pc"] == "start|restart":
                # the parent is in the middle of creating a worker: whether the new process object is already entered
                # in its dict or only after start() is an implementation detail without observable effect; the entry of
                # a worker that has not run yet is left out of the comparison at this point (it is compared at the next
                # poll / reap state)
                pending = {w for w in range(PS) if av["ws"][w] in ("none", "spawned") or mv["ws"][w] in ("none", "spawned")
                           or av["ws"][w] == "dead"}
                av = dict(av, pool=frozenset(av["pool"]) - pending)
                mv = dict(mv, pool=frozenset(mv["pool"]) - pending)
            if av != mv:
                problems.append(("state-mismatch", {"step": i, "model": repr(mv), "impl": repr(av),
                                                    "path": [p[1] for p in plan[:i]]}))
                return None
            m_en = sorted(norm(lab) for (lab, b) in adj.get(st_id, []))
            i_en = sorted(impl_labels(sched, choices))
            if m_en != i_en:
                problems.append(("enabled-mismatch", {"step": i, "model": m_en, "impl": i_en,
                                                      "path": [p[1] for p in plan[:i]]}))
                return None
            if i >= len(plan):
                return None
            want = norm(plan[i][1])
            labs = impl_labels(sched, choices)
            pos[0] += 1
            res["steps"] += 1
            return labs.index(want)
        ex.sched.chooser = chooser
        ex.go()
        res["paths"] += 1
        if ex.sched.error is not None:
            problems.append(("harness-error", repr(ex.sched.error)))
        done = pos[0]
        if ex.sched.verdict not in ("stopped", None) and done < len(plan):
            problems.append(("execution-ended-early", {"verdict": ex.sched.verdict, "done": done, "plan": [p[1] for p in plan]}))
        for ed in plan[:done]:
            uncovered.discard(ed)
        if done < len(plan) and not problems:
            # final state reached the end of the execution before the plan: only possible at a terminal model state
            problems.append(("plan-not-finished", {"done": done, "plan": [p[1] for p in plan]}))
        if problems:
            break
    res["uncovered"] = len(uncovered)
    res["states"] = len(states)
    return res


if __name__ == "__main__":
    sys.path.insert(0, os.path.dirname(HERE))
    from mc import env
    env.setup()
    N, PS, Q = (int(x) for x in sys.argv[1:4])
    with tempfile.TemporaryDirectory() as d:
        r = conform(N, PS, Q, d)
    probs = r.pop("problems")
    print(r)
    for p in probs[:3]:
        print("PROBLEM", p)
    sys.exit(1 if probs or r.get("uncovered") else 0)
